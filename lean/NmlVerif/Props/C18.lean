import NmlVerif.Proofs.ArrayMorphHist
import NmlVerif.Proofs.ArrayMorphDoc
import NmlVerif.Proofs.ArrayMorphAlias
/-!
# C18 — array morphologies survive their file format; their views agree with the arrays

Model: `NmlVerif.ArrayMorph` (`Model/ArrayMorph.lean`), tied to `neuroml/arraymorph.py`, `ArrayMorphWriter`
(`neuroml/writers.py`) and `ArrayMorphLoader` (`neuroml/loaders.py`) by the correspondence check
`harness/props/c18.py` (generated arrays and documents, real library vs `Drivers/C18.lean`).

Vocabulary (defined in `Proofs/ArrayMorph.lean`):
* `IsTree c r`  — the connectivity array `c` has `-1` at `r`, a valid index everywhere else, and following
  parents terminates (a rank function exists): any tree shape, any vertex numbering.
* `Valid a r`   — equal array lengths, mask all false (no floating vertices), `IsTree a.conn r`.
* `EdgeL c u v` — `{u, v}` is an (undirected) edge of the array.
* `topNames d`, `docArrs d` — the top-level group names the writer uses for a document / its array triples
  (`xTopNames`, `xdocArrs` for documents that also hold members that are not array morphologies).
-/
namespace NmlVerif.ArrayMorph

/-! ## re-rooting -/

/-- **`to_root`, every tree, every new root.** The loop as written (prefetched parent / grandparent, in-place
    writes, reads through index `-1`) terminates within the model's fuel, touches neither vertices nor mask,
    and returns a connectivity array that is again a tree (`IsTree … j`: its one and only `-1` is at the new
    root `j`) with exactly the same undirected edges. The old root `r` is arbitrary, so the statement also
    covers repeated re-rooting. -/
theorem c18_toRoot (a : Arr) (r j : Nat) (h : IsTree a.conn r) (hj : j < a.conn.length) :
    ∃ c', toRoot a (j : Int) = .ok { a with conn := c' } ∧ c'.length = a.conn.length ∧ IsTree c' j ∧
      ∀ u v, EdgeL c' u v ↔ EdgeL a.conn u v :=
  toRootFuel_spec a r j h hj

/-- exactly one root after re-rooting, and it is the new root -/
theorem c18_toRoot_one_root (a : Arr) (r j : Nat) (h : IsTree a.conn r) (hj : j < a.conn.length) :
    ∃ a', toRoot a (j : Int) = .ok a' ∧ a'.vertices = a.vertices ∧ a'.mask = a.mask ∧
      ∀ v, a'.conn[v]? = some (-1) ↔ v = j := by
  obtain ⟨c', h1, _, h3, _⟩ := c18_toRoot a r j h hj
  refine ⟨_, h1, rfl, rfl, ?_⟩
  intro v
  constructor
  · intro hv
    apply Classical.byContradiction
    intro hne
    have := (h3.parent v (-1) hv hne).1
    omega
  · intro e; subst e; exact h3.root

/-- a tree's root is unique, so `IsTree c r` really says "exactly one root" -/
theorem c18_root_unique (c : List Int) (r : Nat) (h : IsTree c r) (v : Nat) : c[v]? = some (-1) ↔ v = r := by
  constructor
  · intro hv
    apply Classical.byContradiction
    intro hne
    have := (h.parent v (-1) hv hne).1
    omega
  · intro e; subst e; exact h.root

/-! ## segment view and conversion -/

/-- the view has one segment per vertex other than vertex 0 -/
theorem c18_view_count (a : Arr) (r : Nat) (h : Valid a r) :
    viewLen a = a.conn.length - 1 ∧ (viewIter a).length = a.conn.length - 1 := by
  obtain ⟨ss, h1, _, h3, _⟩ := h.view
  exact ⟨h.viewLen, by rw [h1]; exact h3⟩

/-- segment `i` of the view (by indexing and by iteration alike) has id `i+1`, joins vertex `i+1` and its
    parent vertex, and names the parent index when `i+1 > 1` -/
theorem c18_view_endpoints (a : Arr) (r : Nat) (h : Valid a r) (i : Nat) (hi : i + 1 < a.conn.length)
    (hr : i + 1 ≠ r) :
    ∃ (p : Nat) (nv pv : Vec4), a.conn[i + 1]? = some (p : Int) ∧ a.vertices[i + 1]? = some nv ∧
      a.vertices[p]? = some pv ∧
      viewGet a (i : Int) = .ok ⟨((i + 1 : Nat) : Int), nv, pv, if 1 < i + 1 then some (p : Int) else none⟩ ∧
      (viewIter a)[i]? = some ⟨((i + 1 : Nat) : Int), nv, pv, if 1 < i + 1 then some (p : Int) else none⟩ := by
  obtain ⟨p, nv, pv, h1, h2, h3, h4⟩ := h.sfv_nonroot (i + 1) hi hr
  obtain ⟨ss, e1, _, e3, e4⟩ := h.view
  have hi' : i < ss.length := by omega
  obtain ⟨g1, g2⟩ := e4 i hi'
  rw [h4] at g2
  refine ⟨p, nv, pv, h1, h2, h3, ?_, ?_⟩
  · rw [g1, ← Except.ok.inj g2]
  · rw [e1, List.getElem?_eq_getElem hi', ← Except.ok.inj g2]

/-- indexing and iterating the view agree, and the ids are the vertex indices `1 … n-1` in order: with the
    root at vertex 0 that is exactly one segment per non-root vertex -/
theorem c18_view_ids (a : Arr) (r : Nat) (h : Valid a r) :
    (∀ (i : Nat) (hi : i < (viewIter a).length), viewGet a (i : Int) = .ok (viewIter a)[i] ∧
        (viewIter a)[i].id = ((i + 1 : Nat) : Int)) := by
  obtain ⟨ss, e1, _, e3, e4⟩ := h.view
  subst e1
  intro i hi
  obtain ⟨g1, g2⟩ := e4 i hi
  refine ⟨g1, ?_⟩
  exact sfv_id g2

/-- with the root at vertex 0: every non-root vertex `v` has exactly one segment in the view (the one at
    position `v - 1`) -/
theorem c18_view_one_per_vertex (a : Arr) (h : Valid a 0) (v : Nat) (hv0 : 0 < v) (hv : v < a.conn.length) :
    ∃ (i : Nat) (hi : i < (viewIter a).length), (viewIter a)[i].id = (v : Int) ∧
      ∀ (k : Nat) (hk : k < (viewIter a).length), (viewIter a)[k].id = (v : Int) → k = i := by
  have hlen := (c18_view_count a 0 h).2
  have hids := c18_view_ids a 0 h
  have hi : v - 1 < (viewIter a).length := by omega
  refine ⟨v - 1, hi, ?_, ?_⟩
  · rw [(hids (v - 1) hi).2]; omega
  · intro k hk hkid
    rw [(hids k hk).2] at hkid
    omega

/-- **conversion = view** (repaired `to_neuroml_morphology`): the plain morphology holds exactly the
    segments of the view, in the same order -/
theorem c18_convert_eq_view (a : Arr) (r : Nat) (h : Valid a r) : toNeuromlMorphology a = .ok (viewIter a) := by
  obtain ⟨ss, e1, e2, _, _⟩ := h.view
  rw [e1, e2]

/-- the pre-repair conversion (`range(num_vertices - 1)`) is wrong already on the 4-vertex tree of the repo's
    own test: a bogus segment for the root (joined to the LAST vertex through index `-1`), last vertex missing -/
theorem c18_convert_old_witness :
    let a : Arr := ⟨[(0,0,0,1), (1,0,0,2), (2,0,0,3), (3,0,0,4)], [-1, 0, 1, 1], [false, false, false, false]⟩
    toNeuromlMorphologyOld a ≠ .ok (viewIter a) ∧
    toNeuromlMorphologyOld a = .ok [⟨0, (0,0,0,1), (3,0,0,4), none⟩, ⟨1, (1,0,0,2), (0,0,0,1), none⟩,
      ⟨2, (2,0,0,3), (1,0,0,2), some 1⟩] := by
  decide

/-! ## histories: any sequence of calls on ONE object (the segment cache is state)

`Obj` = arrays + `SegmentList.instantiated_segments`; `run (fresh a) ops` executes the calls `ops`
(`segments[i]`, `len`, iteration, `segment_from_vertex_index`, `to_neuroml_morphology`, `to_root`, in any order)
on one freshly built object; `specRun a ops` gives the ARRAY-DEFINED value of every call (computed from the
arrays as they are at that moment, no cache).  `to_root` ends with `self.segments.instantiated_segments.clear()`
(`fixes/C18-toroot-invalidates-cache.patch`); `runOld` is the behaviour before that repair. -/

/-- **the full history statement**: whatever was called before on the object — view reads, conversions,
    re-rootings, in any order, with any indices (negative, out of range: the same error), on ANY arrays (no
    validity needed) — every call returns the array-defined value, and the arrays evolve as the array-level
    functions say.  (The cache stays coherent with the arrays: `to_root`, the only call that changes the arrays,
    empties it.) -/
theorem c18_history_full (a : Arr) (ops : List Op) :
    (run (fresh a) ops).1 = (specRun a ops).1 ∧ (run (fresh a) ops).2.arr = (specRun a ops).2 := by
  have := run_coh ops (fresh a) (coh_fresh a)
  exact ⟨this.1, this.2.1⟩

/-- a morphology without floating vertices stays one through every history whose re-rootings name vertices
    (the root moves; the number of vertices does not change) -/
theorem c18_history_keeps_valid (a : Arr) (r : Nat) (h : Valid a r) (ops : List Op)
    (hops : ∀ op ∈ ops, op.rootInRange a.conn.length = true) :
    ∃ r', Valid (run (fresh a) ops).2.arr r' ∧ (run (fresh a) ops).2.arr.conn.length = a.conn.length := by
  rw [(c18_history_full a ops).2]
  exact specRun_valid ops a r h hops

/-- after ANY history (re-rootings included): when the arrays the object then holds are a tree without floating
    vertices, `to_neuroml_morphology` yields exactly the view's segments, iteration yields them, `len` is `n - 1`
    and `segments[i]` is the array-defined segment — of the arrays as they are NOW -/
theorem c18_history_view_convert (a : Arr) (ops : List Op) (r : Nat)
    (h : Valid (run (fresh a) ops).2.arr r) :
    (step (run (fresh a) ops).2 .conv).1 = .conv (.ok (viewIter (run (fresh a) ops).2.arr)) ∧
    (step (run (fresh a) ops).2 .iter).1 = .segs (viewIter (run (fresh a) ops).2.arr) ∧
    (step (run (fresh a) ops).2 .len).1 = .len ((run (fresh a) ops).2.arr.conn.length - 1) ∧
    ∀ (i : Nat) (hi : i < (viewIter (run (fresh a) ops).2.arr).length),
      (step (run (fresh a) ops).2 (.get (i : Int))).1 = .seg (.ok (viewIter (run (fresh a) ops).2.arr)[i]) := by
  obtain ⟨_, _, m4⟩ := run_coh ops (fresh a) (coh_fresh a)
  refine ⟨?_, ?_, ?_, ?_⟩
  · show Res.conv (toNeuromlMorphology (run (fresh a) ops).2.arr) = _
    rw [c18_convert_eq_view _ r h]
  · obtain ⟨g1, _, _⟩ := iterObj_coh m4
    show Res.segs (iterObj (run (fresh a) ops).2).1 = _
    rw [g1]
  · show Res.len (viewLen (run (fresh a) ops).2.arr) = _
    rw [h.viewLen]
  · intro i hi
    obtain ⟨g1, _, _⟩ := getItem_coh m4 (i : Int)
    show Res.seg (getItem (run (fresh a) ops).2 (i : Int)).1 = _
    rw [g1, (c18_view_ids _ r h i hi).1]

/-- `to_root` inside a history: it never READS the cache, so after any calls whatsoever it re-roots the arrays
    the object then holds exactly as `c18_toRoot` says — and leaves the object with an empty cache -/
theorem c18_history_toRoot (o : Obj) (r j : Nat) (h : IsTree o.arr.conn r) (hj : j < o.arr.conn.length) :
    ∃ c', step o (.toRoot (j : Int)) = (.unit (.ok ()), { arr := { o.arr with conn := c' }, cache := [] }) ∧
      c'.length = o.arr.conn.length ∧ IsTree c' j ∧ ∀ u v, EdgeL c' u v ↔ EdgeL o.arr.conn u v := by
  obtain ⟨c', h1, h2, h3, h4⟩ := c18_toRoot o.arr r j h hj
  refine ⟨c', ?_, h2, h3, h4⟩
  simp only [step, toRootObj, h1]

/-- re-rooting back: a tree's connectivity array is determined by its undirected edges and its root, so
    `to_root(j)` followed by `to_root(r)` restores the ORIGINAL array exactly -/
theorem c18_toRoot_back (a : Arr) (r j : Nat) (h : IsTree a.conn r) (hj : j < a.conn.length) :
    ∃ a1, toRoot a (j : Int) = .ok a1 ∧ toRoot a1 (r : Int) = .ok a := by
  obtain ⟨c1, h1, l1, t1, e1⟩ := c18_toRoot a r j h hj
  have hr : r < a.conn.length := (List.getElem?_eq_some_iff.mp h.root).1
  obtain ⟨c2, h2, l2, t2, e2⟩ := c18_toRoot { a with conn := c1 } j r t1 (by simpa [l1] using hr)
  refine ⟨_, h1, ?_⟩
  rw [h2]
  have : c2 = a.conn := isTree_unique t2 h (by rw [l2]; exact l1) (fun u v => (e2 u v).trans (e1 u v))
  rw [this]

/-- the fuel of the model's iteration loop (the sequence protocol behind `list(morph.segments)`) is always
    enough: any larger fuel gives the same segments and the same cache, for EVERY object state (coherent cache
    or not, user-assigned segments beyond the arrays included) -/
theorem c18_iter_fuel_enough (o : Obj) (extra : Nat) : iterFrom (iterFuel o + extra) o 0 = iterObj o :=
  iterObj_fuel_enough o extra

/-- the history statement for the code BEFORE `fixes/C18-toroot-invalidates-cache.patch` (`runOld`: `to_root`
    keeps the segment cache) -/
def c18_history_old_full : Prop :=
  ∀ (a : Arr) (r : Nat), Valid a r → ∀ ops : List Op, (runOld (fresh a) ops).1 = (specRun a ops).1

/-- … it failed (finding `C18:view-stale-after-toroot`, fixed): 4-vertex chain, `to_root(3)`, `segments[0]`,
    `to_root(0)` (the arrays are back to the original, a tree rooted at 0 without floating vertices),
    `segments[0]`: still vertex 1 joined to vertex 2 (its parent while the root was 3) instead of vertex 0 -/
theorem c18_history_old_witness : ¬ c18_history_old_full := by
  intro hfull
  have hv : Valid ⟨[(0,0,0,1), (1,0,0,2), (2,0,0,3), (3,0,0,4)], [-1, 0, 1, 2], [false, false, false, false]⟩ 0 :=
    ⟨rfl, rfl, by decide, isTree_chain4⟩
  have := hfull _ 0 hv [.toRoot 3, .get 0, .toRoot 0, .get 0]
  revert this
  decide

/-- … the witness in detail, before and after the repair: the arrays are the original ones again; the
    pre-repair object returns the stale segment, the object as it is today the array-defined one -/
theorem c18_history_old_witness_values :
    let a : Arr := ⟨[(0,0,0,1), (1,0,0,2), (2,0,0,3), (3,0,0,4)], [-1, 0, 1, 2], [false, false, false, false]⟩
    let old := runOld (fresh a) [.toRoot 3, .get 0, .toRoot 0, .get 0]
    let new := run (fresh a) [.toRoot 3, .get 0, .toRoot 0, .get 0]
    old.2.arr = a ∧ old.1[3]? = some (.seg (.ok ⟨1, (1,0,0,2), (2,0,0,3), none⟩)) ∧
      new.2.arr = a ∧ new.1[3]? = some (.seg (.ok ⟨1, (1,0,0,2), (0,0,0,1), none⟩)) ∧
      viewGet a 0 = .ok ⟨1, (1,0,0,2), (0,0,0,1), none⟩ := by
  decide

/-! ## the file format

`load` is total on the files of the model (the loader recognises a morphology group by an ARRAY called `vertices`,
`fixes/C18-loader-vertices-is-array.patch`; `loadOld` is the loader before that repair). -/

/-- a single morphology written on its own and loaded back: the same three arrays, whatever they are
    (no validity needed) and whatever the morphology id -/
theorem c18_load_write_single (m : Morph) : ∃ f, writeMorph m = .ok f ∧ load f = [m.arr] := by
  refine ⟨[(match m.id with | none => "Morphology" | some s => s, .morph m.arr)], ?_, ?_⟩
  · show addNode [] _ (.morph m.arr) = _
    rw [addNode_ok _ (by simp)]
    rfl
  · unfold load
    rw [List.mergeSort_singleton]
    rfl

/-- the full statement for documents: every document round-trips (up to the order of the morphologies — the
    format stores no ids and is read back in group-name order) -/
def c18_load_write_doc_full : Prop :=
  ∀ d : Doc, ∃ f, writeDoc d = .ok f ∧ (load f).Perm (docArrs d)

/-- **documents with any mix of cells and stand-alone array morphologies** round-trip whenever the top-level
    group names (cell ids and stand-alone morphology ids, after defaulting) are pairwise distinct — whatever the
    morphologies inside the cells are called ("vertices" included). The loaded list is the written one in
    group-name order. -/
theorem c18_load_write_doc_partial (d : Doc) (hn : (topNames d).Nodup) :
    ∃ f, writeDoc d = .ok f ∧ (load f).Perm (docArrs d) ∧
      load f = ((entries d).mergeSort nameLe).flatMap entryArrs := by
  refine ⟨entries d, writeDoc_ok d hn, ?_, load_entries _ (entries_single d)⟩
  rw [← entries_arrs d]
  exact load_perm _ (entries_single d)

/-- the full statement fails (open finding `C18:doc-cell-and-morphology-share-name`): a cell and a stand-alone
    morphology with the same id collide in the flat group layout (`NodeError`) -/
theorem c18_load_write_doc_witness : ¬ c18_load_write_doc_full := by
  intro h
  obtain ⟨f, h1, _⟩ := h ⟨[⟨some "x", ⟨some "m", ⟨[], [], []⟩⟩⟩], [⟨some "x", ⟨[], [], []⟩⟩]⟩
  have : writeDoc ⟨[⟨some "x", ⟨some "m", ⟨[], [], []⟩⟩⟩], [⟨some "x", ⟨[], [], []⟩⟩]⟩ = .error .nodeError := by
    decide
  rw [this] at h1
  cases h1

/-- an id-less morphology is named `Morphology<position>`: that collides with an explicit id of the same shape
    (`NodeError`) — one more way the full document statement fails (open finding `C18:doc-default-id-collides`) -/
theorem c18_load_write_doc_witness_default_id :
    writeDoc ⟨[], [⟨some "Morphology1", ⟨[], [], []⟩⟩, ⟨none, ⟨[], [], []⟩⟩]⟩ = .error .nodeError := by
  decide

/-- a cell whose morphology is called "vertices" (finding `C18:doc-cell-morphology-named-vertices`, fixed): the
    loader before the repair (`hasattr(node, "vertices")`) took the CELL group for a morphology group
    (`NoSuchNodeError`); today's loader returns the written arrays -/
theorem c18_load_old_witness_vertices :
    let d : Doc := ⟨[⟨some "x", ⟨some "vertices", ⟨[(1, 2, 3, 4)], [-1], [false]⟩⟩⟩], []⟩
    (writeDoc d).bind loadOld = .error .noSuchNode ∧
      (writeDoc d).map load = .ok [⟨[(1, 2, 3, 4)], [-1], [false]⟩] := by
  have hw : writeDoc ⟨[⟨some "x", ⟨some "vertices", ⟨[(1, 2, 3, 4)], [-1], [false]⟩⟩⟩], []⟩ =
      .ok [("x", .cell [("vertices", ⟨[(1, 2, 3, 4)], [-1], [false]⟩)])] := by decide
  simp only [hw]
  refine ⟨?_, ?_⟩
  · show loadOld _ = _
    unfold loadOld
    rw [List.mergeSort_singleton]
    decide
  · show Except.ok (load _) = _
    unfold load
    rw [List.mergeSort_singleton]
    simp [nodeMorphs]

/-- the pre-repair writer (`cell_id=cell.id` in the stand-alone loop) cannot write ANY document that holds a
    stand-alone morphology: `UnboundLocalError` without cells, `NodeError` with cells -/
theorem c18_writeDocOld_fails (d : Doc) (hm : d.morphs ≠ []) : ∀ f, writeDocOld d ≠ .ok f := by
  intro f hf
  unfold writeDocOld at hf
  cases hc : writeCells 0 d.cells [] with
  | error e => rw [hc] at hf; cases hf
  | ok f1 =>
    rw [hc] at hf
    simp only [] at hf
    obtain ⟨m, ms, hms⟩ := List.exists_cons_of_ne_nil hm
    rw [hms] at hf
    cases hl : lastCellId 0 d.cells with
    | none => rw [hl] at hf; simp [writeMorphsOld] at hf
    | some cid =>
      rw [hl] at hf
      have hf1 := writeCells_eq d.cells 0 [] f1 hc
      have hmem : cid ∈ f1.map (·.1) := by
        rw [hf1]; simp only [List.nil_append, cellEntries_names]
        exact lastCellId_mem d.cells 0 cid hl
      simp only [writeMorphsOld, writeSingleCell, addNode_dup _ hmem] at hf
      cases hf

/-! ## documents that also hold cells without an embedded morphology / plain morphologies

What the property demands: "identical vertex, connectivity and physical-mask arrays for every morphology" speaks
about the morphologies that HAVE such arrays — the `ArrayMorphology` objects of the document (`xdocArrs d`: those
embedded in cells, then the stand-alone ones).  A cell without an embedded morphology (it refers to a stand-alone
one) and a plain `neuroml.Morphology` have no arrays and the format has no place for them: the property demands
nothing for them except that their presence does not keep the array morphologies next to them from surviving.
The writer skips them (`fixes/C18-writer-skips-non-array.patch`); `writeXDocOld` is the writer before that. -/

/-- the full statement for ANY document: the array morphologies it holds survive -/
def c18_load_write_xdoc_full : Prop :=
  ∀ d : XDoc, ∃ f, writeXDoc d = .ok f ∧ (load f).Perm (xdocArrs d)

/-- **documents holding any mix of cells with / without an array morphology and stand-alone plain / array
    morphologies**: when the group names of the members that ARE array morphologies (`xTopNames`: cell ids and
    stand-alone morphology ids, defaulted by their position among ALL members of their list) are pairwise
    distinct, the document is written, the file holds exactly one root group per array morphology
    (`xEntries d`; nothing at all for the skipped members, whose ids — colliding or not — play no role), and
    loading gives back exactly the array triples of the document: a permutation of `xdocArrs d`, namely the
    groups in name order; in particular as many morphologies as the document has array morphologies. -/
theorem c18_load_write_xdoc_partial (d : XDoc) (hn : (xTopNames d).Nodup) :
    ∃ f, writeXDoc d = .ok f ∧ f = xEntries d ∧ f.length = (xdocArrs d).length ∧
      (load f).Perm (xdocArrs d) ∧ load f = ((xEntries d).mergeSort nameLe).flatMap entryArrs := by
  refine ⟨xEntries d, writeXDoc_ok d hn, rfl, xEntries_length d, ?_, load_entries _ (xEntries_single d)⟩
  rw [← xEntries_arrs d]
  exact load_perm _ (xEntries_single d)

/-- the `XDoc` statements extend the `Doc` ones: on a document made of array morphologies only the writer is
    `writeDoc`, and the triples of any document are those of its array part -/
theorem c18_xdoc_extends_doc (d : Doc) (x : XDoc) :
    writeXDoc d.toX = writeDoc d ∧ xdocArrs x = docArrs x.arrayDoc :=
  ⟨writeXDoc_toX d, xdocArrs_arrayDoc x⟩

/-- the full statement still fails, for the reason `c18_load_write_doc_full` fails (name collisions between
    members that are written); non-array members are no longer a reason -/
theorem c18_load_write_xdoc_witness : ¬ c18_load_write_xdoc_full := by
  intro h
  obtain ⟨f, h1, _⟩ := h ⟨[⟨some "x", .array ⟨some "m", ⟨[], [], []⟩⟩⟩, ⟨some "c", .none⟩],
    [.plain, .array ⟨some "x", ⟨[], [], []⟩⟩]⟩
  have : writeXDoc ⟨[⟨some "x", .array ⟨some "m", ⟨[], [], []⟩⟩⟩, ⟨some "c", .none⟩],
      [.plain, .array ⟨some "x", ⟨[], [], []⟩⟩]⟩ = .error .nodeError := by decide
  rw [this] at h1
  cases h1

/-- before `fixes/C18-writer-skips-non-array.patch` (findings `C18:doc-cell-without-morphology`,
    `C18:doc-plain-morphology`, fixed): EVERY document with a cell that has no embedded morphology, or a plain one,
    was unwritable (`AttributeError`), whatever else it held -/
theorem c18_writeXDocOld_nonarray (d : XDoc) (h : ∃ c ∈ d.cells, ∀ m, c.morph ≠ .array m) :
    ∀ f, writeXDocOld d ≠ .ok f := by
  intro f hf
  unfold writeXDocOld at hf
  cases hc : writeXCellsOld 0 d.cells [] with
  | error e => rw [hc] at hf; cases hf
  | ok f1 => exact writeXCellsOld_nonarray d.cells 0 [] h f1 hc

/-! ## documents in which one `ArrayMorphology` object is used by several members

`writeADoc` is the writer loop with its id assignments ON THE OBJECTS (`morphology.id = "Morphology" + str(default_id)`):
an object that is the morphology of two cells, or of a cell and also a member of `document.morphology`, is written at
every occurrence, from the second one on under the name its first occurrence was given. -/

/-- the writer on a document with shared objects = the writer on the document in which every occurrence carries
    the id the object has when the writer reaches it (`resolve d`) -/
theorem c18_writeADoc_resolve (d : ADoc) : writeADoc d = writeXDoc (resolve d) ∧ xdocArrs (resolve d) = adocArrs d :=
  ⟨writeADoc_resolve d, resolve_arrs d⟩

/-- **round trip with shared objects**: when the group names the writer ends up using (`xTopNames (resolve d)`) are
    pairwise distinct, the document is written and loads back to exactly one array triple per OCCURRENCE of an
    array morphology (an object used by two cells is in the document twice, is stored twice and loads twice) -/
theorem c18_load_write_adoc_partial (d : ADoc) (hn : (xTopNames (resolve d)).Nodup) :
    ∃ f, writeADoc d = .ok f ∧ (load f).Perm (adocArrs d) ∧ f.length = (adocArrs d).length := by
  obtain ⟨f, h1, _, h3, h4, _⟩ := c18_load_write_xdoc_partial (resolve d) hn
  refine ⟨f, by rw [writeADoc_resolve, h1], ?_, ?_⟩
  · rw [← resolve_arrs d]; exact h4
  · rw [← resolve_arrs d]; exact h3

/-- sharing changes names: the object of cell 0 (id-less, named `Morphology0` by the cell loop) listed again as the
    SECOND stand-alone morphology keeps that name and collides with the default name of the id-less first one
    (`NodeError`) — the same document with a copy of the object instead is written (`Morphology1`).  One more
    instance of the open finding `C18:doc-default-id-collides`. -/
theorem c18_load_write_adoc_witness :
    let m : Morph := ⟨none, ⟨[(1, 2, 3, 4)], [-1], [false]⟩⟩
    let n : Morph := ⟨none, ⟨[], [], []⟩⟩
    writeADoc ⟨[⟨some "c", .array ⟨0, m⟩⟩], [.array ⟨1, n⟩, .array ⟨0, m⟩]⟩ = .error .nodeError ∧
      (writeADoc ⟨[⟨some "c", .array ⟨0, m⟩⟩], [.array ⟨1, n⟩, .array ⟨2, m⟩]⟩).map (·.map (·.1)) =
        .ok ["c", "Morphology0", "Morphology1"] := by
  decide

/-! ## the hypotheses are satisfiable (non-vacuity) -/

/-- a 5-vertex tree in shuffled numbering (parent index above child index), root 0 -/
example : IsTree [-1, 3, 0, 0, 1] 0 := isTree_example

/-- the same tree with vertices and an all-false mask is `Valid`; the view and the conversion on it are the
    four expected segments -/
example :
    let a : Arr := ⟨[(0,0,0,8), (8,1,0,7), (16,2,0,6), (24,3,0,5), (32,4,0,4)], [-1, 3, 0, 0, 1],
                    [false, false, false, false, false]⟩
    Valid a 0 ∧ viewLen a = 4 ∧
    viewIter a = [⟨1, (8,1,0,7), (24,3,0,5), none⟩, ⟨2, (16,2,0,6), (0,0,0,8), some 0⟩,
                  ⟨3, (24,3,0,5), (0,0,0,8), some 0⟩, ⟨4, (32,4,0,4), (8,1,0,7), some 1⟩] ∧
    toNeuromlMorphology a = .ok (viewIter a) :=
  ⟨⟨rfl, rfl, by decide, isTree_example⟩, by decide, by decide, by decide⟩

/-- … and re-rooting it at vertex 4 really computes the re-rooted array -/
example : toRoot ⟨[], [-1, 3, 0, 0, 1], []⟩ 4 = .ok ⟨[], [3, 4, 0, 1, -1], []⟩ := by decide

/-- a document with two cells (one id defaulted, one whose morphology is called "vertices") and two stand-alone
    morphologies meets the name hypothesis -/
example :
    let d : Doc := ⟨[⟨some "b", ⟨some "vertices", ⟨[], [-1], []⟩⟩⟩, ⟨none, ⟨some "m", ⟨[], [], []⟩⟩⟩],
                    [⟨some "a", ⟨[], [-1, 0], []⟩⟩, ⟨none, ⟨[], [], [true]⟩⟩]⟩
    (topNames d).Nodup ∧ d.morphs ≠ [] := by
  decide

/-- a history with re-rootings between view reads (the pattern that was the finding): 11 calls, every result is the
    array-defined one, the arrays end up as they started, and the hypotheses of `c18_history_keeps_valid` hold -/
example :
    let a : Arr := ⟨[(0,0,0,8), (8,1,0,7), (16,2,0,6), (24,3,0,5), (32,4,0,4)], [-1, 3, 0, 0, 1],
                    [false, false, false, false, false]⟩
    let ops : List Op := [.get 1, .toRoot 4, .get 1, .iter, .conv, .get (-2), .sfv 3, .toRoot 0, .get 0, .conv, .len]
    (∀ op ∈ ops, op.rootInRange a.conn.length = true) ∧
      (run (fresh a) ops).1 = (specRun a ops).1 ∧
      (run (fresh a) ops).2.cache.length = 1 ∧
      (run (fresh a) ops).2.arr = a ∧
      (run (fresh a) ops).1 ≠ (runOld (fresh a) ops).1 := by
  decide

/-- an `XDoc` with a cell without morphology (its id even equals a stand-alone morphology's id), a cell with a
    plain morphology, a plain stand-alone morphology and three array morphologies, two of them id-less: it meets the
    hypothesis of `c18_load_write_xdoc_partial`; the default names are made of the ORIGINAL positions; the old
    writer could not write it -/
example :
    let d : XDoc := ⟨[⟨some "m", .none⟩, ⟨none, .array ⟨none, ⟨[], [-1], []⟩⟩⟩, ⟨some "p", .plain⟩],
                     [.plain, .array ⟨none, ⟨[], [-1, 0], []⟩⟩, .array ⟨some "m", ⟨[], [], []⟩⟩]⟩
    (xTopNames d).Nodup ∧ xTopNames d = ["Cell1", "Morphology1", "m"] ∧
      writeXDoc d = .ok [("Cell1", .cell [("Morphology1", ⟨[], [-1], []⟩)]), ("Morphology1", .morph ⟨[], [-1, 0], []⟩),
                         ("m", .morph ⟨[], [], []⟩)] ∧
      writeXDocOld d = .error .attributeError := by
  decide

/-- one object shared by two cells and listed stand-alone as well, next to another object: meets the hypothesis of
    `c18_load_write_adoc_partial`; three groups hold the shared arrays -/
example :
    let m : Morph := ⟨none, ⟨[(1, 2, 3, 4)], [-1], [false]⟩⟩
    let d : ADoc := ⟨[⟨none, .array ⟨0, m⟩⟩, ⟨none, .none⟩, ⟨none, .array ⟨0, m⟩⟩],
                     [.array ⟨0, m⟩, .array ⟨1, ⟨none, ⟨[], [], []⟩⟩⟩]⟩
    (xTopNames (resolve d)).Nodup ∧ xTopNames (resolve d) = ["Cell0", "Cell2", "Morphology0", "Morphology1"] ∧
      (adocArrs d).length = 4 := by
  decide

example : AllArray ⟨[⟨some "b", .array ⟨none, ⟨[], [-1], []⟩⟩⟩], [.array ⟨some "a", ⟨[], [-1, 0], []⟩⟩]⟩ :=
  ⟨by intro c hc; simp at hc; subst hc; exact ⟨_, rfl⟩, by intro x hx; simp at hx; subst hx; exact ⟨_, rfl⟩⟩

end NmlVerif.ArrayMorph
