import NmlVerif.Proofs.ArrayMorphHist
import NmlVerif.Proofs.ArrayMorphDoc
/-!
# C18 — array morphologies survive their file format; their views agree with the arrays

Model: `NmlVerif.ArrayMorph` (`Model/ArrayMorph.lean`), tied to `neuroml/arraymorph.py`, `ArrayMorphWriter`
(`neuroml/writers.py`) and `ArrayMorphLoader` (`neuroml/loaders.py`) by the correspondence check
`harness/props/c18.py` (generated arrays and documents, real library vs `Drivers/C18.lean`).

Vocabulary (defined in `Proofs/ArrayMorph.lean`):
* `IsTree c r`  — the connectivity array `c` has `-1` at `r`, a valid index everywhere else, and following
  parents terminates (a rank function exists): any tree shape, any vertex numbering.
* `Valid a r`   — equal array lengths, mask all false (no floating vertices), `IsTree a.conn r`.
* `EdgeL c u v` — `{u, v}` is an (undirected) edge of the array.
* `topNames d`, `docArrs d` — the top-level group names the writer uses for a document / its array triples.
-/
namespace NmlVerif.ArrayMorph

/-! ## re-rooting -/

/-- **`to_root`, every tree, every new root.** The loop as written (prefetched parent / grandparent, in-place
    writes, reads through index `-1`) terminates within the model's fuel, touches neither vertices nor mask,
    and returns a connectivity array that is again a tree (`IsTree … j`: its one and only `-1` is at the new
    root `j`) with exactly the same undirected edges. The old root `r` is arbitrary, so the statement also
    covers repeated re-rooting. -/
theorem c18_toRoot (a : Arr) (r j : Nat) (h : IsTree a.conn r) (hj : j < a.conn.length) :
    ∃ c', toRoot a (j : Int) = .ok { a with conn := c' } ∧ c'.length = a.conn.length ∧ IsTree c' j ∧
      ∀ u v, EdgeL c' u v ↔ EdgeL a.conn u v :=
  toRootFuel_spec a r j h hj

/-- exactly one root after re-rooting, and it is the new root -/
theorem c18_toRoot_one_root (a : Arr) (r j : Nat) (h : IsTree a.conn r) (hj : j < a.conn.length) :
    ∃ a', toRoot a (j : Int) = .ok a' ∧ a'.vertices = a.vertices ∧ a'.mask = a.mask ∧
      ∀ v, a'.conn[v]? = some (-1) ↔ v = j := by
  obtain ⟨c', h1, _, h3, _⟩ := c18_toRoot a r j h hj
  refine ⟨_, h1, rfl, rfl, ?_⟩
  intro v
  constructor
  · intro hv
    apply Classical.byContradiction
    intro hne
    have := (h3.parent v (-1) hv hne).1
    omega
  · intro e; subst e; exact h3.root

/-- a tree's root is unique, so `IsTree c r` really says "exactly one root" -/
theorem c18_root_unique (c : List Int) (r : Nat) (h : IsTree c r) (v : Nat) : c[v]? = some (-1) ↔ v = r := by
  constructor
  · intro hv
    apply Classical.byContradiction
    intro hne
    have := (h.parent v (-1) hv hne).1
    omega
  · intro e; subst e; exact h.root

/-! ## segment view and conversion -/

/-- the view has one segment per vertex other than vertex 0 -/
theorem c18_view_count (a : Arr) (r : Nat) (h : Valid a r) :
    viewLen a = a.conn.length - 1 ∧ (viewIter a).length = a.conn.length - 1 := by
  obtain ⟨ss, h1, _, h3, _⟩ := h.view
  exact ⟨h.viewLen, by rw [h1]; exact h3⟩

/-- segment `i` of the view (by indexing and by iteration alike) has id `i+1`, joins vertex `i+1` and its
    parent vertex, and names the parent index when `i+1 > 1` -/
theorem c18_view_endpoints (a : Arr) (r : Nat) (h : Valid a r) (i : Nat) (hi : i + 1 < a.conn.length)
    (hr : i + 1 ≠ r) :
    ∃ (p : Nat) (nv pv : Vec4), a.conn[i + 1]? = some (p : Int) ∧ a.vertices[i + 1]? = some nv ∧
      a.vertices[p]? = some pv ∧
      viewGet a (i : Int) = .ok ⟨((i + 1 : Nat) : Int), nv, pv, if 1 < i + 1 then some (p : Int) else none⟩ ∧
      (viewIter a)[i]? = some ⟨((i + 1 : Nat) : Int), nv, pv, if 1 < i + 1 then some (p : Int) else none⟩ := by
  obtain ⟨p, nv, pv, h1, h2, h3, h4⟩ := h.sfv_nonroot (i + 1) hi hr
  obtain ⟨ss, e1, _, e3, e4⟩ := h.view
  have hi' : i < ss.length := by omega
  obtain ⟨g1, g2⟩ := e4 i hi'
  rw [h4] at g2
  refine ⟨p, nv, pv, h1, h2, h3, ?_, ?_⟩
  · rw [g1, ← Except.ok.inj g2]
  · rw [e1, List.getElem?_eq_getElem hi', ← Except.ok.inj g2]

/-- indexing and iterating the view agree, and the ids are the vertex indices `1 … n-1` in order: with the
    root at vertex 0 that is exactly one segment per non-root vertex -/
theorem c18_view_ids (a : Arr) (r : Nat) (h : Valid a r) :
    (∀ (i : Nat) (hi : i < (viewIter a).length), viewGet a (i : Int) = .ok (viewIter a)[i] ∧
        (viewIter a)[i].id = ((i + 1 : Nat) : Int)) := by
  obtain ⟨ss, e1, _, e3, e4⟩ := h.view
  subst e1
  intro i hi
  obtain ⟨g1, g2⟩ := e4 i hi
  refine ⟨g1, ?_⟩
  exact sfv_id g2

/-- with the root at vertex 0: every non-root vertex `v` has exactly one segment in the view (the one at
    position `v - 1`) -/
theorem c18_view_one_per_vertex (a : Arr) (h : Valid a 0) (v : Nat) (hv0 : 0 < v) (hv : v < a.conn.length) :
    ∃ (i : Nat) (hi : i < (viewIter a).length), (viewIter a)[i].id = (v : Int) ∧
      ∀ (k : Nat) (hk : k < (viewIter a).length), (viewIter a)[k].id = (v : Int) → k = i := by
  have hlen := (c18_view_count a 0 h).2
  have hids := c18_view_ids a 0 h
  have hi : v - 1 < (viewIter a).length := by omega
  refine ⟨v - 1, hi, ?_, ?_⟩
  · rw [(hids (v - 1) hi).2]; omega
  · intro k hk hkid
    rw [(hids k hk).2] at hkid
    omega

/-- **conversion = view** (repaired `to_neuroml_morphology`): the plain morphology holds exactly the
    segments of the view, in the same order -/
theorem c18_convert_eq_view (a : Arr) (r : Nat) (h : Valid a r) : toNeuromlMorphology a = .ok (viewIter a) := by
  obtain ⟨ss, e1, e2, _, _⟩ := h.view
  rw [e1, e2]

/-- the pre-repair conversion (`range(num_vertices - 1)`) is wrong already on the 4-vertex tree of the repo's
    own test: a bogus segment for the root (joined to the LAST vertex through index `-1`), last vertex missing -/
theorem c18_convert_old_witness :
    let a : Arr := ⟨[(0,0,0,1), (1,0,0,2), (2,0,0,3), (3,0,0,4)], [-1, 0, 1, 1], [false, false, false, false]⟩
    toNeuromlMorphologyOld a ≠ .ok (viewIter a) ∧
    toNeuromlMorphologyOld a = .ok [⟨0, (0,0,0,1), (3,0,0,4), none⟩, ⟨1, (1,0,0,2), (0,0,0,1), none⟩,
      ⟨2, (2,0,0,3), (1,0,0,2), some 1⟩] := by
  decide

/-! ## histories: any sequence of calls on ONE object (the segment cache is state)

`Obj` = arrays + `SegmentList.instantiated_segments`; `run (fresh a) ops` executes the calls `ops`
(`segments[i]`, `len`, iteration, `segment_from_vertex_index`, `to_neuroml_morphology`, `to_root`, in any order)
on one freshly built object; `specRun a ops` gives the ARRAY-DEFINED value of every call (computed from the
arrays as they are at that moment, no cache). -/

/-- the full statement: whatever was called before, every call returns the array-defined value -/
def c18_history_full : Prop :=
  ∀ (a : Arr) (r : Nat), Valid a r → ∀ ops : List Op, (run (fresh a) ops).1 = (specRun a ops).1

/-- **every history that does not read the view after re-rooting a morphology whose view was read before.**
    `pre` (no `segments[i]` / iteration: the cache is still empty, `to_root` allowed), then `mid` (anything but
    `to_root`), then `post` (again no `segments[i]` / iteration; `to_root` allowed): every result equals the
    array-defined one and the arrays evolve as the array-level functions say — for ANY arrays (no validity
    needed), any indices (negative, out of range: the same error). In particular a conversion is never
    influenced by what the view handed out before. -/
theorem c18_history_partial (a : Arr) (pre mid post : List Op)
    (hpre : ∀ op ∈ pre, op.usesCache = false) (hmid : ∀ op ∈ mid, op.isToRoot = false)
    (hpost : ∀ op ∈ post, op.usesCache = false) :
    (run (fresh a) (pre ++ mid ++ post)).1 = (specRun a (pre ++ mid ++ post)).1 ∧
      (run (fresh a) (pre ++ mid ++ post)).2.arr = (specRun a (pre ++ mid ++ post)).2 := by
  obtain ⟨p1, p2, p3⟩ := run_nocache pre (fresh a) hpre
  have hc1 : Coh (run (fresh a) pre).2 := coh_of_empty p3
  obtain ⟨m1, m2, m3, _⟩ := run_coh mid (run (fresh a) pre).2 hc1 hmid
  obtain ⟨q1, q2, _⟩ := run_nocache post (run (run (fresh a) pre).2 mid).2 hpost
  have ea : (fresh a).arr = a := rfl
  rw [ea] at p1 p2
  rw [p2] at m1 m2 m3
  rw [m2] at q1 q2
  simp only [run_append, specRun_append, List.append_assoc]
  rw [m3]
  exact ⟨by rw [p1, m1, q1], q2⟩

/-- after ANY history of view reads / conversions (no re-rooting) on a morphology without floating vertices,
    `to_neuroml_morphology` still yields exactly the view's segments, `segments[i]` still is the segment of
    vertex `i+1` joined to its parent vertex, `len` still is `n - 1` -/
theorem c18_history_view_convert (a : Arr) (r : Nat) (h : Valid a r) (ops : List Op)
    (hops : ∀ op ∈ ops, op.isToRoot = false) :
    (step (run (fresh a) ops).2 .conv).1 = .conv (.ok (viewIter a)) ∧
    (step (run (fresh a) ops).2 .iter).1 = .segs (viewIter a) ∧
    (step (run (fresh a) ops).2 .len).1 = .len (a.conn.length - 1) ∧
    ∀ (i : Nat) (hi : i < (viewIter a).length),
      (step (run (fresh a) ops).2 (.get (i : Int))).1 = .seg (.ok (viewIter a)[i]) := by
  obtain ⟨_, m2, _, m4⟩ := run_coh ops (fresh a) (coh_fresh a) hops
  have ea : (fresh a).arr = a := rfl
  rw [ea] at m2
  refine ⟨?_, ?_, ?_, ?_⟩
  · show Res.conv (toNeuromlMorphology (run (fresh a) ops).2.arr) = _
    rw [m2, c18_convert_eq_view a r h]
  · obtain ⟨g1, _, _⟩ := iterObj_coh m4
    show Res.segs (iterObj (run (fresh a) ops).2).1 = _
    rw [g1, m2]
  · show Res.len (viewLen (run (fresh a) ops).2.arr) = _
    rw [m2, h.viewLen]
  · intro i hi
    obtain ⟨g1, _, _⟩ := getItem_coh m4 (i : Int)
    show Res.seg (getItem (run (fresh a) ops).2 (i : Int)).1 = _
    rw [g1, m2, (c18_view_ids a r h i hi).1]

/-- `to_root` inside a history: it never looks at the cache, so after any calls whatsoever it re-roots the
    arrays the object then holds exactly as `c18_toRoot` says -/
theorem c18_history_toRoot (o : Obj) (r j : Nat) (h : IsTree o.arr.conn r) (hj : j < o.arr.conn.length) :
    ∃ c', step o (.toRoot (j : Int)) = (.unit (.ok ()), { o with arr := { o.arr with conn := c' } }) ∧
      c'.length = o.arr.conn.length ∧ IsTree c' j ∧ ∀ u v, EdgeL c' u v ↔ EdgeL o.arr.conn u v := by
  obtain ⟨c', h1, h2, h3, h4⟩ := c18_toRoot o.arr r j h hj
  refine ⟨c', ?_, h2, h3, h4⟩
  simp only [step, toRootObj, h1]

/-- re-rooting back: a tree's connectivity array is determined by its undirected edges and its root, so
    `to_root(j)` followed by `to_root(r)` restores the ORIGINAL array exactly -/
theorem c18_toRoot_back (a : Arr) (r j : Nat) (h : IsTree a.conn r) (hj : j < a.conn.length) :
    ∃ a1, toRoot a (j : Int) = .ok a1 ∧ toRoot a1 (r : Int) = .ok a := by
  obtain ⟨c1, h1, l1, t1, e1⟩ := c18_toRoot a r j h hj
  have hr : r < a.conn.length := (List.getElem?_eq_some_iff.mp h.root).1
  obtain ⟨c2, h2, l2, t2, e2⟩ := c18_toRoot { a with conn := c1 } j r t1 (by simpa [l1] using hr)
  refine ⟨_, h1, ?_⟩
  rw [h2]
  have : c2 = a.conn := isTree_unique t2 h (by rw [l2]; exact l1) (fun u v => (e2 u v).trans (e1 u v))
  rw [this]

/-- the fuel of the model's iteration loop (the sequence protocol behind `list(morph.segments)`) is always
    enough: any larger fuel gives the same segments and the same cache, for EVERY object state (coherent cache
    or not, user-assigned segments beyond the arrays included) -/
theorem c18_iter_fuel_enough (o : Obj) (extra : Nat) : iterFrom (iterFuel o + extra) o 0 = iterObj o :=
  iterObj_fuel_enough o extra

/-- the full history statement fails on the code as it is: `to_root` does not invalidate the segment cache.
    4-vertex chain, `to_root(3)`, `segments[0]`, `to_root(0)` (the arrays are back to the original, a tree rooted
    at 0 without floating vertices), `segments[0]`: still vertex 1 joined to vertex 2 (its parent while the root
    was 3) instead of vertex 0 -/
theorem c18_history_witness : ¬ c18_history_full := by
  intro hfull
  have hv : Valid ⟨[(0,0,0,1), (1,0,0,2), (2,0,0,3), (3,0,0,4)], [-1, 0, 1, 2], [false, false, false, false]⟩ 0 :=
    ⟨rfl, rfl, by decide, isTree_chain4⟩
  have := hfull _ 0 hv [.toRoot 3, .get 0, .toRoot 0, .get 0]
  revert this
  decide

/-- … the witness in detail: the arrays are the original ones again when the stale segment is returned -/
theorem c18_history_witness_values :
    let a : Arr := ⟨[(0,0,0,1), (1,0,0,2), (2,0,0,3), (3,0,0,4)], [-1, 0, 1, 2], [false, false, false, false]⟩
    let r := run (fresh a) [.toRoot 3, .get 0, .toRoot 0, .get 0]
    r.2.arr = a ∧ r.1[3]? = some (.seg (.ok ⟨1, (1,0,0,2), (2,0,0,3), none⟩)) ∧
      viewGet a 0 = .ok ⟨1, (1,0,0,2), (0,0,0,1), none⟩ := by
  decide

/-- the proposed repair (`to_root` also empties `instantiated_segments`): with it the FULL history statement
    holds — every call of every history returns the array-defined value -/
theorem c18_history_fixed_full (a : Arr) (ops : List Op) :
    (runFixed (fresh a) ops).1 = (specRun a ops).1 ∧ (runFixed (fresh a) ops).2.arr = (specRun a ops).2 := by
  have := runFixed_coh ops (fresh a) (coh_fresh a)
  exact ⟨this.1, this.2.1⟩

/-! ## the file format -/

/-- a single morphology written on its own and loaded back: the same three arrays, whatever they are
    (no validity needed) and whatever the morphology id -/
theorem c18_load_write_single (m : Morph) : ∃ f, writeMorph m = .ok f ∧ load f = .ok [m.arr] := by
  refine ⟨[(match m.id with | none => "Morphology" | some s => s, .morph m.arr)], ?_, ?_⟩
  · show addNode [] _ (.morph m.arr) = _
    rw [addNode_ok _ (by simp)]
    rfl
  · rw [load_good _ (by intro e he; simp at he; subst he; trivial)]
    simp [entryArrs]

/-- the full statement for documents: every document round-trips (up to the order of the morphologies — the
    format stores no ids and is read back in group-name order) -/
def c18_load_write_doc_full : Prop :=
  ∀ d : Doc, ∃ f ms, writeDoc d = .ok f ∧ load f = .ok ms ∧ ms.Perm (docArrs d)

/-- **documents with any mix of cells and stand-alone morphologies** (repaired writer) round-trip whenever the
    top-level group names are pairwise distinct and no cell's morphology is called "vertices". The loaded list
    is the written one in group-name order. -/
theorem c18_load_write_doc_partial (d : Doc) (hn : (topNames d).Nodup)
    (hv : ∀ c ∈ d.cells, c.morph.id ≠ some "vertices") :
    ∃ f ms, writeDoc d = .ok f ∧ load f = .ok ms ∧ ms.Perm (docArrs d) ∧
      ms = ((entries d).mergeSort nameLe).flatMap entryArrs := by
  have hgood : ∀ e ∈ entries d, GoodEntry e := by
    intro e he
    unfold entries at he
    rcases List.mem_append.mp he with he | he
    · exact cellEntries_good d.cells 0 hv e he
    · exact morphEntries_good d.morphs 0 e he
  refine ⟨entries d, _, writeDoc_ok d hn, load_good _ hgood, ?_, rfl⟩
  rw [← entries_arrs d]
  exact List.Perm.flatMap_right _ (List.mergeSort_perm _ _)

/-- the full statement fails: a cell and a stand-alone morphology with the same id collide in the flat group
    layout (`NodeError`), and a cell whose morphology is called "vertices" is mistaken for a morphology group -/
theorem c18_load_write_doc_witness : ¬ c18_load_write_doc_full := by
  intro h
  obtain ⟨f, ms, h1, _, _⟩ := h ⟨[⟨some "x", ⟨some "m", ⟨[], [], []⟩⟩⟩], [⟨some "x", ⟨[], [], []⟩⟩]⟩
  have : writeDoc ⟨[⟨some "x", ⟨some "m", ⟨[], [], []⟩⟩⟩], [⟨some "x", ⟨[], [], []⟩⟩]⟩ = .error .nodeError := by
    decide
  rw [this] at h1
  cases h1

theorem c18_load_write_doc_witness_vertices :
    (writeDoc ⟨[⟨some "x", ⟨some "vertices", ⟨[], [], []⟩⟩⟩], []⟩).bind load = .error .noSuchNode := by
  have hw : writeDoc ⟨[⟨some "x", ⟨some "vertices", ⟨[], [], []⟩⟩⟩], []⟩ =
      .ok [("x", .cell [("vertices", ⟨[], [], []⟩)])] := by decide
  rw [hw]
  show load _ = _
  unfold load
  rw [List.mergeSort_singleton]
  decide

/-- the pre-repair writer (`cell_id=cell.id` in the stand-alone loop) cannot write ANY document that holds a
    stand-alone morphology: `UnboundLocalError` without cells, `NodeError` with cells -/
theorem c18_writeDocOld_fails (d : Doc) (hm : d.morphs ≠ []) : ∀ f, writeDocOld d ≠ .ok f := by
  intro f hf
  unfold writeDocOld at hf
  cases hc : writeCells 0 d.cells [] with
  | error e => rw [hc] at hf; cases hf
  | ok f1 =>
    rw [hc] at hf
    simp only [] at hf
    obtain ⟨m, ms, hms⟩ := List.exists_cons_of_ne_nil hm
    rw [hms] at hf
    cases hl : lastCellId 0 d.cells with
    | none => rw [hl] at hf; simp [writeMorphsOld] at hf
    | some cid =>
      rw [hl] at hf
      have hf1 := writeCells_eq d.cells 0 [] f1 hc
      have hmem : cid ∈ f1.map (·.1) := by
        rw [hf1]; simp only [List.nil_append, cellEntries_names]
        exact lastCellId_mem d.cells 0 cid hl
      simp only [writeMorphsOld, writeSingleCell, addNode_dup _ hmem] at hf
      cases hf

/-! ## documents that also hold cells without an embedded morphology / plain morphologies -/

/-- the full statement for ANY document: the array morphologies it holds (`d.arrayDoc`) survive -/
def c18_load_write_xdoc_full : Prop :=
  ∀ d : XDoc, ∃ f ms, writeXDoc d = .ok f ∧ load f = .ok ms ∧ ms.Perm (docArrs d.arrayDoc)

/-- when every cell embeds an `ArrayMorphology` and every stand-alone morphology is one, the writer behaves as
    on a `Doc`: round trip under the name hypotheses of `c18_load_write_doc_partial` -/
theorem c18_load_write_xdoc_partial (d : XDoc) (ha : AllArray d) (hn : (topNames d.arrayDoc).Nodup)
    (hv : ∀ c ∈ d.arrayDoc.cells, c.morph.id ≠ some "vertices") :
    ∃ f ms, writeXDoc d = .ok f ∧ load f = .ok ms ∧ ms.Perm (docArrs d.arrayDoc) := by
  obtain ⟨f, ms, h1, h2, h3, _⟩ := c18_load_write_doc_partial d.arrayDoc hn hv
  exact ⟨f, ms, by rw [writeXDoc_all d ha, h1], h2, h3⟩

/-- EVERY document with a cell that has no embedded morphology, or a plain one, is unwritable (`AttributeError`),
    whatever else it holds -/
theorem c18_load_write_xdoc_nonarray (d : XDoc) (h : ∃ c ∈ d.cells, ∀ m, c.morph ≠ .array m) :
    ∀ f, writeXDoc d ≠ .ok f := by
  intro f hf
  unfold writeXDoc at hf
  cases hc : writeXCells 0 d.cells [] with
  | error e => rw [hc] at hf; cases hf
  | ok f1 => exact writeXCells_nonarray d.cells 0 [] h f1 hc

/-- the full statement fails: a cell that refers to a stand-alone array morphology instead of embedding one -/
theorem c18_load_write_xdoc_witness : ¬ c18_load_write_xdoc_full := by
  intro h
  obtain ⟨f, _, h1, _, _⟩ := h ⟨[⟨some "c", .none⟩], [.array ⟨some "m", ⟨[], [], []⟩⟩]⟩
  exact c18_load_write_xdoc_nonarray _ ⟨⟨some "c", .none⟩, by simp, by intro m hm; cases hm⟩ f h1

/-- with the proposed loader repair (a morphology group is recognised by an ARRAY called `vertices`) the
    hypothesis about cell morphologies called "vertices" is not needed any more -/
theorem c18_load_write_doc_fixedLoader (d : Doc) (hn : (topNames d).Nodup) :
    ∃ f, writeDoc d = .ok f ∧ (loadFixed f).Perm (docArrs d) := by
  refine ⟨entries d, writeDoc_ok d hn, ?_⟩
  rw [loadFixed_entries_perm _ (entries_single d), ← entries_arrs d]
  exact List.Perm.flatMap_right _ (List.mergeSort_perm _ _)

/-- an id-less morphology is named `Morphology<position>`: that collides with an explicit id of the same shape
    (`NodeError`) — one more way the full document statement fails -/
theorem c18_load_write_doc_witness_default_id :
    writeDoc ⟨[], [⟨some "Morphology1", ⟨[], [], []⟩⟩, ⟨none, ⟨[], [], []⟩⟩]⟩ = .error .nodeError := by
  decide

/-! ## the hypotheses are satisfiable (non-vacuity) -/

/-- a 5-vertex tree in shuffled numbering (parent index above child index), root 0 -/
example : IsTree [-1, 3, 0, 0, 1] 0 := isTree_example

/-- the same tree with vertices and an all-false mask is `Valid`; the view and the conversion on it are the
    four expected segments -/
example :
    let a : Arr := ⟨[(0,0,0,8), (8,1,0,7), (16,2,0,6), (24,3,0,5), (32,4,0,4)], [-1, 3, 0, 0, 1],
                    [false, false, false, false, false]⟩
    Valid a 0 ∧ viewLen a = 4 ∧
    viewIter a = [⟨1, (8,1,0,7), (24,3,0,5), none⟩, ⟨2, (16,2,0,6), (0,0,0,8), some 0⟩,
                  ⟨3, (24,3,0,5), (0,0,0,8), some 0⟩, ⟨4, (32,4,0,4), (8,1,0,7), some 1⟩] ∧
    toNeuromlMorphology a = .ok (viewIter a) :=
  ⟨⟨rfl, rfl, by decide, isTree_example⟩, by decide, by decide, by decide⟩

/-- … and re-rooting it at vertex 4 really computes the re-rooted array -/
example : toRoot ⟨[], [-1, 3, 0, 0, 1], []⟩ 4 = .ok ⟨[], [3, 4, 0, 1, -1], []⟩ := by decide

/-- a document with two cells (one id defaulted) and two stand-alone morphologies meets the name hypotheses -/
example :
    let d : Doc := ⟨[⟨some "b", ⟨none, ⟨[], [-1], []⟩⟩⟩, ⟨none, ⟨some "m", ⟨[], [], []⟩⟩⟩],
                    [⟨some "a", ⟨[], [-1, 0], []⟩⟩, ⟨none, ⟨[], [], [true]⟩⟩]⟩
    (topNames d).Nodup ∧ (∀ c ∈ d.cells, c.morph.id ≠ some "vertices") ∧ d.morphs ≠ [] := by
  decide

/-- a history that meets the hypotheses of `c18_history_partial` (re-root first, then read the view in many ways,
    then re-root again and convert): 10 calls, the cache ends up with 5 bindings (one under a negative key), and
    the results are the array-defined ones -/
example :
    let a : Arr := ⟨[(0,0,0,8), (8,1,0,7), (16,2,0,6), (24,3,0,5), (32,4,0,4)], [-1, 3, 0, 0, 1],
                    [false, false, false, false, false]⟩
    let pre : List Op := [.toRoot 4]
    let mid : List Op := [.get 1, .iter, .conv, .get 1, .get (-2), .sfv 3]
    let post : List Op := [.toRoot 0, .conv, .len]
    (∀ op ∈ pre, op.usesCache = false) ∧ (∀ op ∈ mid, op.isToRoot = false) ∧ (∀ op ∈ post, op.usesCache = false) ∧
      (run (fresh a) (pre ++ mid ++ post)).1 = (specRun a (pre ++ mid ++ post)).1 ∧
      (run (fresh a) (pre ++ mid ++ post)).2.cache.length = 5 ∧
      (run (fresh a) (pre ++ mid ++ post)).2.arr = a := by
  decide

/-- an `XDoc` meeting the hypotheses of `c18_load_write_xdoc_partial`; one violating `AllArray` -/
example :
    let d : XDoc := ⟨[⟨some "b", .array ⟨none, ⟨[], [-1], []⟩⟩⟩], [.array ⟨some "a", ⟨[], [-1, 0], []⟩⟩]⟩
    (topNames d.arrayDoc).Nodup ∧ (∀ c ∈ d.arrayDoc.cells, c.morph.id ≠ some "vertices") ∧
      writeXDoc d = writeDoc d.arrayDoc := by
  decide

example : AllArray ⟨[⟨some "b", .array ⟨none, ⟨[], [-1], []⟩⟩⟩], [.array ⟨some "a", ⟨[], [-1, 0], []⟩⟩]⟩ :=
  ⟨by intro c hc; simp at hc; subst hc; exact ⟨_, rfl⟩, by intro x hx; simp at hx; subst hx; exact ⟨_, rfl⟩⟩

end NmlVerif.ArrayMorph
