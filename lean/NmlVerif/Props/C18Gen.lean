import NmlVerif.Proofs.ArrayMorphGen
/-!
# C18 — the statement-level translation of `neuroml/arraymorph.py` equals the hand model

`Gen/ArrayMorph.lean` is regenerated from the library's source on every run (`translators/py2lean_arraymorph.py`).
Each theorem below says that one generated definition computes exactly what the hand-written model
(`Model/ArrayMorph.lean`, about which `Props/C18.lean` speaks) computes — for every object state and every argument.
-/
namespace NmlVerif.ArrayMorph
open NmlVerif.Gen.ArrayMorph

/-- `SegmentList.__init__` / `self.segments = SegmentList(self)`: a new object has an empty cache -/
theorem c18_gen_init (a : Arr) : SegmentList.init a = fresh a := rfl

/-- `root_index` = the hand model's `rootIndex` -/
theorem c18_gen_root_index (o : Obj) :
    root_index o = (match rootIndex o.arr.conn with | .ok k => .ok (k : Int) | .error e => .error e) := by
  unfold root_index rootIndex
  rw [whereEq_first]
  cases firstIdx (fun y => y == (-1 : Int)) 0 o.arr.conn <;> rfl

/-- `num_vertices` -/
theorem c18_gen_num_vertices (o : Obj) : num_vertices o = .ok (o.arr.vertices.length : Int) := rfl

/-- `segment_from_vertex_index` (reads the four coordinates one by one) = `segmentFromVertex` -/
theorem c18_gen_segment_from_vertex_index (o : Obj) (k : Int) :
    segment_from_vertex_index o k = segmentFromVertex o.arr k := by
  unfold segment_from_vertex_index segmentFromVertex
  cases h1 : getI o.arr.conn k with
  | error e => rfl
  | ok p =>
    cases h2 : getI o.arr.vertices k with
    | error e => simp only [bind, Except.bind, getComp_err h2]
    | ok v =>
      obtain ⟨a0, a1, a2, a3⟩ := getComp_ok h2
      cases h3 : getI o.arr.vertices p with
      | error e => simp only [bind, Except.bind, a0, a1, a2, a3, getComp_err h3, h3]
      | ok w =>
        obtain ⟨b0, b1, b2, b3⟩ := getComp_ok h3
        simp only [bind, Except.bind, a0, a1, a2, a3, b0, b1, b2, b3, pure, Except.pure, h3]
        by_cases hk : k > 1
        · simp only [hk, if_true]
        · simp only [hk, if_false]

/-- `SegmentList.__vertex_index_from_segment_index__` = indexing `distalIdx` -/
theorem c18_gen_vertex_index (o : Obj) (i : Int) :
    SegmentList.vertex_index_from_segment_index o i = getI (distalIdx o.arr) i := by
  unfold SegmentList.vertex_index_from_segment_index distalIdx
  rfl

/-- `SegmentList.__len__` (Python ints, clamped at 0) = `viewLen` (truncated subtraction) -/
theorem c18_gen_len (o : Obj) : SegmentList.len o = .ok ((viewLen o.arr : Nat) : Int) := by
  unfold SegmentList.len viewLen
  simp only [c18_gen_num_vertices, bind, Except.bind, pure, Except.pure]
  by_cases h : ((o.arr.vertices.length : Int) - ((o.arr.mask.count true : Nat) : Int) - 1) < 0
  · simp only [h, if_true]; congr 1; omega
  · simp only [h, if_false]; congr 1; omega

/-- `SegmentList.__getitem__` = `getItem` (cache lookup, else build from the arrays and store) -/
theorem c18_gen_getitem (o : Obj) (i : Int) :
    SegmentList.getitem o i = (match getItem o i with
      | (.ok s, o') => .ok (s, o')
      | (.error e, _) => .error e) := by
  unfold SegmentList.getitem getItem cacheHas cacheGet
  cases hl : o.cache.lookup i with
  | some s => rfl
  | none =>
    simp only [Option.isSome, c18_gen_vertex_index, viewGet]
    cases h1 : getI (distalIdx o.arr) i with
    | error e => rfl
    | ok v =>
      simp only [bind, Except.bind, c18_gen_segment_from_vertex_index]
      cases h2 : segmentFromVertex o.arr v with
      | error e => rfl
      | ok s => rfl

/-- `SegmentList.__setitem__` = `setItem` -/
theorem c18_gen_setitem (o : Obj) (i : Int) (s : Segment) : SegmentList.setitem o i s = .ok ((), setItem o i s) := rfl

/-! ### `to_root` -/

/-- `to_root` = `toRootFuel` on the object's arrays, then the cache is emptied
    (`self.segments.instantiated_segments.clear()`, reached only when nothing raised) -/
theorem c18_gen_to_root (fuel : Nat) (o : Obj) (j : Int) :
    to_root fuel o j = (match toRootFuel fuel o.arr j with
      | .ok a => .ok ((), { arr := a, cache := [] })
      | .error e => .error e) := by
  unfold to_root toRootFuel
  rw [c18_gen_root_index]
  cases hr : rootIndex o.arr.conn with
  | error e => rfl
  | ok r =>
    simp only [bind, Except.bind]
    cases hp : getI o.arr.conn j with
    | error e => rfl
    | ok p =>
      simp only []
      cases hg : getI o.arr.conn p with
      | error e => rfl
      | ok g =>
        simp only []
        have L := gen_to_root_loop (r : Int) fuel o j p g
        cases hl : to_root_loop (r : Int) fuel o g j p with
        | error e =>
          rw [hl] at L
          cases hh : rootLoop (r : Int) fuel o.arr.conn j p g with
          | error e' => rw [hh] at L; cases L; rfl
          | ok c => rw [hh] at L; cases L
        | ok res =>
          rw [hl] at L
          cases hh : rootLoop (r : Int) fuel o.arr.conn j p g with
          | error e' => rw [hh] at L; cases L
          | ok c =>
            rw [hh] at L
            have hres : res.1 = withConn o c := Except.ok.inj L
            obtain ⟨o1, g1, i1, p1⟩ := res
            simp only at hres
            subst hres
            simp only [setConn, withConn]
            cases setI c j (-1) with
            | error e => rfl
            | ok c2 => rfl

/-- … with the model's fuel: the generated `to_root` IS the hand model's `to_root` on the object (`toRootObj`, the
    call `step` executes for `Op.toRoot`) -/
theorem c18_gen_to_root_obj (o : Obj) (j : Int) :
    to_root (o.arr.conn.length + 1) o j = (match toRootObj o j with
      | (.ok _, o') => .ok ((), o')
      | (.error e, _) => .error e) := by
  rw [c18_gen_to_root]
  unfold toRootObj toRoot
  cases toRootFuel (o.arr.conn.length + 1) o.arr j with
  | error e => rfl
  | ok a => rfl

/-! ### `to_neuroml_morphology` -/

/-- the generated `for` loop (appending to `morphology.segments`) = `mapE` over the same indices -/
theorem c18_gen_conv_loop (o : Obj) : ∀ (L : List Int) (m : PlainMorph),
    to_neuroml_morphology_loop o L m = (match mapE (fun k => segmentFromVertex o.arr k) L with
      | .ok ss => .ok { m with segments := m.segments ++ ss }
      | .error e => .error e) := by
  intro L
  induction L with
  | nil =>
    intro m
    unfold to_neuroml_morphology_loop
    simp only [mapE, List.append_nil]
    rfl
  | cons k ks ih =>
    intro m
    unfold to_neuroml_morphology_loop
    rw [c18_gen_segment_from_vertex_index]
    simp only [mapE]
    cases hs : segmentFromVertex o.arr k with
    | error e => rfl
    | ok s =>
      simp only [bind, Except.bind]
      rw [ih]
      cases mapE (fun k => segmentFromVertex o.arr k) ks with
      | error e => rfl
      | ok ss => simp only [List.append_assoc, List.singleton_append]

/-- `to_neuroml_morphology(id)` = a plain morphology with that id and the hand model's segment list -/
theorem c18_gen_to_neuroml_morphology (o : Obj) (id : String) :
    to_neuroml_morphology o id = (match toNeuromlMorphology o.arr with
      | .ok ss => .ok { id := some id, segments := ss }
      | .error e => .error e) := by
  unfold to_neuroml_morphology toNeuromlMorphology
  simp only [c18_gen_num_vertices, bind, Except.bind]
  rw [c18_gen_conv_loop, pyRange_one, mapE_map]
  cases mapE (fun k : Nat => segmentFromVertex o.arr (k : Int)) (List.range' 1 (o.arr.vertices.length - 1)) with
  | error e => rfl
  | ok ss => simp only [List.nil_append]

end NmlVerif.ArrayMorph
