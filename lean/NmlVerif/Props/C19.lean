import NmlVerif.Proofs.Accessors
/-!
# C19 — connection and input accessors and the document summary agree with the data

Model: `NmlVerif.Acc` (`Model/Accessors.lean`); Python `float` is the abstract parameter `fs : FloatSem F`, every
theorem holds for all `fs`.  The model is tied to `neuroml/nml/helper_methods.py` / `neuroml/nml/nml.py` /
`NeuroMLXMLParser._parse_delay` (i) by the translator: `Gen/Accessors.lean` is regenerated from the Python AST on
every run and `Props/C19Gen.lean` proves `generated = hand model` by `rfl`, and (ii) by the correspondence and
oracle sweep of `harness/props/c19.py` (real classes vs `Drivers/C19.lean`).
-/
namespace NmlVerif.Acc

variable {F : Type}

/-! ## cell references -/

/-- the two NeuroML reference forms of the property (the schema's `Nml2PopulationReferencePath`): population
    and component ids matching the `NmlId` pattern, the index any spelling `[0-9]+`; the second component is
    the index the reference denotes -/
inductive CellPath : List Char → Nat → Prop where
  | slash (pop ds comp : List Char) (hp : isNmlId pop = true) (hd : isDigits ds = true)
      (hc : isNmlId comp = true) : CellPath (slashPath pop ds comp) (decVal ds)
  | slashNoComp (pop ds : List Char) (hp : isNmlId pop = true) (hd : isDigits ds = true) :
      CellPath (slashPathNoComp pop ds) (decVal ds)
  | bracket (dots : Bool) (pop ds : List Char) (hp : isNmlId pop = true) (hd : isDigits ds = true) :
      CellPath (bracketPath dots pop ds) (decVal ds)

theorem slashPath_string : slashPath "pop_0".toList "12".toList "comp".toList = "../pop_0/12/comp".toList := by
  decide
theorem bracketPath_string : bracketPath false "pop_0".toList "12".toList = "pop_0[12]".toList ∧
    bracketPath true "pop_0".toList "12".toList = "../pop_0[12]".toList := by decide

theorem dots_split (b : List Char) : split '/' ('.' :: '.' :: '/' :: b) = ['.', '.'] :: split '/' b := by
  have := split_append '/' ['.', '.'] b (by decide)
  simpa using this

/-- **`_get_cell_id`, slash form, all ids and index spellings**: `../pop/n/comp` gives `n`.  Only `[ ∉ pop, comp`
    and `/ ∉ pop` are used. -/
theorem getCellIdPath_slash (fs : FloatSem F) (self : Obj F) (pop ds comp : List Char)
    (hd : isDigits ds = true) (h1 : '[' ∉ pop) (h2 : '/' ∉ pop) (h3 : '[' ∉ comp) :
    getCellIdPath fs self (pstr (slashPath pop ds comp)) = .ok (.int (decVal ds)) := by
  have hd1 : '[' ∉ ds := not_mem_of_isDigits hd _ (by decide)
  have hd2 : '/' ∉ ds := not_mem_of_isDigits hd _ (by decide)
  have hnm : '[' ∉ slashPath pop ds comp := by
    simp only [slashPath, List.mem_cons, List.mem_append, not_or]
    exact ⟨by decide, by decide, by decide, h1, by decide, hd1, by decide, h3⟩
  unfold getCellIdPath pstr
  rw [pIn_str, contains_single, decide_eq_false hnm, pIfElse_false, pSplit_str]
  unfold slashPath
  rw [dots_split, split_append _ _ _ h2, split_append _ _ _ hd2, pIndex_succ, pIndex_succ, pIndex_zero]
  exact pInt_isDigits fs ds hd

theorem getCellIdPath_slashNoComp (fs : FloatSem F) (self : Obj F) (pop ds : List Char)
    (hd : isDigits ds = true) (h1 : '[' ∉ pop) (h2 : '/' ∉ pop) :
    getCellIdPath fs self (pstr (slashPathNoComp pop ds)) = .ok (.int (decVal ds)) := by
  have hd1 : '[' ∉ ds := not_mem_of_isDigits hd _ (by decide)
  have hd2 : '/' ∉ ds := not_mem_of_isDigits hd _ (by decide)
  have hnm : '[' ∉ slashPathNoComp pop ds := by
    simp only [slashPathNoComp, List.mem_cons, List.mem_append, not_or]
    exact ⟨by decide, by decide, by decide, h1, by decide, hd1⟩
  unfold getCellIdPath pstr
  rw [pIn_str, contains_single, decide_eq_false hnm, pIfElse_false, pSplit_str]
  unfold slashPathNoComp
  rw [dots_split, split_append _ _ _ h2, split_none _ _ hd2, pIndex_succ, pIndex_succ, pIndex_zero]
  exact pInt_isDigits fs ds hd

/-- **`_get_cell_id`, bracket form, all ids and index spellings**, with and without the leading `../`. Only
    `[ ∉ pop` is used. -/
theorem getCellIdPath_bracket (fs : FloatSem F) (self : Obj F) (dots : Bool) (pop ds : List Char)
    (hd : isDigits ds = true) (h1 : '[' ∉ pop) :
    getCellIdPath fs self (pstr (bracketPath dots pop ds)) = .ok (.int (decVal ds)) := by
  have hd' : ']' ∉ ds := not_mem_of_isDigits hd _ (by decide)
  have hb : '[' ∉ ds ++ [']'] := by
    intro h
    rcases List.mem_append.mp h with h | h
    · exact not_mem_of_isDigits hd '[' (by decide) h
    · simp at h
  have hpre : '[' ∉ (if dots then ['.', '.', '/'] else []) ++ pop := by
    cases dots <;> simp [h1]
  have hmem : '[' ∈ bracketPath dots pop ds := by simp [bracketPath]
  have hshape : bracketPath dots pop ds
      = ((if dots then ['.', '.', '/'] else []) ++ pop) ++ '[' :: (ds ++ [']']) := by
    simp [bracketPath]
  unfold getCellIdPath pstr
  rw [pIn_str, contains_single, decide_eq_true hmem, pIfElse_true, pSplit_str, hshape,
    split_append _ _ _ hpre, pIndex_succ, split_none _ _ hb, pIndex_zero, pSplit_str,
    show ds ++ [']'] = ds ++ ']' :: [] from rfl,
    split_append _ _ _ hd', pIndex_zero]
  exact pInt_isDigits fs ds hd

/-- **C19, cell index, both reference forms**: for every population / component id matching the NmlId pattern
    and every index spelling, `_get_cell_id` returns the index. -/
theorem c19_get_cell_id (fs : FloatSem F) (self : Obj F) (p : List Char) (n : Nat) (h : CellPath p n) :
    getCellIdPath fs self (pstr p) = .ok (.int n) := by
  cases h with
  | slash pop ds comp hp hd hc =>
    exact getCellIdPath_slash fs self pop ds comp hd (not_mem_of_isNmlId hp _ (by decide))
      (not_mem_of_isNmlId hp _ (by decide)) (not_mem_of_isNmlId hc _ (by decide))
  | slashNoComp pop ds hp hd =>
    exact getCellIdPath_slashNoComp fs self pop ds hd (not_mem_of_isNmlId hp _ (by decide))
      (not_mem_of_isNmlId hp _ (by decide))
  | bracket dots pop ds hp hd =>
    exact getCellIdPath_bracket fs self dots pop ds hd (not_mem_of_isNmlId hp _ (by decide))

/-- every natural index, in its canonical spelling `str(n)`, in every form -/
theorem c19_cell_path_of_nat (pop comp : List Char) (n : Nat) (hp : isNmlId pop = true)
    (hc : isNmlId comp = true) (dots : Bool) :
    CellPath (slashPath pop (Nat.repr n).toList comp) n ∧ CellPath (slashPathNoComp pop (Nat.repr n).toList) n ∧
    CellPath (bracketPath dots pop (Nat.repr n).toList) n := by
  have h1 := CellPath.slash pop _ comp hp (isDigits_repr n) hc
  have h2 := CellPath.slashNoComp pop _ hp (isDigits_repr n)
  have h3 := CellPath.bracket dots pop _ hp (isDigits_repr n)
  rw [decVal_repr] at h1 h2 h3
  exact ⟨h1, h2, h3⟩

/-- the hypotheses are satisfiable: ids with digits and underscores, a large index, a leading zero -/
example : CellPath "../pop_0/1000000000/comp_A1".toList 1000000000 :=
  (c19_cell_path_of_nat "pop_0".toList "comp_A1".toList 1000000000 (by decide) (by decide) false).1
example : CellPath "_p9[007]".toList 7 := CellPath.bracket false "_p9".toList "007".toList (by decide) (by decide)

/-- which attribute holds the cell reference read by a cell-index accessor of a class whose references are
    paths (`ElectricalConnection` / `ContinuousConnection` hold plain indices: not covered, see `getCellIdIndex`) -/
def Cls.cellField : Cls → Meth → Option String
  | .Connection, .get_pre_cell_id | .ConnectionWD, .get_pre_cell_id => some "pre_cell_id"
  | .Connection, .get_post_cell_id | .ConnectionWD, .get_post_cell_id => some "post_cell_id"
  | .ElectricalConnectionInstance, .get_pre_cell_id | .ElectricalConnectionInstanceW, .get_pre_cell_id
  | .ContinuousConnectionInstance, .get_pre_cell_id | .ContinuousConnectionInstanceW, .get_pre_cell_id =>
    some "pre_cell"
  | .ElectricalConnectionInstance, .get_post_cell_id | .ElectricalConnectionInstanceW, .get_post_cell_id
  | .ContinuousConnectionInstance, .get_post_cell_id | .ContinuousConnectionInstanceW, .get_post_cell_id =>
    some "post_cell"
  | .Input, .get_target_cell_id | .InputW, .get_target_cell_id | .ExplicitInput, .get_target_cell_id =>
    some "target"
  | _, _ => none

theorem cellIdOf_path (fs : FloatSem F) (self : Obj F) (fld : String) (p : List Char) (n : Nat)
    (hs : self fld = some (.str p)) (hp : CellPath p n) :
    cellIdOf getCellIdPath fld fs self = .ok (.int n) := by
  unfold cellIdOf
  rw [attr_some self fld _ hs]
  exact c19_get_cell_id fs self p n hp

theorem explicitTargetCellId_eq (fs : FloatSem F) (self : Obj F) :
    explicitTargetCellId fs self = getCellIdPath fs self (attr self "target") := rfl

/-- **C19, cell-index accessors of every class**: `get_pre_cell_id`, `get_post_cell_id`, `get_target_cell_id` of
    every connection / input class whose reference attribute holds a path of either form return the index. -/
theorem c19_cell_id_accessors (fs : FloatSem F) (c : Cls) (m : Meth) (fld : String)
    (hfld : c.cellField m = some fld) (self : Obj F) (p : List Char) (n : Nat)
    (hs : self fld = some (.str p)) (hp : CellPath p n) :
    ∃ f, c.accessor (F := F) m = some f ∧ f fs self = .ok (.int n) := by
  cases c <;> cases m <;> simp only [Cls.cellField, reduceCtorEq] at hfld <;> cases hfld <;>
    first
    | exact ⟨_, rfl, cellIdOf_path fs self _ p n hs hp⟩
    | (refine ⟨_, rfl, ?_⟩
       rw [explicitTargetCellId_eq, attr_some self _ _ hs]
       exact c19_get_cell_id fs self p n hp)

example : Cls.cellField .ContinuousConnectionInstanceW .get_post_cell_id = some "post_cell" := rfl

/-! ## segment, fraction, weight: stored value, and the documented default exactly when unset -/

/-- **`Input(W).get_segment_id`**: the stored id; `0` when unset (`None`). -/
theorem c19_input_segment_id (fs : FloatSem F) (self : Obj F) (v : Val F) (hs : self "segment_id" = some v) :
    (∀ n : Nat, v = .int n → inputSegmentId fs self = .ok (.int n)) ∧
    (v = .none → inputSegmentId fs self = .ok (.int 0)) := by
  constructor
  · intro n hv; subst hv
    simp [inputSegmentId, attr_some self _ _ hs, pIsNotNone, pNeNone]
  · intro hv; subst hv
    simp [inputSegmentId, attr_some self _ _ hs, pint]

/-- **`Input(W).get_fraction_along`** (repaired code): the stored fraction — including `0.0` — and `0.5` exactly
    when unset. -/
theorem c19_input_fraction_along (fs : FloatSem F) (self : Obj F) (v : Val F)
    (hs : self "fraction_along" = some v) :
    (∀ x : F, v = .num x → inputFractionAlong fs self = .ok (.num x)) ∧
    (v = .none → inputFractionAlong fs self = .ok (.num fs.half)) := by
  constructor
  · intro x hv; subst hv
    simp [inputFractionAlong, attr_some self _ _ hs, pIsNotNone, pNeNone]
  · intro hv; subst hv
    simp [inputFractionAlong, attr_some self _ _ hs, pnum]

/-- the code before the repair (`… if self.fraction_along else 0.5`) loses a stored zero: for every float
    semantics in which `0.0` is falsy, a stored `x = 0.0` comes back as `0.5`. Kept as the record of the fixed
    defect; `inputFractionAlongTruthy` is not the current model. -/
theorem c19_truthy_fraction_witness (fs : FloatSem F) (self : Obj F) (x : F)
    (hs : self "fraction_along" = some (.num x)) (hz : fs.isZero x = true) :
    inputFractionAlongTruthy fs self = .ok (.num fs.half) := by
  simp [inputFractionAlongTruthy, attr_some self _ _ hs, pIfElse, truthy, hz, pnum]

/-- **`get_weight`** (`ElectricalConnectionInstanceW`, `ContinuousConnectionInstanceW`, `InputW`): the stored
    weight — including `0.0` — and `1.0` exactly when unset. -/
theorem c19_get_weight (fs : FloatSem F) (self : Obj F) (v : Val F) (hs : self "weight" = some v) :
    (∀ x : F, v = .num x → getWeight fs self = .ok (.num x)) ∧
    (v = .none → getWeight fs self = .ok (.num fs.one)) := by
  constructor
  · intro x hv; subst hv
    simp [getWeight, attr_some self _ _ hs, pNeNone]
  · intro hv; subst hv
    simp [getWeight, attr_some self _ _ hs, pnum]

/-- **`ExplicitInput`** has no segment / fraction attributes: the accessors (repaired code) return the defaults. -/
theorem c19_explicit_input_defaults (fs : FloatSem F) (self : Obj F) :
    explicitSegmentId fs self = .ok (.int 0) ∧ explicitFractionAlong fs self = .ok (.num fs.half) :=
  ⟨rfl, rfl⟩

/-- **connection classes, `get_*_segment_id`**: `int(self.<attr>)` returns the stored id. -/
theorem c19_conn_segment_id (fs : FloatSem F) (self : Obj F) (fld : String) (n : Nat)
    (hs : self fld = some (.int n)) : intField fld fs self = .ok (.int n) := by
  simp [intField, attr_some self _ _ hs]

/-- **connection classes, `get_*_fraction_along`**: `float(self.<attr>)` returns the stored fraction. -/
theorem c19_conn_fraction_along (fs : FloatSem F) (self : Obj F) (fld : String) (x : F)
    (hs : self fld = some (.num x)) : floatField fld fs self = .ok (.num x) := by
  simp [floatField, attr_some self _ _ hs]

theorem fields_nodup (c : Cls) : (c.fields.map (·.name)).Nodup := by
  cases c <;> decide

/-- **constructor, integer attribute**: an attribute declared `_cast(int, ·)` holds the given integer, and the
    integer value of its default literal exactly when the argument is not passed (`"0"` for the segment ids of
    all connection classes, so `0`). -/
theorem c19_ctor_int_field (fs : FloatSem F) (c : Cls) (given : String → Option (Val F)) (o : Obj F)
    (hc : construct fs c.fields given = .ok o) (fld : String) (d : Lit)
    (hf : ⟨fld, .toInt, d⟩ ∈ c.fields) :
    (∀ n : Nat, given fld = some (.int n) → o fld = some (.int n)) ∧
    (given fld = none → d = .str ['0'] → o fld = some (.int 0)) := by
  obtain ⟨v, hv, ho⟩ := construct_lookup fs given c.fields o hc (fields_nodup c) _ hf
  simp only at hv ho
  constructor
  · intro n hg
    rw [hg] at hv
    simp [castVal] at hv
    rw [ho, ← hv]
  · intro hg hd
    subst hd
    rw [hg] at hv
    have h0 : intOfStr ['0'] = some 0 := by
      have := intOfStr_repr 0
      rwa [show (Nat.repr 0).toList = ['0'] by decide] at this
    simp [castVal, Lit.toVal, pInt, h0] at hv
    rw [ho, ← hv]

/-- **constructor, float attribute**: an attribute declared `_cast(float, ·)` holds the given float, and
    `float(<default literal>)` exactly when the argument is not passed (`float("0.5")` for the fractions of all
    connection classes). -/
theorem c19_ctor_float_field (fs : FloatSem F) (c : Cls) (given : String → Option (Val F)) (o : Obj F)
    (hc : construct fs c.fields given = .ok o) (fld : String) (d : Lit)
    (hf : ⟨fld, .toFloat, d⟩ ∈ c.fields) :
    (∀ x : F, given fld = some (.num x) → o fld = some (.num x)) ∧
    (∀ s y, given fld = none → d = .str s → fs.parse s = some y → o fld = some (.num y)) ∧
    (given fld = none → d = .none → o fld = some .none) := by
  obtain ⟨v, hv, ho⟩ := construct_lookup fs given c.fields o hc (fields_nodup c) _ hf
  simp only at hv ho
  refine ⟨?_, ?_, ?_⟩
  · intro x hg
    rw [hg] at hv
    simp [castVal] at hv
    rw [ho, ← hv]
  · intro s y hg hd hy
    subst hd
    rw [hg] at hv
    simp [castVal, Lit.toVal, pFloat, hy] at hv
    rw [ho, ← hv]
  · intro hg hd
    subst hd
    rw [hg] at hv
    simp [castVal, Lit.toVal] at hv
    rw [ho, ← hv]

/-- **C19, defaults of the connection classes**: on a freshly constructed `Connection` whose segment / fraction
    arguments were not passed, the accessors return segment `0` and fraction `float("0.5")`. (Same proof for
    every class whose `fields` contain these entries; stated for the attribute names of both families.) -/
theorem c19_conn_defaults (fs : FloatSem F) (c : Cls) (given : String → Option (Val F)) (o : Obj F)
    (hc : construct fs c.fields given = .ok o) (seg frac : String)
    (hseg : ⟨seg, .toInt, .str ['0']⟩ ∈ c.fields) (hfrac : ⟨frac, .toFloat, .str ['0', '.', '5']⟩ ∈ c.fields)
    (h1 : given seg = none) (h2 : given frac = none) (y : F) (hy : fs.parse ['0', '.', '5'] = some y) :
    intField seg fs o = .ok (.int 0) ∧ floatField frac fs o = .ok (.num y) := by
  have hs := (c19_ctor_int_field fs c given o hc seg _ hseg).2 h1 rfl
  have hf := (c19_ctor_float_field fs c given o hc frac _ hfrac).2.1 _ y h2 rfl hy
  exact ⟨c19_conn_segment_id fs o seg 0 hs, c19_conn_fraction_along fs o frac y hf⟩

/-- every connection class has these entries (so `c19_conn_defaults` applies to all eight) -/
theorem conn_fields_old (c : Cls) (h : c = .Connection ∨ c = .ConnectionWD) :
    (⟨"pre_segment_id", .toInt, .str ['0']⟩ : CtorField) ∈ c.fields ∧
    (⟨"post_segment_id", .toInt, .str ['0']⟩ : CtorField) ∈ c.fields ∧
    (⟨"pre_fraction_along", .toFloat, .str ['0', '.', '5']⟩ : CtorField) ∈ c.fields ∧
    (⟨"post_fraction_along", .toFloat, .str ['0', '.', '5']⟩ : CtorField) ∈ c.fields := by
  rcases h with rfl | rfl <;> decide

theorem conn_fields_new (c : Cls)
    (h : c = .ElectricalConnection ∨ c = .ElectricalConnectionInstance ∨ c = .ElectricalConnectionInstanceW ∨
      c = .ContinuousConnection ∨ c = .ContinuousConnectionInstance ∨ c = .ContinuousConnectionInstanceW) :
    (⟨"pre_segment", .toInt, .str ['0']⟩ : CtorField) ∈ c.fields ∧
    (⟨"post_segment", .toInt, .str ['0']⟩ : CtorField) ∈ c.fields ∧
    (⟨"pre_fraction_along", .toFloat, .str ['0', '.', '5']⟩ : CtorField) ∈ c.fields ∧
    (⟨"post_fraction_along", .toFloat, .str ['0', '.', '5']⟩ : CtorField) ∈ c.fields := by
  rcases h with rfl | rfl | rfl | rfl | rfl | rfl <;> decide

/-- the hypotheses of `c19_conn_defaults` are satisfiable: a float semantics that parses `"0.5"`, and the
    construction of a `Connection` with no arguments succeeds -/
def toySem : FloatSem Int where
  parse := fun s => if s = ['0', '.', '5'] then some 1 else none   -- halves as the unit
  ofInt := fun i => 2 * i
  mul := fun a b => a * b / 2
  trunc := fun a => some (a / 2)
  isZero := fun a => a == 0
  beq := fun a b => a == b
  half := 1
  one := 2
  thousand := 2000

example : ∃ o, construct toySem Cls.Connection.fields (fun _ => none) = .ok o ∧
    intField "pre_segment_id" toySem o = .ok (.int 0) ∧
    floatField "post_fraction_along" toySem o = .ok (.num 1) := by
  cases h : construct toySem Cls.Connection.fields (fun _ => none) with
  | error e =>
    exfalso
    have h0 : intOfStr ['0'] = some 0 := by
      have := intOfStr_repr 0
      rwa [show (Nat.repr 0).toList = ['0'] by decide] at this
    simp [Cls.fields, oldFormatFields, construct, castVal, Lit.toVal, pInt, pFloat, h0, toySem] at h
  | ok o =>
    have hf := conn_fields_old .Connection (Or.inl rfl)
    have h1 := c19_conn_defaults toySem .Connection (fun _ => none) o h "pre_segment_id" "post_fraction_along"
      hf.1 hf.2.2.2 rfl rfl 1 rfl
    exact ⟨o, rfl, h1.1, h1.2⟩

/-! ## delays -/

/-- a spelling of the schema's `Nml2Quantity_time` pattern `-?([0-9]*(\.[0-9]+)?)([eE]-?[0-9]+)?[\s]*(s|ms)`:
    a number part over the pattern's number alphabet, whitespace, and the unit -/
structure TimeSpelling (num ws : List Char) : Prop where
  num_chars : ∀ c ∈ num, isTimeNumChar c = true
  ws_space : ∀ c ∈ ws, isSpace c = true

/-- what `float(<number part>)` gives, as a result: `ValueError` for the degenerate spellings (`"ms"`, `"-s"`) -/
def floatRes (fs : FloatSem F) (num : List Char) (factor : Option F) : Res F :=
  match fs.parse num with
  | none => .error .valueError
  | some x => match factor with
    | none => .ok (.num x)
    | some k => .ok (.num (fs.mul x k))

theorem no_m_s {num ws : List Char} (h : TimeSpelling num ws) :
    'm' ∉ num ++ ws ∧ 's' ∉ num ++ ws := by
  constructor <;> intro hm <;> rcases List.mem_append.mp hm with hm | hm
  · have := h.num_chars _ hm; revert this; decide
  · have := h.ws_space _ hm; revert this; decide
  · have := h.num_chars _ hm; revert this; decide
  · have := h.ws_space _ hm; revert this; decide

theorem strip_num {num ws : List Char} (h : TimeSpelling num ws) : strip (num ++ ws) = num :=
  strip_append_ws num ws (fun c hc => isSpace_of_isTimeNumChar c (h.num_chars c hc)) h.ws_space

/-- **C19, `get_delay_in_ms`, unit `ms`**: for every spelling `<num><ws>ms` of the time pattern the result is
    `float(<num>)` — the value, in milliseconds. -/
theorem c19_delay_ms (fs : FloatSem F) (self : Obj F) (num ws : List Char) (h : TimeSpelling num ws)
    (hs : self "delay" = some (.str (num ++ ws ++ ['m', 's']))) :
    getDelayInMs fs self = floatRes fs num none := by
  unfold getDelayInMs
  rw [attr_some self _ _ hs, pIn_str, contains_append_self, pIfElse_true, pDropRight_str,
    show (2 : Nat) = ['m', 's'].length from rfl, dropRight_append, pStrip_str, strip_num h]
  rw [pFloat_str]; unfold floatRes
  cases fs.parse num <;> rfl

/-- **C19, `get_delay_in_ms`, unit `s`**: for every spelling `<num><ws>s` the result is `float(<num>) * 1000.0`. -/
theorem c19_delay_s (fs : FloatSem F) (self : Obj F) (num ws : List Char) (h : TimeSpelling num ws)
    (hs : self "delay" = some (.str (num ++ ws ++ ['s']))) :
    getDelayInMs fs self = floatRes fs num (some fs.thousand) := by
  unfold getDelayInMs
  rw [attr_some self _ _ hs, pIn_str, contains_ms_s _ (no_m_s h).1, pIfElse_false, pIn_str,
    contains_append_self, pIfElse_true, pDropRight_str,
    show (1 : Nat) = ['s'].length from rfl, dropRight_append, pStrip_str, strip_num h]
  rw [pFloat_str]; unfold floatRes
  cases fs.parse num <;> rfl

/-- **C19, `NeuroMLXMLParser._parse_delay`**: the same two results for the same spellings. -/
theorem c19_parse_delay (fs : FloatSem F) (self : Obj F) (num ws : List Char) (h : TimeSpelling num ws) :
    parseDelay fs self (pstr (num ++ ws ++ ['m', 's'])) = floatRes fs num none ∧
    parseDelay fs self (pstr (num ++ ws ++ ['s'])) = floatRes fs num (some fs.thousand) := by
  constructor
  · unfold parseDelay pstr
    rw [pEndsWith_str, isSuffixOf_append_self, pIfElse_true, pDropRight_str,
      show (2 : Nat) = ['m', 's'].length from rfl, dropRight_append, pStrip_str, strip_num h]
    rw [pFloat_str]; unfold floatRes
    cases fs.parse num <;> rfl
  · unfold parseDelay pstr
    rw [pEndsWith_str, isSuffixOf_ms_s _ (no_m_s h).1, pIfElse_false, pEndsWith_str,
      isSuffixOf_append_self, pIfElse_true, pDropRight_str,
      show (1 : Nat) = ['s'].length from rfl, dropRight_append, pStrip_str, strip_num h]
    rw [pFloat_str]; unfold floatRes
    cases fs.parse num <;> rfl

/-- **C19, delays, every spelling the schema allows**: whenever the whole delay string matches the
    `Nml2Quantity_time` pattern (`matchTime`, a recogniser for it), the string is `<num><ws>ms` or `<num><ws>s`
    and `get_delay_in_ms` / `_parse_delay` return `float(<num>)`, respectively `float(<num>) * 1000.0`
    (`ValueError` for the degenerate spellings without a number). In particular the pattern admits no unit
    containing an `s` other than `s` and `ms`. -/
theorem c19_delay_all_spellings (fs : FloatSem F) (self : Obj F) (s : List Char) (hm : matchTime s = true)
    (hs : self "delay" = some (.str s)) :
    ∃ num ws, TimeSpelling num ws ∧
      ((s = num ++ ws ++ ['m', 's'] ∧ getDelayInMs fs self = floatRes fs num none ∧
          parseDelay fs self (pstr s) = floatRes fs num none) ∨
       (s = num ++ ws ++ ['s'] ∧ getDelayInMs fs self = floatRes fs num (some fs.thousand) ∧
          parseDelay fs self (pstr s) = floatRes fs num (some fs.thousand))) := by
  obtain ⟨num, ws, h1, h2, h3⟩ := matchTime_decompose s hm
  have ht : TimeSpelling num ws := ⟨h1, h2⟩
  refine ⟨num, ws, ht, ?_⟩
  rcases h3 with h3 | h3
  · right
    subst h3
    exact ⟨rfl, c19_delay_s fs self num ws ht hs, (c19_parse_delay fs self num ws ht).2⟩
  · left
    subst h3
    exact ⟨rfl, c19_delay_ms fs self num ws ht hs, (c19_parse_delay fs self num ws ht).1⟩

example : matchTime "-1.5E-2 \t ms".toList = true := by decide
example : matchTime "5.s".toList = false := by decide

/-- what the code does outside the pattern (no `s` at all, e.g. `"5"`): `get_delay_in_ms` returns `None`,
    `_parse_delay` exits. (Not a clause of the property; documents the modelled behaviour.) -/
theorem delay_without_unit (fs : FloatSem F) (self : Obj F) (s : List Char) (h : 's' ∉ s)
    (hs : self "delay" = some (.str s)) :
    getDelayInMs fs self = .ok .none ∧ parseDelay fs self (pstr s) = .error .systemExit := by
  constructor
  · unfold getDelayInMs
    have h1 : contains ['m', 's'] s = false := by
      cases hc : contains ['m', 's'] s with
      | false => rfl
      | true =>
        exfalso
        have : ∀ t : List Char, contains ['m', 's'] t = true → 's' ∈ t := by
          intro t
          induction t with
          | nil => simp [contains]
          | cons a r ih =>
            simp only [contains, Bool.or_eq_true]
            rintro (hp | hr)
            · rw [List.isPrefixOf_iff_prefix] at hp
              obtain ⟨u, hu⟩ := hp
              rw [← hu]; simp
            · exact List.mem_cons_of_mem _ (ih hr)
        exact h (this s hc)
    rw [attr_some self _ _ hs, pIn_str, h1, pIfElse_false, pIn_str, contains_single, decide_eq_false h,
      pIfElse_false]
    rfl
  · unfold parseDelay pstr
    rw [pEndsWith_str, isSuffixOf_false_of_not_mem 's' _ _ (by simp) h, pIfElse_false, pEndsWith_str,
      isSuffixOf_false_of_not_mem 's' _ _ (by simp) h, pIfElse_false]
    rfl

example : TimeSpelling "-1.5E-2".toList " \t".toList :=
  ⟨by decide, by decide⟩

/-! ## `has_segment_fraction_info` -/

/-- a connection whose four attributes are present and all at their defaults -/
def allDefault (fs : FloatSem F) (a b x y : Val F) : Bool :=
  valEqInt fs a 0 && valEqInt fs b 0 && valEqF fs x fs.half && valEqF fs y fs.half

theorem connNoInfo_eq (fs : FloatSem F) (c : Obj F) (a b x y : Val F)
    (h1 : c "pre_segment_id" = some a) (h2 : c "post_segment_id" = some b)
    (h3 : c "pre_fraction_along" = some x) (h4 : c "post_fraction_along" = some y) :
    connNoInfo fs c = .ok (allDefault fs a b x y) := by
  unfold connNoInfo allDefault
  rw [h1, h2, h3, h4]
  cases ha : valEqInt fs a 0 <;> cases hb : valEqInt fs b 0 <;> cases hx : valEqF fs x fs.half <;>
    simp [ha, hb, hx]

/-- `c` carries the four old-format attributes -/
def HasInfoAttrs (c : Obj F) : Prop :=
  ∃ a b x y, c "pre_segment_id" = some a ∧ c "post_segment_id" = some b ∧
    c "pre_fraction_along" = some x ∧ c "post_fraction_along" = some y

/-- pure reading of "this connection is at the defaults" for an object with the four attributes -/
def isDefaultConn (fs : FloatSem F) (c : Obj F) : Bool :=
  match c "pre_segment_id", c "post_segment_id", c "pre_fraction_along", c "post_fraction_along" with
  | some a, some b, some x, some y => allDefault fs a b x y
  | _, _, _, _ => false

theorem hsfiLoop_eq (fs : FloatSem F) (conns : List (Obj F)) (h : ∀ c ∈ conns, HasInfoAttrs c) :
    hsfiLoop fs conns = .ok (conns.all (isDefaultConn fs)) := by
  induction conns with
  | nil => rfl
  | cons c cs ih =>
    obtain ⟨a, b, x, y, h1, h2, h3, h4⟩ := h c (by simp)
    have hd : isDefaultConn fs c = allDefault fs a b x y := by simp [isDefaultConn, h1, h2, h3, h4]
    simp only [hsfiLoop, connNoInfo_eq fs c a b x y h1 h2 h3 h4, List.all_cons, hd]
    cases allDefault fs a b x y
    · simp
    · simp [ih (fun c hc => h c (by simp [hc]))]

/-- **`has_segment_fraction_info`**: true exactly when some connection of the list is not at the defaults
    (segment ids `0`, fractions `0.5`); false on the empty list. -/
theorem c19_has_segment_fraction_info (fs : FloatSem F) (conns : List (Obj F))
    (h : ∀ c ∈ conns, HasInfoAttrs c) :
    hasSegmentFractionInfo fs conns = .ok (conns.any (fun c => !isDefaultConn fs c)) := by
  unfold hasSegmentFractionInfo
  cases conns with
  | nil => rfl
  | cons c cs =>
    rw [hsfiLoop_eq fs _ h]
    simp only [List.isEmpty_cons, Bool.false_eq_true, ↓reduceIte]
    congr 1
    exact not_all_eq_any_not _ _

/-! ## `summary()` totals and `Population.get_size` -/

/-- **`Population.get_size`**: the number of instances when there are any, else the declared size, else 0. -/
theorem c19_get_size (fs : FloatSem F) (self : Obj F) (n : Nat) (sz : Val F)
    (hi : self "instances" = some (.objs n)) (hz : self "size" = some sz) :
    (0 < n → getSize fs self = .ok (.int n)) ∧
    (n = 0 → ∀ k : Nat, sz = .int k → getSize fs self = .ok (.int k)) ∧
    (n = 0 → sz = .none → getSize fs self = .ok (.int 0)) := by
  refine ⟨?_, ?_, ?_⟩
  · intro hn
    simp [getSize, attr_some self _ _ hi, pLen, pGtInt, hn]
  · intro hn k hk
    subst hn; subst hk
    simp only [getSize, attr_some self _ _ hi, attr_some self _ _ hz, pLen, pGtInt]
    cases k with
    | zero => simp [pIfElse, truthy, pint]
    | succ k =>
      simp only [pIfElse, truthy]
      have h0 : decide (((0 : Nat) : Int) > 0) = false := by decide
      have h1 : ¬ (((k + 1 : Nat) : Int) = 0) := by omega
      simp only [bne_iff_ne, ne_eq, ite_not, h0, Bool.false_eq_true, ↓reduceIte, h1]
  · intro hn hk
    subst hn; subst hk
    simp [getSize, attr_some self _ _ hi, attr_some self _ _ hz, pLen, pGtInt, pIfElse, truthy, pint]

theorem total_unfold (net : Net) (t : Tot) :
    total summaryTable net t = summaryTable.foldl (fun acc a =>
      if a.total = t then acc + ((net a.loop).map (fun it => addendVal it a.what)).sum else acc) 0 := by
  unfold total
  congr 1
  funext acc a
  split
  · exact foldl_add_eq _ _ _
  · rfl

/-- **C19, population total** = number of populations -/
theorem c19_total_pops (net : Net) : total summaryTable net .pops = (net "populations").length := by
  rw [total_unfold]
  simp [summaryTable, List.foldl, addendVal, sum_map_one]

/-- **C19, cell total** = Σ `get_size()` over the populations -/
theorem c19_total_cells (net : Net) :
    total summaryTable net .cells = ((net "populations").map (·.size)).sum := by
  rw [total_unfold]
  simp [summaryTable, List.foldl, addendVal]

/-- **C19, projection total** = number of projections of the three kinds -/
theorem c19_total_projs (net : Net) :
    total summaryTable net .projs = (net "projections").length + (net "electrical_projections").length
      + (net "continuous_projections").length := by
  rw [total_unfold]
  simp [summaryTable, List.foldl, addendVal, sum_map_one]

/-- **C19, connection total** = Σ over the projections of each kind of the lengths of all their connection lists -/
theorem c19_total_conns (net : Net) :
    total summaryTable net .conns =
      ((net "projections").map (fun p => p.sub "connections" + p.sub "connection_wds")).sum
      + ((net "electrical_projections").map (fun p => p.sub "electrical_connections"
          + p.sub "electrical_connection_instances" + p.sub "electrical_connection_instance_ws")).sum
      + ((net "continuous_projections").map (fun p => p.sub "continuous_connections"
          + p.sub "continuous_connection_instances" + p.sub "continuous_connection_instance_ws")).sum := by
  rw [total_unfold]
  simp only [sum_map_add]
  simp [summaryTable, List.foldl, addendVal]
  omega

/-- **C19, input-list total** = number of input lists -/
theorem c19_total_input_lists (net : Net) :
    total summaryTable net .inputLists = (net "input_lists").length := by
  rw [total_unfold]
  simp [summaryTable, List.foldl, addendVal, sum_map_one]

/-- **C19, input total** = Σ over the input lists of `len(input) + len(input_ws)` -/
theorem c19_total_inputs (net : Net) :
    total summaryTable net .inputs =
      ((net "input_lists").map (fun l => l.sub "input" + l.sub "input_ws")).sum := by
  rw [total_unfold]
  simp only [sum_map_add]
  have h : ∀ (it : Item) (a : String), (if it.sub a > 0 then it.sub a else 0) = it.sub a := by
    intro it a; split <;> omega
  simp [summaryTable, List.foldl, addendVal, h]

/-- the totals do not depend on the order in which `sorted(…, key=id)` visits a list -/
theorem c19_total_perm (net net' : Net) (h : ∀ L, (net' L).Perm (net L)) (t : Tot) :
    total summaryTable net' t = total summaryTable net t := by
  rw [total_unfold, total_unfold]
  have hs : ∀ (L : String) (f : Item → Nat), ((net' L).map f).sum = ((net L).map f).sum :=
    fun L f => List.Perm.sum_nat ((h L).map f)
  simp only [hs]

/-- the printed line carries exactly these totals -/
theorem c19_summary_line_cells (net : Net) :
    renderLine summaryTable net [.lit "*   ", .tot .cells, .lit " cells in ", .tot .pops, .lit " populations "] =
      "*   " ++ toString (total summaryTable net .cells) ++ " cells in "
        ++ toString (total summaryTable net .pops) ++ " populations " := by
  simp [renderLine, List.foldl]


/-! ## every accessor of every class (class × accessor → theorem; the table in `notes/C19.md` lists the pairs) -/

/-- the attribute read by a segment-id accessor of a connection class -/
def Cls.segField : Cls → Meth → Option String
  | .Connection, .get_pre_segment_id | .ConnectionWD, .get_pre_segment_id => some "pre_segment_id"
  | .Connection, .get_post_segment_id | .ConnectionWD, .get_post_segment_id => some "post_segment_id"
  | .ElectricalConnection, .get_pre_segment_id | .ElectricalConnectionInstance, .get_pre_segment_id
  | .ElectricalConnectionInstanceW, .get_pre_segment_id | .ContinuousConnection, .get_pre_segment_id
  | .ContinuousConnectionInstance, .get_pre_segment_id | .ContinuousConnectionInstanceW, .get_pre_segment_id =>
    some "pre_segment"
  | .ElectricalConnection, .get_post_segment_id | .ElectricalConnectionInstance, .get_post_segment_id
  | .ElectricalConnectionInstanceW, .get_post_segment_id | .ContinuousConnection, .get_post_segment_id
  | .ContinuousConnectionInstance, .get_post_segment_id | .ContinuousConnectionInstanceW, .get_post_segment_id =>
    some "post_segment"
  | _, _ => none

/-- the attribute read by a fraction accessor of a connection class -/
def Cls.fracField : Cls → Meth → Option String
  | .Connection, .get_pre_fraction_along | .ConnectionWD, .get_pre_fraction_along
  | .ElectricalConnection, .get_pre_fraction_along | .ElectricalConnectionInstance, .get_pre_fraction_along
  | .ElectricalConnectionInstanceW, .get_pre_fraction_along | .ContinuousConnection, .get_pre_fraction_along
  | .ContinuousConnectionInstance, .get_pre_fraction_along | .ContinuousConnectionInstanceW, .get_pre_fraction_along =>
    some "pre_fraction_along"
  | .Connection, .get_post_fraction_along | .ConnectionWD, .get_post_fraction_along
  | .ElectricalConnection, .get_post_fraction_along | .ElectricalConnectionInstance, .get_post_fraction_along
  | .ElectricalConnectionInstanceW, .get_post_fraction_along | .ContinuousConnection, .get_post_fraction_along
  | .ContinuousConnectionInstance, .get_post_fraction_along | .ContinuousConnectionInstanceW, .get_post_fraction_along =>
    some "post_fraction_along"
  | _, _ => none

/-- the cell-index accessors of the two classes that hold plain indices (not paths): `int(float(<attr>))` -/
def Cls.indexField : Cls → Meth → Option String
  | .ElectricalConnection, .get_pre_cell_id | .ContinuousConnection, .get_pre_cell_id => some "pre_cell"
  | .ElectricalConnection, .get_post_cell_id | .ContinuousConnection, .get_post_cell_id => some "post_cell"
  | _, _ => none

def Cls.isInput : Cls → Bool
  | .Input | .InputW => true
  | _ => false

def Cls.hasWeight : Cls → Bool
  | .ElectricalConnectionInstanceW | .ContinuousConnectionInstanceW | .InputW => true
  | _ => false

/-- **segment-id accessors of all eight connection classes**: the stored id -/
theorem c19_segment_accessors (fs : FloatSem F) (c : Cls) (m : Meth) (fld : String)
    (hfld : c.segField m = some fld) (self : Obj F) (n : Nat) (hs : self fld = some (.int n)) :
    ∃ f, c.accessor (F := F) m = some f ∧ f fs self = .ok (.int n) := by
  cases c <;> cases m <;> simp only [Cls.segField, reduceCtorEq] at hfld <;> cases hfld <;>
    exact ⟨_, rfl, c19_conn_segment_id fs self _ n hs⟩

/-- **fraction accessors of all eight connection classes**: the stored fraction (including `0.0`) -/
theorem c19_fraction_accessors (fs : FloatSem F) (c : Cls) (m : Meth) (fld : String)
    (hfld : c.fracField m = some fld) (self : Obj F) (x : F) (hs : self fld = some (.num x)) :
    ∃ f, c.accessor (F := F) m = some f ∧ f fs self = .ok (.num x) := by
  cases c <;> cases m <;> simp only [Cls.fracField, reduceCtorEq] at hfld <;> cases hfld <;>
    exact ⟨_, rfl, c19_conn_fraction_along fs self _ x hs⟩

/-- **the defaults of all eight connection classes, through the class table**: a freshly constructed object
    whose segment / fraction argument was not passed answers `0` / `float("0.5")` -/
theorem c19_conn_default_accessors (fs : FloatSem F) (c : Cls) (ms mf : Meth) (seg frac : String)
    (hseg : c.segField ms = some seg) (hfrac : c.fracField mf = some frac)
    (given : String → Option (Val F)) (o : Obj F) (hc : construct fs c.fields given = .ok o)
    (h1 : given seg = none) (h2 : given frac = none) (y : F) (hy : fs.parse ['0', '.', '5'] = some y) :
    (∃ f, c.accessor (F := F) ms = some f ∧ f fs o = .ok (.int 0)) ∧
    (∃ f, c.accessor (F := F) mf = some f ∧ f fs o = .ok (.num y)) := by
  have hsm : (⟨seg, .toInt, .str ['0']⟩ : CtorField) ∈ c.fields := by
    cases c <;> cases ms <;> simp only [Cls.segField, reduceCtorEq] at hseg <;> cases hseg <;> decide
  have hfm : (⟨frac, .toFloat, .str ['0', '.', '5']⟩ : CtorField) ∈ c.fields := by
    cases c <;> cases mf <;> simp only [Cls.fracField, reduceCtorEq] at hfrac <;> cases hfrac <;> decide
  have hs := (c19_ctor_int_field fs c given o hc seg _ hsm).2 h1 rfl
  have hf := (c19_ctor_float_field fs c given o hc frac _ hfm).2.1 _ y h2 rfl hy
  exact ⟨c19_segment_accessors fs c ms seg hseg o 0 hs, c19_fraction_accessors fs c mf frac hfrac o y hf⟩

/-- **`Input` / `InputW`: segment id and fraction**, stored value and default exactly when unset -/
theorem c19_input_accessors (fs : FloatSem F) (c : Cls) (hc : c.isInput = true) (self : Obj F) :
    (∃ f, c.accessor (F := F) .get_segment_id = some f ∧
      ∀ v, self "segment_id" = some v →
        (∀ n : Nat, v = .int n → f fs self = .ok (.int n)) ∧ (v = .none → f fs self = .ok (.int 0))) ∧
    (∃ f, c.accessor (F := F) .get_fraction_along = some f ∧
      ∀ v, self "fraction_along" = some v →
        (∀ x : F, v = .num x → f fs self = .ok (.num x)) ∧ (v = .none → f fs self = .ok (.num fs.half))) := by
  cases c <;> simp only [Cls.isInput, Bool.false_eq_true] at hc <;>
    exact ⟨⟨_, rfl, fun v hv => c19_input_segment_id fs self v hv⟩,
           ⟨_, rfl, fun v hv => c19_input_fraction_along fs self v hv⟩⟩

/-- **`get_weight` of the three weighted classes that define it**: the stored weight, `1.0` exactly when unset -/
theorem c19_weight_accessors (fs : FloatSem F) (c : Cls) (hc : c.hasWeight = true) (self : Obj F) :
    ∃ f, c.accessor (F := F) .get_weight = some f ∧
      ∀ v, self "weight" = some v →
        (∀ x : F, v = .num x → f fs self = .ok (.num x)) ∧ (v = .none → f fs self = .ok (.num fs.one)) := by
  cases c <;> simp only [Cls.hasWeight, Bool.false_eq_true] at hc <;>
    exact ⟨_, rfl, fun v hv => c19_get_weight fs self v hv⟩

/-- **`ExplicitInput`**: the two default-only accessors, through the class table -/
theorem c19_explicit_accessors (fs : FloatSem F) (self : Obj F) :
    (∃ f, Cls.accessor (F := F) .ExplicitInput .get_segment_id = some f ∧ f fs self = .ok (.int 0)) ∧
    (∃ f, Cls.accessor (F := F) .ExplicitInput .get_fraction_along = some f ∧ f fs self = .ok (.num fs.half)) :=
  ⟨⟨_, rfl, rfl⟩, ⟨_, rfl, rfl⟩⟩

/-- **`ConnectionWD.get_delay_in_ms`** is the accessor the delay theorems are about (`c19_delay_ms`, `c19_delay_s`,
    `c19_delay_all_spellings`, `Props/C19Rx: c19_delay_value, c19_delay_schema`) -/
theorem c19_delay_accessor : Cls.accessor (F := F) .ConnectionWD .get_delay_in_ms = some getDelayInMs := rfl

/-- **`ElectricalConnection` / `ContinuousConnection`** hold plain indices: `int(float(s))` of a digit string is
    its value whenever `float` reads the digits exactly (`parse ds = ofInt (decVal ds)`, `trunc ∘ ofInt = id`) -/
theorem c19_index_accessors (fs : FloatSem F) (c : Cls) (m : Meth) (fld : String)
    (hfld : c.indexField m = some fld) (self : Obj F) (ds : List Char)
    (hs : self fld = some (.str ds))
    (hparse : fs.parse ds = some (fs.ofInt (decVal ds))) (htr : fs.trunc (fs.ofInt (decVal ds)) = some (decVal ds)) :
    ∃ f, c.accessor (F := F) m = some f ∧ f fs self = .ok (.int (decVal ds)) := by
  cases c <;> cases m <;> simp only [Cls.indexField, reduceCtorEq] at hfld <;> cases hfld <;>
    exact ⟨_, rfl, by simp [cellIdOf, attr_some self _ _ hs, pCall1, getCellIdIndex, pFloat, pInt, hparse, htr]⟩

/-- **the table is complete**: every (class, accessor) pair the source defines (`accessor_domain` in
    `Props/C19Gen.lean` ties `Cls.accessor` to the source) belongs to exactly one of the families above -/
theorem c19_accessor_table_complete (c : Cls) (m : Meth) (h : (c.accessor (F := F) m).isSome = true) :
    (c.cellField m).isSome = true ∨ (c.indexField m).isSome = true ∨ (c.segField m).isSome = true ∨
    (c.fracField m).isSome = true ∨ (c.isInput = true ∧ (m = .get_segment_id ∨ m = .get_fraction_along)) ∨
    (c.hasWeight = true ∧ m = .get_weight) ∨ (c = .ExplicitInput ∧ (m = .get_segment_id ∨ m = .get_fraction_along)) ∨
    (c = .ConnectionWD ∧ m = .get_delay_in_ms) ∨ (c = .Population ∧ m = .get_size) := by
  cases c <;> cases m <;> first
    | decide
    | (exfalso; simp [Cls.accessor, oldFormatAccessor, newFormatAccessor, inputAccessor] at h)

example : Cls.segField .ContinuousConnectionInstanceW .get_post_segment_id = some "post_segment" := rfl
/-! ## the hypotheses above are satisfiable (non-vacuity) -/

/-- an object with one attribute -/
def obj1 (name : String) (v : Val Int) : Obj Int := fun n => if n = name then some v else none

example : ∃ f, Cls.accessor (F := Int) .ElectricalConnectionInstanceW .get_post_cell_id = some f ∧
    f toySem (obj1 "post_cell" (.str "../pop_0/42/c".toList)) = .ok (.int 42) :=
  c19_cell_id_accessors toySem .ElectricalConnectionInstanceW .get_post_cell_id "post_cell" rfl _
    "../pop_0/42/c".toList 42 (by simp [obj1])
    (c19_cell_path_of_nat "pop_0".toList "c".toList 42 (by decide) (by decide) false).1

example : ∃ f, Cls.accessor (F := Int) .ExplicitInput .get_target_cell_id = some f ∧
    f toySem (obj1 "target" (.str "../p[007]".toList)) = .ok (.int 7) :=
  c19_cell_id_accessors toySem .ExplicitInput .get_target_cell_id "target" rfl _ "../p[007]".toList 7
    (by simp [obj1]) (CellPath.bracket true "p".toList "007".toList (by decide) (by decide))

/-- a stored zero fraction is returned (value `0` of the toy semantics), the default only for `None` -/
example : inputFractionAlong toySem (obj1 "fraction_along" (.num 0)) = .ok (.num 0) ∧
    inputFractionAlong toySem (obj1 "fraction_along" .none) = .ok (.num 1) :=
  ⟨(c19_input_fraction_along toySem _ _ (by simp [obj1])).1 0 rfl,
   (c19_input_fraction_along toySem _ _ (by simp [obj1])).2 rfl⟩

/-- ... which the code before the repair did not do -/
example : inputFractionAlongTruthy toySem (obj1 "fraction_along" (.num 0)) = .ok (.num 1) :=
  c19_truthy_fraction_witness toySem _ 0 (by simp [obj1]) rfl

example : inputSegmentId toySem (obj1 "segment_id" (.int 3)) = .ok (.int 3) :=
  (c19_input_segment_id toySem _ _ (by simp [obj1])).1 3 rfl

example : getWeight toySem (obj1 "weight" (.num 0)) = .ok (.num 0) ∧
    getWeight toySem (obj1 "weight" .none) = .ok (.num 2) :=
  ⟨(c19_get_weight toySem _ _ (by simp [obj1])).1 0 rfl, (c19_get_weight toySem _ _ (by simp [obj1])).2 rfl⟩

example : getDelayInMs toySem (obj1 "delay" (.str "0.5 \t s".toList)) = floatRes toySem "0.5".toList (some 2000) :=
  c19_delay_s toySem _ "0.5".toList " \t ".toList ⟨by decide, by decide⟩ (by simp [obj1])

example : HasInfoAttrs (F := Int) (fun n =>
    if n = "pre_segment_id" ∨ n = "post_segment_id" then some (.int 0)
    else if n = "pre_fraction_along" ∨ n = "post_fraction_along" then some (.num 1) else none) :=
  ⟨.int 0, .int 0, .num 1, .num 1, by simp, by simp, by simp, by simp⟩

example : ∃ self : Obj Int, self "instances" = some (.objs 3) ∧ self "size" = some (.int 9) ∧
    getSize toySem self = .ok (.int 3) := by
  refine ⟨fun n => if n = "instances" then some (.objs 3) else if n = "size" then some (.int 9) else none,
    by simp, by simp, ?_⟩
  exact (c19_get_size toySem _ 3 (.int 9) (by simp) (by simp)).1 (by decide)

end NmlVerif.Acc
