import NmlVerif.Gen.Accessors
/-!
# C19 — the generated accessor definitions are the hand model

`Gen/Accessors.lean` is re-derived from the Python AST of `helper_methods.py` (`Helper.*`), `nml.py` (`Nml.*`) and
`NeuroMLXMLParser.py` (`XmlParser.*`) by `harness/props/c19.py: regenerate` on every check run.  Each theorem
says that, for one class, the `_get_cell_id` and every accessor the class ends up with after method resolution
*is* the entry of the hand model's class table (`Cls.cellIdFn`, `Cls.accessor`) that the theorems of
`Props/C19.lean` are about; `rfl` checks it by unfolding.  An edit of one of these Python functions (or of the
class hierarchy, the constructor defaults, the `tot_* +=` statements of `summary`) changes the generated term and
the corresponding theorem stops elaborating.
-/
namespace NmlVerif.Acc

/-- the whitelisted methods each class is expected to have (in the translator's emission order) -/
def expectedIndex : List (String × List String) :=
  [("Connection", ["_get_cell_id", "get_pre_cell_id", "get_post_cell_id", "get_pre_segment_id", "get_post_segment_id", "get_pre_fraction_along", "get_post_fraction_along"]),
   ("ConnectionWD", ["_get_cell_id", "get_pre_cell_id", "get_post_cell_id", "get_pre_segment_id", "get_post_segment_id", "get_pre_fraction_along", "get_post_fraction_along", "get_delay_in_ms"]),
   ("ElectricalConnection", ["_get_cell_id", "get_pre_cell_id", "get_post_cell_id", "get_pre_segment_id", "get_post_segment_id", "get_pre_fraction_along", "get_post_fraction_along"]),
   ("ElectricalConnectionInstance", ["_get_cell_id", "get_pre_cell_id", "get_post_cell_id", "get_pre_segment_id", "get_post_segment_id", "get_pre_fraction_along", "get_post_fraction_along"]),
   ("ElectricalConnectionInstanceW", ["_get_cell_id", "get_pre_cell_id", "get_post_cell_id", "get_pre_segment_id", "get_post_segment_id", "get_pre_fraction_along", "get_post_fraction_along", "get_weight"]),
   ("ContinuousConnection", ["_get_cell_id", "get_pre_cell_id", "get_post_cell_id", "get_pre_segment_id", "get_post_segment_id", "get_pre_fraction_along", "get_post_fraction_along"]),
   ("ContinuousConnectionInstance", ["_get_cell_id", "get_pre_cell_id", "get_post_cell_id", "get_pre_segment_id", "get_post_segment_id", "get_pre_fraction_along", "get_post_fraction_along"]),
   ("ContinuousConnectionInstanceW", ["_get_cell_id", "get_pre_cell_id", "get_post_cell_id", "get_pre_segment_id", "get_post_segment_id", "get_pre_fraction_along", "get_post_fraction_along", "get_weight"]),
   ("Input", ["_get_cell_id", "get_target_cell_id", "get_segment_id", "get_fraction_along"]),
   ("InputW", ["_get_cell_id", "get_weight", "get_target_cell_id", "get_segment_id", "get_fraction_along"]),
   ("ExplicitInput", ["_get_cell_id", "get_target_cell_id", "get_segment_id", "get_fraction_along"]),
   ("SynapticConnection", ["_get_cell_id"]),
   ("Population", ["get_size"])]

/-- the zero-argument accessors each class is expected to have, as an enumeration (`expectedIndex` spells the same
    table with the Python names: `expectedIndex_eq`) -/
def expectedMeths : Cls → List Meth
  | .Connection | .ElectricalConnection | .ElectricalConnectionInstance | .ContinuousConnection
  | .ContinuousConnectionInstance =>
    [.get_pre_cell_id, .get_post_cell_id, .get_pre_segment_id, .get_post_segment_id, .get_pre_fraction_along,
     .get_post_fraction_along]
  | .ConnectionWD =>
    [.get_pre_cell_id, .get_post_cell_id, .get_pre_segment_id, .get_post_segment_id, .get_pre_fraction_along,
     .get_post_fraction_along, .get_delay_in_ms]
  | .ElectricalConnectionInstanceW | .ContinuousConnectionInstanceW =>
    [.get_pre_cell_id, .get_post_cell_id, .get_pre_segment_id, .get_post_segment_id, .get_pre_fraction_along,
     .get_post_fraction_along, .get_weight]
  | .Input | .ExplicitInput => [.get_target_cell_id, .get_segment_id, .get_fraction_along]
  | .InputW => [.get_weight, .get_target_cell_id, .get_segment_id, .get_fraction_along]
  | .SynapticConnection => []
  | .Population => [.get_size]

def expectedHasCellId : Cls → Bool
  | .Population => false
  | _ => true

theorem expectedIndex_eq :
    expectedIndex = Cls.all.map (fun c =>
      (c.name, (if expectedHasCellId c then ["_get_cell_id"] else []) ++ (expectedMeths c).map Meth.name)) := by
  decide

/-- the class table of the hand model has an accessor exactly for the expected methods: nothing the translator
    finds in the source is left without a counterpart, and the model has no accessor the source lacks -/
theorem accessor_domain {F : Type} (c : Cls) (m : Meth) :
    (Cls.accessor (F := F) c m).isSome = (expectedMeths c).contains m := by
  cases c <;> cases m <;> rfl

theorem cellIdFn_domain {F : Type} (c : Cls) : (Cls.cellIdFn (F := F) c).isSome = expectedHasCellId c := by
  cases c <;> rfl

/-! ## `helper_methods.py` -/

theorem helper_index : Gen.Helper.index = expectedIndex := rfl

theorem helper_Connection {F : Type} :
    Cls.cellIdFn (F := F) .Connection = some Gen.Helper.Connection._get_cell_id ∧
    Cls.accessor (F := F) .Connection .get_pre_cell_id = some Gen.Helper.Connection.get_pre_cell_id ∧
    Cls.accessor (F := F) .Connection .get_post_cell_id = some Gen.Helper.Connection.get_post_cell_id ∧
    Cls.accessor (F := F) .Connection .get_pre_segment_id = some Gen.Helper.Connection.get_pre_segment_id ∧
    Cls.accessor (F := F) .Connection .get_post_segment_id = some Gen.Helper.Connection.get_post_segment_id ∧
    Cls.accessor (F := F) .Connection .get_pre_fraction_along = some Gen.Helper.Connection.get_pre_fraction_along ∧
    Cls.accessor (F := F) .Connection .get_post_fraction_along = some Gen.Helper.Connection.get_post_fraction_along :=
  ⟨rfl, rfl, rfl, rfl, rfl, rfl, rfl⟩

theorem helper_ConnectionWD {F : Type} :
    Cls.cellIdFn (F := F) .ConnectionWD = some Gen.Helper.ConnectionWD._get_cell_id ∧
    Cls.accessor (F := F) .ConnectionWD .get_pre_cell_id = some Gen.Helper.ConnectionWD.get_pre_cell_id ∧
    Cls.accessor (F := F) .ConnectionWD .get_post_cell_id = some Gen.Helper.ConnectionWD.get_post_cell_id ∧
    Cls.accessor (F := F) .ConnectionWD .get_pre_segment_id = some Gen.Helper.ConnectionWD.get_pre_segment_id ∧
    Cls.accessor (F := F) .ConnectionWD .get_post_segment_id = some Gen.Helper.ConnectionWD.get_post_segment_id ∧
    Cls.accessor (F := F) .ConnectionWD .get_pre_fraction_along = some Gen.Helper.ConnectionWD.get_pre_fraction_along ∧
    Cls.accessor (F := F) .ConnectionWD .get_post_fraction_along = some Gen.Helper.ConnectionWD.get_post_fraction_along ∧
    Cls.accessor (F := F) .ConnectionWD .get_delay_in_ms = some Gen.Helper.ConnectionWD.get_delay_in_ms :=
  ⟨rfl, rfl, rfl, rfl, rfl, rfl, rfl, rfl⟩

theorem helper_ElectricalConnection {F : Type} :
    Cls.cellIdFn (F := F) .ElectricalConnection = some Gen.Helper.ElectricalConnection._get_cell_id ∧
    Cls.accessor (F := F) .ElectricalConnection .get_pre_cell_id = some Gen.Helper.ElectricalConnection.get_pre_cell_id ∧
    Cls.accessor (F := F) .ElectricalConnection .get_post_cell_id = some Gen.Helper.ElectricalConnection.get_post_cell_id ∧
    Cls.accessor (F := F) .ElectricalConnection .get_pre_segment_id = some Gen.Helper.ElectricalConnection.get_pre_segment_id ∧
    Cls.accessor (F := F) .ElectricalConnection .get_post_segment_id = some Gen.Helper.ElectricalConnection.get_post_segment_id ∧
    Cls.accessor (F := F) .ElectricalConnection .get_pre_fraction_along = some Gen.Helper.ElectricalConnection.get_pre_fraction_along ∧
    Cls.accessor (F := F) .ElectricalConnection .get_post_fraction_along = some Gen.Helper.ElectricalConnection.get_post_fraction_along :=
  ⟨rfl, rfl, rfl, rfl, rfl, rfl, rfl⟩

theorem helper_ElectricalConnectionInstance {F : Type} :
    Cls.cellIdFn (F := F) .ElectricalConnectionInstance = some Gen.Helper.ElectricalConnectionInstance._get_cell_id ∧
    Cls.accessor (F := F) .ElectricalConnectionInstance .get_pre_cell_id = some Gen.Helper.ElectricalConnectionInstance.get_pre_cell_id ∧
    Cls.accessor (F := F) .ElectricalConnectionInstance .get_post_cell_id = some Gen.Helper.ElectricalConnectionInstance.get_post_cell_id ∧
    Cls.accessor (F := F) .ElectricalConnectionInstance .get_pre_segment_id = some Gen.Helper.ElectricalConnectionInstance.get_pre_segment_id ∧
    Cls.accessor (F := F) .ElectricalConnectionInstance .get_post_segment_id = some Gen.Helper.ElectricalConnectionInstance.get_post_segment_id ∧
    Cls.accessor (F := F) .ElectricalConnectionInstance .get_pre_fraction_along = some Gen.Helper.ElectricalConnectionInstance.get_pre_fraction_along ∧
    Cls.accessor (F := F) .ElectricalConnectionInstance .get_post_fraction_along = some Gen.Helper.ElectricalConnectionInstance.get_post_fraction_along :=
  ⟨rfl, rfl, rfl, rfl, rfl, rfl, rfl⟩

theorem helper_ElectricalConnectionInstanceW {F : Type} :
    Cls.cellIdFn (F := F) .ElectricalConnectionInstanceW = some Gen.Helper.ElectricalConnectionInstanceW._get_cell_id ∧
    Cls.accessor (F := F) .ElectricalConnectionInstanceW .get_pre_cell_id = some Gen.Helper.ElectricalConnectionInstanceW.get_pre_cell_id ∧
    Cls.accessor (F := F) .ElectricalConnectionInstanceW .get_post_cell_id = some Gen.Helper.ElectricalConnectionInstanceW.get_post_cell_id ∧
    Cls.accessor (F := F) .ElectricalConnectionInstanceW .get_pre_segment_id = some Gen.Helper.ElectricalConnectionInstanceW.get_pre_segment_id ∧
    Cls.accessor (F := F) .ElectricalConnectionInstanceW .get_post_segment_id = some Gen.Helper.ElectricalConnectionInstanceW.get_post_segment_id ∧
    Cls.accessor (F := F) .ElectricalConnectionInstanceW .get_pre_fraction_along = some Gen.Helper.ElectricalConnectionInstanceW.get_pre_fraction_along ∧
    Cls.accessor (F := F) .ElectricalConnectionInstanceW .get_post_fraction_along = some Gen.Helper.ElectricalConnectionInstanceW.get_post_fraction_along ∧
    Cls.accessor (F := F) .ElectricalConnectionInstanceW .get_weight = some Gen.Helper.ElectricalConnectionInstanceW.get_weight :=
  ⟨rfl, rfl, rfl, rfl, rfl, rfl, rfl, rfl⟩

theorem helper_ContinuousConnection {F : Type} :
    Cls.cellIdFn (F := F) .ContinuousConnection = some Gen.Helper.ContinuousConnection._get_cell_id ∧
    Cls.accessor (F := F) .ContinuousConnection .get_pre_cell_id = some Gen.Helper.ContinuousConnection.get_pre_cell_id ∧
    Cls.accessor (F := F) .ContinuousConnection .get_post_cell_id = some Gen.Helper.ContinuousConnection.get_post_cell_id ∧
    Cls.accessor (F := F) .ContinuousConnection .get_pre_segment_id = some Gen.Helper.ContinuousConnection.get_pre_segment_id ∧
    Cls.accessor (F := F) .ContinuousConnection .get_post_segment_id = some Gen.Helper.ContinuousConnection.get_post_segment_id ∧
    Cls.accessor (F := F) .ContinuousConnection .get_pre_fraction_along = some Gen.Helper.ContinuousConnection.get_pre_fraction_along ∧
    Cls.accessor (F := F) .ContinuousConnection .get_post_fraction_along = some Gen.Helper.ContinuousConnection.get_post_fraction_along :=
  ⟨rfl, rfl, rfl, rfl, rfl, rfl, rfl⟩

theorem helper_ContinuousConnectionInstance {F : Type} :
    Cls.cellIdFn (F := F) .ContinuousConnectionInstance = some Gen.Helper.ContinuousConnectionInstance._get_cell_id ∧
    Cls.accessor (F := F) .ContinuousConnectionInstance .get_pre_cell_id = some Gen.Helper.ContinuousConnectionInstance.get_pre_cell_id ∧
    Cls.accessor (F := F) .ContinuousConnectionInstance .get_post_cell_id = some Gen.Helper.ContinuousConnectionInstance.get_post_cell_id ∧
    Cls.accessor (F := F) .ContinuousConnectionInstance .get_pre_segment_id = some Gen.Helper.ContinuousConnectionInstance.get_pre_segment_id ∧
    Cls.accessor (F := F) .ContinuousConnectionInstance .get_post_segment_id = some Gen.Helper.ContinuousConnectionInstance.get_post_segment_id ∧
    Cls.accessor (F := F) .ContinuousConnectionInstance .get_pre_fraction_along = some Gen.Helper.ContinuousConnectionInstance.get_pre_fraction_along ∧
    Cls.accessor (F := F) .ContinuousConnectionInstance .get_post_fraction_along = some Gen.Helper.ContinuousConnectionInstance.get_post_fraction_along :=
  ⟨rfl, rfl, rfl, rfl, rfl, rfl, rfl⟩

theorem helper_ContinuousConnectionInstanceW {F : Type} :
    Cls.cellIdFn (F := F) .ContinuousConnectionInstanceW = some Gen.Helper.ContinuousConnectionInstanceW._get_cell_id ∧
    Cls.accessor (F := F) .ContinuousConnectionInstanceW .get_pre_cell_id = some Gen.Helper.ContinuousConnectionInstanceW.get_pre_cell_id ∧
    Cls.accessor (F := F) .ContinuousConnectionInstanceW .get_post_cell_id = some Gen.Helper.ContinuousConnectionInstanceW.get_post_cell_id ∧
    Cls.accessor (F := F) .ContinuousConnectionInstanceW .get_pre_segment_id = some Gen.Helper.ContinuousConnectionInstanceW.get_pre_segment_id ∧
    Cls.accessor (F := F) .ContinuousConnectionInstanceW .get_post_segment_id = some Gen.Helper.ContinuousConnectionInstanceW.get_post_segment_id ∧
    Cls.accessor (F := F) .ContinuousConnectionInstanceW .get_pre_fraction_along = some Gen.Helper.ContinuousConnectionInstanceW.get_pre_fraction_along ∧
    Cls.accessor (F := F) .ContinuousConnectionInstanceW .get_post_fraction_along = some Gen.Helper.ContinuousConnectionInstanceW.get_post_fraction_along ∧
    Cls.accessor (F := F) .ContinuousConnectionInstanceW .get_weight = some Gen.Helper.ContinuousConnectionInstanceW.get_weight :=
  ⟨rfl, rfl, rfl, rfl, rfl, rfl, rfl, rfl⟩

theorem helper_Input {F : Type} :
    Cls.cellIdFn (F := F) .Input = some Gen.Helper.Input._get_cell_id ∧
    Cls.accessor (F := F) .Input .get_target_cell_id = some Gen.Helper.Input.get_target_cell_id ∧
    Cls.accessor (F := F) .Input .get_segment_id = some Gen.Helper.Input.get_segment_id ∧
    Cls.accessor (F := F) .Input .get_fraction_along = some Gen.Helper.Input.get_fraction_along :=
  ⟨rfl, rfl, rfl, rfl⟩

theorem helper_InputW {F : Type} :
    Cls.cellIdFn (F := F) .InputW = some Gen.Helper.InputW._get_cell_id ∧
    Cls.accessor (F := F) .InputW .get_weight = some Gen.Helper.InputW.get_weight ∧
    Cls.accessor (F := F) .InputW .get_target_cell_id = some Gen.Helper.InputW.get_target_cell_id ∧
    Cls.accessor (F := F) .InputW .get_segment_id = some Gen.Helper.InputW.get_segment_id ∧
    Cls.accessor (F := F) .InputW .get_fraction_along = some Gen.Helper.InputW.get_fraction_along :=
  ⟨rfl, rfl, rfl, rfl, rfl⟩

theorem helper_ExplicitInput {F : Type} :
    Cls.cellIdFn (F := F) .ExplicitInput = some Gen.Helper.ExplicitInput._get_cell_id ∧
    Cls.accessor (F := F) .ExplicitInput .get_target_cell_id = some Gen.Helper.ExplicitInput.get_target_cell_id ∧
    Cls.accessor (F := F) .ExplicitInput .get_segment_id = some Gen.Helper.ExplicitInput.get_segment_id ∧
    Cls.accessor (F := F) .ExplicitInput .get_fraction_along = some Gen.Helper.ExplicitInput.get_fraction_along :=
  ⟨rfl, rfl, rfl, rfl⟩

theorem helper_SynapticConnection {F : Type} :
    Cls.cellIdFn (F := F) .SynapticConnection = some Gen.Helper.SynapticConnection._get_cell_id := rfl

theorem helper_Population {F : Type} :
    Cls.accessor (F := F) .Population .get_size = some Gen.Helper.Population.get_size := rfl

theorem helper_summary : Gen.Helper.summaryTable = summaryTable ∧ Gen.Helper.summaryLines = summaryLines :=
  ⟨rfl, rfl⟩

/-! ## `nml.py` -/

theorem nml_index : Gen.Nml.index = expectedIndex := rfl

theorem nml_Connection {F : Type} :
    Cls.cellIdFn (F := F) .Connection = some Gen.Nml.Connection._get_cell_id ∧
    Cls.accessor (F := F) .Connection .get_pre_cell_id = some Gen.Nml.Connection.get_pre_cell_id ∧
    Cls.accessor (F := F) .Connection .get_post_cell_id = some Gen.Nml.Connection.get_post_cell_id ∧
    Cls.accessor (F := F) .Connection .get_pre_segment_id = some Gen.Nml.Connection.get_pre_segment_id ∧
    Cls.accessor (F := F) .Connection .get_post_segment_id = some Gen.Nml.Connection.get_post_segment_id ∧
    Cls.accessor (F := F) .Connection .get_pre_fraction_along = some Gen.Nml.Connection.get_pre_fraction_along ∧
    Cls.accessor (F := F) .Connection .get_post_fraction_along = some Gen.Nml.Connection.get_post_fraction_along :=
  ⟨rfl, rfl, rfl, rfl, rfl, rfl, rfl⟩

theorem nml_ConnectionWD {F : Type} :
    Cls.cellIdFn (F := F) .ConnectionWD = some Gen.Nml.ConnectionWD._get_cell_id ∧
    Cls.accessor (F := F) .ConnectionWD .get_pre_cell_id = some Gen.Nml.ConnectionWD.get_pre_cell_id ∧
    Cls.accessor (F := F) .ConnectionWD .get_post_cell_id = some Gen.Nml.ConnectionWD.get_post_cell_id ∧
    Cls.accessor (F := F) .ConnectionWD .get_pre_segment_id = some Gen.Nml.ConnectionWD.get_pre_segment_id ∧
    Cls.accessor (F := F) .ConnectionWD .get_post_segment_id = some Gen.Nml.ConnectionWD.get_post_segment_id ∧
    Cls.accessor (F := F) .ConnectionWD .get_pre_fraction_along = some Gen.Nml.ConnectionWD.get_pre_fraction_along ∧
    Cls.accessor (F := F) .ConnectionWD .get_post_fraction_along = some Gen.Nml.ConnectionWD.get_post_fraction_along ∧
    Cls.accessor (F := F) .ConnectionWD .get_delay_in_ms = some Gen.Nml.ConnectionWD.get_delay_in_ms :=
  ⟨rfl, rfl, rfl, rfl, rfl, rfl, rfl, rfl⟩

theorem nml_ElectricalConnection {F : Type} :
    Cls.cellIdFn (F := F) .ElectricalConnection = some Gen.Nml.ElectricalConnection._get_cell_id ∧
    Cls.accessor (F := F) .ElectricalConnection .get_pre_cell_id = some Gen.Nml.ElectricalConnection.get_pre_cell_id ∧
    Cls.accessor (F := F) .ElectricalConnection .get_post_cell_id = some Gen.Nml.ElectricalConnection.get_post_cell_id ∧
    Cls.accessor (F := F) .ElectricalConnection .get_pre_segment_id = some Gen.Nml.ElectricalConnection.get_pre_segment_id ∧
    Cls.accessor (F := F) .ElectricalConnection .get_post_segment_id = some Gen.Nml.ElectricalConnection.get_post_segment_id ∧
    Cls.accessor (F := F) .ElectricalConnection .get_pre_fraction_along = some Gen.Nml.ElectricalConnection.get_pre_fraction_along ∧
    Cls.accessor (F := F) .ElectricalConnection .get_post_fraction_along = some Gen.Nml.ElectricalConnection.get_post_fraction_along :=
  ⟨rfl, rfl, rfl, rfl, rfl, rfl, rfl⟩

theorem nml_ElectricalConnectionInstance {F : Type} :
    Cls.cellIdFn (F := F) .ElectricalConnectionInstance = some Gen.Nml.ElectricalConnectionInstance._get_cell_id ∧
    Cls.accessor (F := F) .ElectricalConnectionInstance .get_pre_cell_id = some Gen.Nml.ElectricalConnectionInstance.get_pre_cell_id ∧
    Cls.accessor (F := F) .ElectricalConnectionInstance .get_post_cell_id = some Gen.Nml.ElectricalConnectionInstance.get_post_cell_id ∧
    Cls.accessor (F := F) .ElectricalConnectionInstance .get_pre_segment_id = some Gen.Nml.ElectricalConnectionInstance.get_pre_segment_id ∧
    Cls.accessor (F := F) .ElectricalConnectionInstance .get_post_segment_id = some Gen.Nml.ElectricalConnectionInstance.get_post_segment_id ∧
    Cls.accessor (F := F) .ElectricalConnectionInstance .get_pre_fraction_along = some Gen.Nml.ElectricalConnectionInstance.get_pre_fraction_along ∧
    Cls.accessor (F := F) .ElectricalConnectionInstance .get_post_fraction_along = some Gen.Nml.ElectricalConnectionInstance.get_post_fraction_along :=
  ⟨rfl, rfl, rfl, rfl, rfl, rfl, rfl⟩

theorem nml_ElectricalConnectionInstanceW {F : Type} :
    Cls.cellIdFn (F := F) .ElectricalConnectionInstanceW = some Gen.Nml.ElectricalConnectionInstanceW._get_cell_id ∧
    Cls.accessor (F := F) .ElectricalConnectionInstanceW .get_pre_cell_id = some Gen.Nml.ElectricalConnectionInstanceW.get_pre_cell_id ∧
    Cls.accessor (F := F) .ElectricalConnectionInstanceW .get_post_cell_id = some Gen.Nml.ElectricalConnectionInstanceW.get_post_cell_id ∧
    Cls.accessor (F := F) .ElectricalConnectionInstanceW .get_pre_segment_id = some Gen.Nml.ElectricalConnectionInstanceW.get_pre_segment_id ∧
    Cls.accessor (F := F) .ElectricalConnectionInstanceW .get_post_segment_id = some Gen.Nml.ElectricalConnectionInstanceW.get_post_segment_id ∧
    Cls.accessor (F := F) .ElectricalConnectionInstanceW .get_pre_fraction_along = some Gen.Nml.ElectricalConnectionInstanceW.get_pre_fraction_along ∧
    Cls.accessor (F := F) .ElectricalConnectionInstanceW .get_post_fraction_along = some Gen.Nml.ElectricalConnectionInstanceW.get_post_fraction_along ∧
    Cls.accessor (F := F) .ElectricalConnectionInstanceW .get_weight = some Gen.Nml.ElectricalConnectionInstanceW.get_weight :=
  ⟨rfl, rfl, rfl, rfl, rfl, rfl, rfl, rfl⟩

theorem nml_ContinuousConnection {F : Type} :
    Cls.cellIdFn (F := F) .ContinuousConnection = some Gen.Nml.ContinuousConnection._get_cell_id ∧
    Cls.accessor (F := F) .ContinuousConnection .get_pre_cell_id = some Gen.Nml.ContinuousConnection.get_pre_cell_id ∧
    Cls.accessor (F := F) .ContinuousConnection .get_post_cell_id = some Gen.Nml.ContinuousConnection.get_post_cell_id ∧
    Cls.accessor (F := F) .ContinuousConnection .get_pre_segment_id = some Gen.Nml.ContinuousConnection.get_pre_segment_id ∧
    Cls.accessor (F := F) .ContinuousConnection .get_post_segment_id = some Gen.Nml.ContinuousConnection.get_post_segment_id ∧
    Cls.accessor (F := F) .ContinuousConnection .get_pre_fraction_along = some Gen.Nml.ContinuousConnection.get_pre_fraction_along ∧
    Cls.accessor (F := F) .ContinuousConnection .get_post_fraction_along = some Gen.Nml.ContinuousConnection.get_post_fraction_along :=
  ⟨rfl, rfl, rfl, rfl, rfl, rfl, rfl⟩

theorem nml_ContinuousConnectionInstance {F : Type} :
    Cls.cellIdFn (F := F) .ContinuousConnectionInstance = some Gen.Nml.ContinuousConnectionInstance._get_cell_id ∧
    Cls.accessor (F := F) .ContinuousConnectionInstance .get_pre_cell_id = some Gen.Nml.ContinuousConnectionInstance.get_pre_cell_id ∧
    Cls.accessor (F := F) .ContinuousConnectionInstance .get_post_cell_id = some Gen.Nml.ContinuousConnectionInstance.get_post_cell_id ∧
    Cls.accessor (F := F) .ContinuousConnectionInstance .get_pre_segment_id = some Gen.Nml.ContinuousConnectionInstance.get_pre_segment_id ∧
    Cls.accessor (F := F) .ContinuousConnectionInstance .get_post_segment_id = some Gen.Nml.ContinuousConnectionInstance.get_post_segment_id ∧
    Cls.accessor (F := F) .ContinuousConnectionInstance .get_pre_fraction_along = some Gen.Nml.ContinuousConnectionInstance.get_pre_fraction_along ∧
    Cls.accessor (F := F) .ContinuousConnectionInstance .get_post_fraction_along = some Gen.Nml.ContinuousConnectionInstance.get_post_fraction_along :=
  ⟨rfl, rfl, rfl, rfl, rfl, rfl, rfl⟩

theorem nml_ContinuousConnectionInstanceW {F : Type} :
    Cls.cellIdFn (F := F) .ContinuousConnectionInstanceW = some Gen.Nml.ContinuousConnectionInstanceW._get_cell_id ∧
    Cls.accessor (F := F) .ContinuousConnectionInstanceW .get_pre_cell_id = some Gen.Nml.ContinuousConnectionInstanceW.get_pre_cell_id ∧
    Cls.accessor (F := F) .ContinuousConnectionInstanceW .get_post_cell_id = some Gen.Nml.ContinuousConnectionInstanceW.get_post_cell_id ∧
    Cls.accessor (F := F) .ContinuousConnectionInstanceW .get_pre_segment_id = some Gen.Nml.ContinuousConnectionInstanceW.get_pre_segment_id ∧
    Cls.accessor (F := F) .ContinuousConnectionInstanceW .get_post_segment_id = some Gen.Nml.ContinuousConnectionInstanceW.get_post_segment_id ∧
    Cls.accessor (F := F) .ContinuousConnectionInstanceW .get_pre_fraction_along = some Gen.Nml.ContinuousConnectionInstanceW.get_pre_fraction_along ∧
    Cls.accessor (F := F) .ContinuousConnectionInstanceW .get_post_fraction_along = some Gen.Nml.ContinuousConnectionInstanceW.get_post_fraction_along ∧
    Cls.accessor (F := F) .ContinuousConnectionInstanceW .get_weight = some Gen.Nml.ContinuousConnectionInstanceW.get_weight :=
  ⟨rfl, rfl, rfl, rfl, rfl, rfl, rfl, rfl⟩

theorem nml_Input {F : Type} :
    Cls.cellIdFn (F := F) .Input = some Gen.Nml.Input._get_cell_id ∧
    Cls.accessor (F := F) .Input .get_target_cell_id = some Gen.Nml.Input.get_target_cell_id ∧
    Cls.accessor (F := F) .Input .get_segment_id = some Gen.Nml.Input.get_segment_id ∧
    Cls.accessor (F := F) .Input .get_fraction_along = some Gen.Nml.Input.get_fraction_along :=
  ⟨rfl, rfl, rfl, rfl⟩

theorem nml_InputW {F : Type} :
    Cls.cellIdFn (F := F) .InputW = some Gen.Nml.InputW._get_cell_id ∧
    Cls.accessor (F := F) .InputW .get_weight = some Gen.Nml.InputW.get_weight ∧
    Cls.accessor (F := F) .InputW .get_target_cell_id = some Gen.Nml.InputW.get_target_cell_id ∧
    Cls.accessor (F := F) .InputW .get_segment_id = some Gen.Nml.InputW.get_segment_id ∧
    Cls.accessor (F := F) .InputW .get_fraction_along = some Gen.Nml.InputW.get_fraction_along :=
  ⟨rfl, rfl, rfl, rfl, rfl⟩

theorem nml_ExplicitInput {F : Type} :
    Cls.cellIdFn (F := F) .ExplicitInput = some Gen.Nml.ExplicitInput._get_cell_id ∧
    Cls.accessor (F := F) .ExplicitInput .get_target_cell_id = some Gen.Nml.ExplicitInput.get_target_cell_id ∧
    Cls.accessor (F := F) .ExplicitInput .get_segment_id = some Gen.Nml.ExplicitInput.get_segment_id ∧
    Cls.accessor (F := F) .ExplicitInput .get_fraction_along = some Gen.Nml.ExplicitInput.get_fraction_along :=
  ⟨rfl, rfl, rfl, rfl⟩

theorem nml_SynapticConnection {F : Type} :
    Cls.cellIdFn (F := F) .SynapticConnection = some Gen.Nml.SynapticConnection._get_cell_id := rfl

theorem nml_Population {F : Type} :
    Cls.accessor (F := F) .Population .get_size = some Gen.Nml.Population.get_size := rfl

theorem nml_summary : Gen.Nml.summaryTable = summaryTable ∧ Gen.Nml.summaryLines = summaryLines :=
  ⟨rfl, rfl⟩

/-! ## constructors (`nml.py`) and `_parse_delay` -/

theorem nml_ctor_fields :
    Gen.Nml.Connection.fields = Cls.fields .Connection ∧
    Gen.Nml.ConnectionWD.fields = Cls.fields .ConnectionWD ∧
    Gen.Nml.ElectricalConnection.fields = Cls.fields .ElectricalConnection ∧
    Gen.Nml.ElectricalConnectionInstance.fields = Cls.fields .ElectricalConnectionInstance ∧
    Gen.Nml.ElectricalConnectionInstanceW.fields = Cls.fields .ElectricalConnectionInstanceW ∧
    Gen.Nml.ContinuousConnection.fields = Cls.fields .ContinuousConnection ∧
    Gen.Nml.ContinuousConnectionInstance.fields = Cls.fields .ContinuousConnectionInstance ∧
    Gen.Nml.ContinuousConnectionInstanceW.fields = Cls.fields .ContinuousConnectionInstanceW ∧
    Gen.Nml.Input.fields = Cls.fields .Input ∧
    Gen.Nml.InputW.fields = Cls.fields .InputW ∧
    Gen.Nml.ExplicitInput.fields = Cls.fields .ExplicitInput ∧
    Gen.Nml.SynapticConnection.fields = Cls.fields .SynapticConnection ∧
    Gen.Nml.Population.fields = Cls.fields .Population :=
  ⟨rfl, rfl, rfl, rfl, rfl, rfl, rfl, rfl, rfl, rfl, rfl, rfl, rfl⟩

theorem xmlparser_parse_delay {F : Type} :
    @Gen.XmlParser.NeuroMLXMLParser._parse_delay F = @parseDelay F := rfl

/-- SynapticConnection has `_get_cell_id` only; `Cls.cellIdFn` is defined for it too -/
example {F : Type} : Cls.cellIdFn (F := F) .SynapticConnection = some getCellIdPath := rfl

end NmlVerif.Acc
