import NmlVerif.Proofs.RxRef
import NmlVerif.Props.C19
import NmlVerif.Gen.Accessors
/-!
# C19 — the schema's patterns, derived from the XSD, and what the accessors do on every string they admit

* `Gen/Accessors.lean` carries, regenerated on every run, the `xs:pattern` facets of `Nml2Quantity_time`,
  `Nml2PopulationReferencePath` and `NmlId` read from the XSD the package declares current (`Gen.Xsd.*`) and the
  patterns generateDS copied into `nml.py` (`Gen.Nml.*`), parsed by Python's own regular-expression parser and
  emitted as `Rx` terms.  `rx_bridge_*` prove they are the terms `timeRx`, `refRx`, `nmlIdRx` the theorems below are
  about.  `Matches` is the declarative meaning of a pattern; `accepts` (driver) is proved to decide it
  (`Rx.accepts_iff`) and is compared with Python's `re` on the generated corpus.
* delays: for **every** string matching the time pattern, `get_delay_in_ms` and `_parse_delay`, run with the exact
  rational `float()` of the driver (`RatSem`), return the decimal number the spelling denotes, times 1000 for `s`.
* references: for **every** string matching the reference pattern, what `_get_cell_id` returns (a complete
  classification: the pattern is wider than the two forms of the property).
-/
namespace NmlVerif.Rx
open NmlVerif.Acc

/-! ## the patterns are the ones in the schema -/

theorem rx_bridge_time : Acc.Gen.Xsd.timeRx = timeRx ∧ Acc.Gen.Nml.timeRx = timeRx := ⟨rfl, rfl⟩
theorem rx_bridge_ref : Acc.Gen.Xsd.refRx = refRx ∧ Acc.Gen.Nml.refRx = refRx := ⟨rfl, rfl⟩
theorem rx_bridge_id : Acc.Gen.Xsd.nmlIdRx = nmlIdRx ∧ Acc.Gen.Nml.nmlIdRx = nmlIdRx := ⟨rfl, rfl⟩

/-- the vocabulary of `Props/C19.lean` (`isNmlId`) is the schema's `NmlId` pattern -/
theorem nmlId_iff (s : List Char) : Matches nmlIdRx s ↔ isNmlId s = true := by
  unfold nmlIdRx idHead idChar
  rw [matches_seq_iff]
  constructor
  · rintro ⟨s1, s2, rfl, h1, h2⟩
    obtain ⟨c, rfl, hc⟩ := (matches_set_iff _ _).mp h1
    have h2' := (matches_star_set_iff _ _).mp h2
    simp only [List.singleton_append, isNmlId, Bool.and_eq_true, List.all_eq_true]
    exact ⟨(idHead_mem c).mp hc, fun d hd => (idChar_mem d).mp (h2' d hd)⟩
  · intro h
    cases s with
    | nil => simp [isNmlId] at h
    | cons c r =>
      simp only [isNmlId, Bool.and_eq_true, List.all_eq_true] at h
      refine ⟨[c], r, rfl, .set _ c ((idHead_mem c).mpr h.1), ?_⟩
      exact (matches_star_set_iff _ _).mpr (fun d hd => (idChar_mem d).mpr (h.2 d hd))

/-! ## delays: every string of the time pattern -/

theorem opt_minus_piece (s : List Char) (h : Matches (Rx.opt (Rx.chr '-')) s) :
    ∃ b : Bool, s = if b then ['-'] else [] := by
  rcases (matches_opt_iff _ _).mp h with h | h
  · exact ⟨true, (matches_chr_iff _ _).mp h⟩
  · exact ⟨false, h⟩

theorem digits_star_piece (s : List Char) (h : Matches (.star digit) s) : ∀ c ∈ s, c.isDigit = true := by
  intro c hc
  have := (matches_star_set_iff _ _).mp h c hc
  rwa [digit_mem] at this

theorem digits_plus_piece (s : List Char) (h : Matches (Rx.plus digit) s) : isDigits s = true := by
  obtain ⟨hne, hall⟩ := (matches_plus_set_iff _ _).mp h
  simp only [isDigits, Bool.and_eq_true, Bool.not_eq_true', List.isEmpty_eq_false_iff, List.all_eq_true]
  exact ⟨hne, fun c hc => by have := hall c hc; rwa [digit_mem] at this⟩

theorem frac_piece (s : List Char) (h : Matches (Rx.opt (.seq (Rx.chr '.') (Rx.plus digit))) s) :
    ∃ fd : Option (List Char), s = mantText [] fd ∧ ∀ d, fd = some d → isDigits d = true := by
  rcases (matches_opt_iff _ _).mp h with h | h
  · obtain ⟨s1, s2, rfl, h1, h2⟩ := (matches_seq_iff _ _ _).mp h
    rw [(matches_chr_iff _ _).mp h1]
    refine ⟨some s2, rfl, ?_⟩
    intro d hd; cases hd
    exact digits_plus_piece _ h2
  · exact ⟨Option.none, by subst h; rfl, by intro d hd; cases hd⟩

theorem exp_piece (s : List Char)
    (h : Matches (Rx.opt (.seq expMark (.seq (Rx.opt (Rx.chr '-')) (Rx.plus digit)))) s) :
    ∃ ex : Option (Char × Bool × List Char), s = expText ex ∧
      ∀ e m d, ex = some (e, m, d) → (e = 'e' ∨ e = 'E') ∧ isDigits d = true := by
  rcases (matches_opt_iff _ _).mp h with h | h
  · obtain ⟨s1, s2, rfl, h1, h2⟩ := (matches_seq_iff _ _ _).mp h
    obtain ⟨s3, s4, rfl, h3, h4⟩ := (matches_seq_iff _ _ _).mp h2
    obtain ⟨e, rfl, he⟩ := (matches_set_iff _ _).mp h1
    obtain ⟨m, rfl⟩ := opt_minus_piece _ h3
    refine ⟨some (e, m, s4), rfl, ?_⟩
    intro e' m' d' hd; cases hd
    exact ⟨(expMark_mem e).mp he, digits_plus_piece _ h4⟩
  · exact ⟨Option.none, by subst h; rfl, by intro e m d hd; cases hd⟩

/-- **every string of the schema's time pattern** is a number spelling (`TimeNum`), whitespace, and `s` or `ms` -/
theorem timeRx_parts (s : List Char) (h : Matches timeRx s) :
    ∃ (p : TimeNum) (ws : List Char) (sec : Bool), p.WF ∧ (∀ c ∈ ws, isSpace c = true) ∧
      s = p.text ++ ws ++ (if sec then ['s'] else ['m', 's']) := by
  unfold timeRx at h
  obtain ⟨a1, r1, rfl, h1, h⟩ := (matches_seq_iff _ _ _).mp h
  obtain ⟨a2, r2, rfl, h2, h⟩ := (matches_seq_iff _ _ _).mp h
  obtain ⟨a3, r3, rfl, h3, h⟩ := (matches_seq_iff _ _ _).mp h
  obtain ⟨a4, a5, rfl, h4, h5⟩ := (matches_seq_iff _ _ _).mp h
  obtain ⟨ip, fp, rfl, hip, hfp⟩ := (matches_seq_iff _ _ _).mp h2
  obtain ⟨neg, rfl⟩ := opt_minus_piece _ h1
  obtain ⟨fd, rfl, hfd⟩ := frac_piece _ hfp
  obtain ⟨ex, rfl, hex⟩ := exp_piece _ h3
  have hws : ∀ c ∈ a4, isSpace c = true := by
    intro c hc
    have := (matches_star_set_iff _ _).mp h4 c hc
    rwa [space_mem] at this
  have hunit : ∃ sec : Bool, a5 = if sec then ['s'] else ['m', 's'] := by
    rcases (matches_alt_iff _ _ _).mp h5 with h5 | h5
    · exact ⟨true, (matches_chr_iff _ _).mp h5⟩
    · obtain ⟨u1, u2, rfl, hu1, hu2⟩ := (matches_seq_iff _ _ _).mp h5
      rw [(matches_chr_iff _ _).mp hu1, (matches_chr_iff _ _).mp hu2]
      exact ⟨false, rfl⟩
  obtain ⟨sec, rfl⟩ := hunit
  refine ⟨⟨neg, ip, fd, ex⟩, a4, sec, ⟨digits_star_piece _ hip, hfd, hex⟩, hws, ?_⟩
  simp only [TimeNum.text, mantText, List.nil_append, List.append_assoc]

/-! ### the readings are exactly the pattern: every well-formed reading matches `timeRx` -/

theorem matches_opt_minus (b : Bool) : Matches (Rx.opt (Rx.chr '-')) (if b then ['-'] else []) := by
  cases b
  · exact (matches_opt_iff _ _).mpr (Or.inr rfl)
  · exact (matches_opt_iff _ _).mpr (Or.inl ((matches_chr_iff _ _).mpr rfl))

theorem matches_digits_plus (d : List Char) (h : isDigits d = true) : Matches (Rx.plus digit) d := by
  apply (matches_plus_set_iff _ _).mpr
  refine ⟨ne_nil_of_isDigits h, fun c hc => ?_⟩
  rw [digit_mem]; exact isDigit_of_isDigits h c hc

theorem timeRx_of_parts (p : TimeNum) (hp : p.WF) (ws : List Char) (hws : ∀ c ∈ ws, isSpace c = true) (sec : Bool) :
    Matches timeRx (p.text ++ ws ++ (if sec then ['s'] else ['m', 's'])) := by
  have h1 := matches_opt_minus p.neg
  have h2 : Matches (.star digit) p.ip :=
    (matches_star_set_iff _ _).mpr (fun c hc => by rw [digit_mem]; exact hp.ip_digits c hc)
  have h3 : Matches (Rx.opt (.seq (Rx.chr '.') (Rx.plus digit))) (mantText [] p.fd) := by
    cases hf : p.fd with
    | none => exact (matches_opt_iff _ _).mpr (Or.inr rfl)
    | some d =>
      exact (matches_opt_iff _ _).mpr (Or.inl ((matches_seq_iff _ _ _).mpr
        ⟨['.'], d, rfl, (matches_chr_iff _ _).mpr rfl, matches_digits_plus d (hp.fd_digits d hf)⟩))
  have h4 : Matches (Rx.opt (.seq expMark (.seq (Rx.opt (Rx.chr '-')) (Rx.plus digit)))) (expText p.ex) := by
    cases hx : p.ex with
    | none => exact (matches_opt_iff _ _).mpr (Or.inr rfl)
    | some t =>
      obtain ⟨e, m, d⟩ := t
      have he := hp.ex_ok e m d hx
      refine (matches_opt_iff _ _).mpr (Or.inl ((matches_seq_iff _ _ _).mpr
        ⟨[e], (if m then ['-'] else []) ++ d, rfl, .set _ e ((expMark_mem e).mpr he.1), ?_⟩))
      exact (matches_seq_iff _ _ _).mpr ⟨_, d, rfl, matches_opt_minus m, matches_digits_plus d he.2⟩
  have h5 : Matches (.star spaceCls) ws :=
    (matches_star_set_iff _ _).mpr (fun c hc => by rw [space_mem]; exact hws c hc)
  have h6 : Matches (.alt (Rx.chr 's') (.seq (Rx.chr 'm') (Rx.chr 's'))) (if sec then ['s'] else ['m', 's']) := by
    cases sec
    · exact .altR ((matches_seq_iff _ _ _).mpr ⟨['m'], ['s'], rfl, (matches_chr_iff _ _).mpr rfl,
        (matches_chr_iff _ _).mpr rfl⟩)
    · exact .altL ((matches_chr_iff _ _).mpr rfl)
  have := Matches.seq h1 (Matches.seq (Matches.seq h2 h3) (Matches.seq h4 (Matches.seq h5 h6)))
  have e : p.text ++ ws ++ (if sec then ['s'] else ['m', 's']) =
      (if p.neg then ['-'] else []) ++ ((p.ip ++ mantText [] p.fd) ++ (expText p.ex ++ (ws ++
        (if sec then ['s'] else ['m', 's'])))) := by
    simp [TimeNum.text, mantText, List.append_assoc]
  rw [e]
  exact this

/-- **the readings `TimeNum` × whitespace × unit are exactly the strings of the schema's time pattern** -/
theorem timeRx_iff_parts (s : List Char) :
    Matches timeRx s ↔ ∃ (p : TimeNum) (ws : List Char) (sec : Bool), p.WF ∧ (∀ c ∈ ws, isSpace c = true) ∧
      s = p.text ++ ws ++ (if sec then ['s'] else ['m', 's']) :=
  ⟨timeRx_parts s, fun ⟨p, ws, sec, hp, hws, hs⟩ => hs ▸ timeRx_of_parts p hp ws hws sec⟩

/-- what `float(<number part>)`, times the unit factor, is: the value the spelling denotes, or `ValueError` for
    the degenerate spellings without a digit before the exponent -/
def delayResult (p : TimeNum) (sec : Bool) : Res Rat :=
  match p.value with
  | Option.none => .error .valueError
  | some v => .ok (.num (if sec then v * 1000 else v))

theorem floatRes_ratSem (p : TimeNum) (h : p.WF) (sec : Bool) :
    floatRes RatSem p.text (if sec then some RatSem.thousand else Option.none) = delayResult p sec := by
  unfold floatRes delayResult
  have : RatSem.parse p.text = p.value := ratOfStr_text p h
  rw [this]
  cases p.value with
  | none => rfl
  | some v => cases sec <;> rfl

/-- **C19, delays in milliseconds, exact values**: for every reading `<number><whitespace><unit>` of a delay
    string according to the schema's pattern, `get_delay_in_ms` and `_parse_delay` (with the driver's exact
    rational `float()`) return the decimal number the spelling denotes — for `ms` — and 1000 times it — for `s`. -/
theorem c19_delay_value (self : Obj Rat) (p : TimeNum) (hp : p.WF) (ws : List Char)
    (hws : ∀ c ∈ ws, isSpace c = true) (sec : Bool)
    (hs : self "delay" = some (.str (p.text ++ ws ++ (if sec then ['s'] else ['m', 's'])))) :
    getDelayInMs RatSem self = delayResult p sec ∧
    parseDelay RatSem self (pstr (p.text ++ ws ++ (if sec then ['s'] else ['m', 's']))) = delayResult p sec := by
  have ht : TimeSpelling p.text ws := ⟨text_chars p hp, hws⟩
  cases sec with
  | true =>
    simp only [↓reduceIte] at hs ⊢
    rw [c19_delay_s RatSem self p.text ws ht hs, (c19_parse_delay RatSem self p.text ws ht).2]
    exact ⟨floatRes_ratSem p hp true, floatRes_ratSem p hp true⟩
  | false =>
    simp only [Bool.false_eq_true, ↓reduceIte] at hs ⊢
    rw [c19_delay_ms RatSem self p.text ws ht hs, (c19_parse_delay RatSem self p.text ws ht).1]
    exact ⟨floatRes_ratSem p hp false, floatRes_ratSem p hp false⟩

/-- **C19, delays, all quantity spellings the schema allows**: every string matching the schema's
    `Nml2Quantity_time` pattern has such a reading, so the accessors return its value in milliseconds. -/
theorem c19_delay_schema (self : Obj Rat) (s : List Char) (hm : Matches timeRx s)
    (hs : self "delay" = some (.str s)) :
    ∃ (p : TimeNum) (ws : List Char) (sec : Bool), p.WF ∧ (∀ c ∈ ws, isSpace c = true) ∧
      s = p.text ++ ws ++ (if sec then ['s'] else ['m', 's']) ∧
      getDelayInMs RatSem self = delayResult p sec ∧ parseDelay RatSem self (pstr s) = delayResult p sec := by
  obtain ⟨p, ws, sec, hp, hws, rfl⟩ := timeRx_parts s hm
  exact ⟨p, ws, sec, hp, hws, rfl, c19_delay_value self p hp ws hws sec hs⟩

/-- the readings are non-vacuous and the values are the expected ones: `-1.5E-2 \t ms` is −0.015 ms,
    `.5e3s` is 500 s = 500000 ms, `ms` alone has no number -/
example : Matches timeRx "-1.5E-2 \t ms".toList := (accepts_iff _ _).mp (by decide)
example : Matches timeRx ".5e3s".toList := (accepts_iff _ _).mp (by decide)
example : ¬ Matches timeRx "5.s".toList := fun h => by
  have := (accepts_iff _ _).mpr h
  revert this; decide
example : (⟨true, ['1'], some ['5'], some ('E', true, ['2'])⟩ : TimeNum).text = "-1.5E-2".toList := by decide
example : (⟨true, ['1'], some ['5'], some ('E', true, ['2'])⟩ : TimeNum).value = some (-3 / 200) := by
  decide +kernel
example : (⟨false, [], some ['5'], some ('e', false, ['3'])⟩ : TimeNum).value = some 500 := by
  decide +kernel
example : (⟨false, [], Option.none, Option.none⟩ : TimeNum).value = Option.none := by decide
example : (⟨true, ['1'], some ['5'], some ('E', true, ['2'])⟩ : TimeNum).WF :=
  ⟨by decide, by intro d h; cases h; decide, by intro e m d h; cases h; exact ⟨Or.inr rfl, by decide⟩⟩

/-! ## references: every string of the reference pattern -/

/-- what `_get_cell_id` returns on a schema-valid reference, as a function of its reading -/
def refResult {F : Type} (o : Except Err Nat) : Res F :=
  match o with
  | .ok n => .ok (.int n)
  | .error e => .error e

/-- **C19, `_get_cell_id` on the whole of the schema's `Nml2PopulationReferencePath` pattern** (it is wider than the
    two forms of the property): a string matching the pattern is
    * a bracket form `[../]pop[n]` — the result is `n`; or
    * a slash form `[../]pop/n(/m)*[/comp][/]` — with the leading `../` the result is the first index `n`
      (whatever follows it); without it, `split('/')[2]` lands one segment later: the *second* index when there is
      one, `ValueError` on a component id or on the empty string after a trailing slash, `IndexError` for `pop/n`
      (`RefParts.outcome`).
    The forms of the property statement (`../pop/n/comp`, `pop[n]`) and `../pop/n`, `../pop[n]` all return `n`. -/
theorem c19_ref_classification {F : Type} (fs : FloatSem F) (self : Obj F) (s : List Char) (h : Matches refRx s) :
    (∃ (dots : Bool) (pop ds : List Char), isNmlId pop = true ∧ isDigits ds = true ∧ s = bracketPath dots pop ds ∧
        getCellIdPath fs self (pstr s) = .ok (.int (decVal ds))) ∨
    (∃ p : RefParts, p.WF ∧ s = p.text ∧ getCellIdPath fs self (pstr s) = refResult p.outcome) := by
  rcases refRx_parts s h with ⟨dots, pop, ds, hp, hd, rfl⟩ | ⟨p, hp, rfl⟩
  · left
    exact ⟨dots, pop, ds, hp, hd, rfl,
      getCellIdPath_bracket fs self dots pop ds hd (not_mem_of_isNmlId hp _ (by decide))⟩
  · right
    exact ⟨p, hp, rfl, getCellIdPath_slashForm fs self p hp⟩

/-- in particular: every schema-valid reference that starts with `../` or has the bracket form yields an index
    (no exception), and it is the index written directly after the population id -/
theorem c19_ref_dots_or_bracket {F : Type} (fs : FloatSem F) (self : Obj F) (p : RefParts) (hp : p.WF)
    (hd : p.dots = true) : getCellIdPath fs self (pstr p.text) = .ok (.int (decVal p.d1)) := by
  rw [getCellIdPath_slashForm fs self p hp]
  simp [RefParts.outcome, hd]

/-- the forms of the property are forms of the pattern: `CellPath` strings match `refRx` -/
theorem cellPath_text_slash (pop ds comp : List Char) :
    slashPath pop ds comp = (⟨true, pop, ds, [], some comp, false⟩ : RefParts).text := by
  simp [slashPath, RefParts.text, refTail, refEnd]

theorem cellPath_text_slashNoComp (pop ds : List Char) :
    slashPathNoComp pop ds = (⟨true, pop, ds, [], Option.none, false⟩ : RefParts).text := by
  simp [slashPathNoComp, RefParts.text, refTail, refEnd]

/-- every bracket form and every well-formed slash reading matches the schema's reference pattern: the
    classification above covers exactly the strings of the pattern -/
theorem matches_nmlId (s : List Char) (h : isNmlId s = true) : Matches (.seq idHead (.star idChar)) s :=
  (nmlId_iff s).mpr h

theorem matches_refTail (more : List (List Char)) (hm : ∀ d ∈ more, isDigits d = true) :
    Matches (.star (.seq (Rx.chr '/') (Rx.plus digit))) (more.flatMap (fun d => '/' :: d)) := by
  induction more with
  | nil => exact .starNil
  | cons d m ih =>
    simp only [List.flatMap_cons]
    exact .starCons ((matches_seq_iff _ _ _).mpr ⟨['/'], d, rfl, (matches_chr_iff _ _).mpr rfl,
      matches_digits_plus d (hm d (by simp))⟩) (ih (fun x hx => hm x (by simp [hx])))

theorem refTail_flat (more : List (List Char)) (comp : Option (List Char)) (slash : Bool) :
    refTail more comp slash = more.flatMap (fun d => '/' :: d) ++ refEnd comp slash := by
  induction more with
  | nil => rfl
  | cons d m ih => simp [refTail, ih]

theorem refRx_of_slash (p : RefParts) (hp : p.WF) : Matches refRx p.text := by
  have hd : Matches (Rx.opt (.seq (Rx.chr '.') (.seq (Rx.chr '.') (Rx.chr '/')))) (if p.dots then ['.', '.', '/'] else []) := by
    cases p.dots
    · exact (matches_opt_iff _ _).mpr (Or.inr rfl)
    · exact (matches_opt_iff _ _).mpr (Or.inl ((matches_seq_iff _ _ _).mpr ⟨['.'], ['.', '/'], rfl,
        (matches_chr_iff _ _).mpr rfl, (matches_seq_iff _ _ _).mpr ⟨['.'], ['/'], rfl, (matches_chr_iff _ _).mpr rfl,
          (matches_chr_iff _ _).mpr rfl⟩⟩))
  have hpop := matches_nmlId p.pop hp.pop_id
  have hidx : Matches (Rx.plus (.seq (Rx.chr '/') (Rx.plus digit))) ('/' :: p.d1 ++ p.more.flatMap (fun d => '/' :: d)) :=
    Matches.seq ((matches_seq_iff _ _ _).mpr ⟨['/'], p.d1, rfl, (matches_chr_iff _ _).mpr rfl,
      matches_digits_plus p.d1 hp.d1_digits⟩) (matches_refTail p.more hp.more_digits)
  have hend : Matches (.seq (Rx.opt (.seq (Rx.chr '/') (.seq idHead (.star idChar)))) (Rx.opt (Rx.chr '/')))
      (refEnd p.comp p.slash) := by
    unfold refEnd
    apply Matches.seq
    · cases hc : p.comp with
      | none => exact (matches_opt_iff _ _).mpr (Or.inr rfl)
      | some c =>
        exact (matches_opt_iff _ _).mpr (Or.inl ((matches_seq_iff _ _ _).mpr ⟨['/'], c, rfl,
          (matches_chr_iff _ _).mpr rfl, matches_nmlId c (hp.comp_id c hc)⟩))
    · cases p.slash
      · exact (matches_opt_iff _ _).mpr (Or.inr rfl)
      · exact (matches_opt_iff _ _).mpr (Or.inl ((matches_chr_iff _ _).mpr rfl))
  have := Matches.seq hd (Matches.seq hpop (Matches.altR (a := .seq (Rx.chr '[') (.seq (Rx.plus digit) (Rx.chr ']')))
    (Matches.seq hidx hend)))
  have e : p.text = (if p.dots then ['.', '.', '/'] else []) ++ (p.pop ++
      (('/' :: p.d1 ++ p.more.flatMap (fun d => '/' :: d)) ++ refEnd p.comp p.slash)) := by
    simp [RefParts.text, refTail_flat, List.append_assoc]
  rw [e]
  exact this

theorem refRx_of_bracket (dots : Bool) (pop ds : List Char) (hp : isNmlId pop = true) (hd : isDigits ds = true) :
    Matches refRx (bracketPath dots pop ds) := by
  have hdots : Matches (Rx.opt (.seq (Rx.chr '.') (.seq (Rx.chr '.') (Rx.chr '/')))) (if dots then ['.', '.', '/'] else []) := by
    cases dots
    · exact (matches_opt_iff _ _).mpr (Or.inr rfl)
    · exact (matches_opt_iff _ _).mpr (Or.inl ((matches_seq_iff _ _ _).mpr ⟨['.'], ['.', '/'], rfl,
        (matches_chr_iff _ _).mpr rfl, (matches_seq_iff _ _ _).mpr ⟨['.'], ['/'], rfl, (matches_chr_iff _ _).mpr rfl,
          (matches_chr_iff _ _).mpr rfl⟩⟩))
  have hb : Matches (.seq (Rx.chr '[') (.seq (Rx.plus digit) (Rx.chr ']'))) ('[' :: (ds ++ [']'])) :=
    (matches_seq_iff _ _ _).mpr ⟨['['], ds ++ [']'], rfl, (matches_chr_iff _ _).mpr rfl,
      Matches.seq (matches_digits_plus ds hd) ((matches_chr_iff _ _).mpr rfl)⟩
  have := Matches.seq hdots (Matches.seq (matches_nmlId pop hp)
    (Matches.altL (b := .seq (Rx.plus (.seq (Rx.chr '/') (Rx.plus digit)))
      (.seq (Rx.opt (.seq (Rx.chr '/') (.seq idHead (.star idChar)))) (Rx.opt (Rx.chr '/')))) hb))
  have e : bracketPath dots pop ds = (if dots then ['.', '.', '/'] else []) ++ (pop ++ ('[' :: (ds ++ [']']))) := by
    simp [bracketPath]
  rw [e]
  exact this

/-- in particular every reference of the two forms of the property is schema-valid -/
theorem cellPath_matches (s : List Char) (n : Nat) (h : CellPath s n) : Matches refRx s := by
  cases h with
  | slash pop ds comp hp hd hc =>
    rw [cellPath_text_slash]
    exact refRx_of_slash _ ⟨hp, hd, by simp, by intro c h; cases h; exact hc⟩
  | slashNoComp pop ds hp hd =>
    rw [cellPath_text_slashNoComp]
    exact refRx_of_slash _ ⟨hp, hd, by simp, by intro c h; cases h⟩
  | bracket dots pop ds hp hd => exact refRx_of_bracket dots pop ds hp hd

/-- readings outside the two forms, and what the code does on them -/
example : Matches refRx "pop/3/comp".toList := (accepts_iff _ _).mp (by decide)
example : Matches refRx "../pop/3/4/comp/".toList := (accepts_iff _ _).mp (by decide)
example : ¬ Matches refRx "pop".toList := fun h => by
  have := (accepts_iff _ _).mpr h
  revert this; decide
example : (⟨false, "pop".toList, ['3'], [], some "comp".toList, false⟩ : RefParts).text = "pop/3/comp".toList := by
  decide
example : (⟨false, "pop".toList, ['3'], [], some "comp".toList, false⟩ : RefParts).outcome = .error .valueError := by
  rfl
example : (⟨false, "pop".toList, ['3'], [], Option.none, false⟩ : RefParts).outcome = .error .indexError := by rfl
example : (⟨false, "pop".toList, ['3'], [['4']], Option.none, false⟩ : RefParts).outcome = .ok 4 := by rfl
example : (⟨true, "pop".toList, ['3'], [['4']], some "c".toList, true⟩ : RefParts).outcome = .ok 3 := by rfl
example : (⟨false, "pop".toList, ['3'], [['4']], Option.none, false⟩ : RefParts).WF :=
  ⟨by decide, by decide, by intro d hd; simp at hd; subst hd; decide, by intro c hc; cases hc⟩


/-! ## plain indices (`ElectricalConnection`, `ContinuousConnection`): `int(float(s))` with the exact `float()` -/

theorem ratOfStr_digits (ds : List Char) (hd : isDigits ds = true) :
    ratOfStr ds = some ((decVal ds : Nat) : Rat) := by
  have hwf : (⟨false, ds, Option.none, Option.none⟩ : TimeNum).WF :=
    ⟨isDigit_of_isDigits hd, (by intro d h; cases h), (by intro e m d h; cases h)⟩
  have := ratOfStr_text ⟨false, ds, Option.none, Option.none⟩ hwf
  have hne := ne_nil_of_isDigits hd
  simp [TimeNum.text, mantText, expText, TimeNum.value, TimeNum.expo, fracOf, hne, pow10, Rat.add_zero] at this
  exact this

theorem ratTrunc_nat (n : Nat) : ratTrunc ((n : Nat) : Rat) = (n : Int) := by
  unfold ratTrunc
  have h : (0 : Rat) ≤ ((n : Nat) : Rat) := Rat.natCast_nonneg
  simp only [ge_iff_le, h, ↓reduceIte]
  have : ((n : Nat) : Rat) = (((n : Nat) : Int) : Rat) := by rfl
  rw [this, Rat.floor_intCast]

/-- **cell-index accessors of the two index-holding classes, every index spelling `[0-9]+`**: with the exact
    `float()` the result is the index (Python's binary `float` rounds above 2^53: `notes/C19.md`) -/
theorem c19_index_accessors_rat (c : Cls) (m : Meth) (fld : String) (hfld : c.indexField m = some fld)
    (self : Obj Rat) (ds : List Char) (hd : isDigits ds = true) (hs : self fld = some (.str ds)) :
    ∃ f, c.accessor (F := Rat) m = some f ∧ f RatSem self = .ok (.int (decVal ds)) := by
  apply c19_index_accessors RatSem c m fld hfld self ds hs
  · show ratOfStr ds = some (((decVal ds : Nat) : Int) : Rat)
    rw [ratOfStr_digits ds hd]; rfl
  · show some (ratTrunc (((decVal ds : Nat) : Int) : Rat)) = some ((decVal ds : Nat) : Int)
    have : (((decVal ds : Nat) : Int) : Rat) = ((decVal ds : Nat) : Rat) := by rfl
    rw [this, ratTrunc_nat]

example : ∃ f, Cls.accessor (F := Rat) .ElectricalConnection .get_pre_cell_id = some f ∧
    f RatSem (fun n => if n = "pre_cell" then some (.str ['0', '4', '2']) else none) = .ok (.int 42) :=
  c19_index_accessors_rat .ElectricalConnection .get_pre_cell_id "pre_cell" rfl _ ['0', '4', '2'] (by decide)
    (by simp)


end NmlVerif.Rx
