import NmlVerif.Proofs.AccSummary
import NmlVerif.Gen.Accessors
import NmlVerif.Props.C19
/-!
# C19 — the whole of `NeuroMLDocument.summary()`

`Gen/Accessors.lean` carries the body of the `for network in self.networks:` loop of `summary`, translated statement
by statement from the Python AST of `helper_methods.py` and of `nml.py` on every run (`Gen.Helper.netProg`,
`Gen.Nml.netProg`).  `summ_bridge` proves both are the program `Summ.netProg` the theorems below are about; the
interpreter `Summ.runNet` is its meaning, compared text-for-text with the real `summary()` by the harness.

For **every** network (any populations — size only, instances only, both; any mix of the eight connection lists in
the three kinds of projection; `input` and `input_ws` mixed; any ids, any order):
the six counters at the point where their line is printed are the actual numbers, and the line appended to the text
carries exactly those numbers.
-/
namespace NmlVerif.Acc.Summ

theorem summ_bridge : Gen.Helper.netProg = netProg ∧ Gen.Nml.netProg = netProg := ⟨rfl, rfl⟩

/-! ## the counters -/

/-- counters of the population segment -/
theorem c19s_pop_counters (net : NetD) (st : St) :
    (runNet popSeg net st).nats "tot_pop" = (net.list "populations").length ∧
    (runNet popSeg net st).nats "tot_cells" = ((net.list "populations").map Item.size).sum := by
  constructor
  · rw [runNet_nat]
    simp [popSeg, s0, s1, s2, nat3, nat2, nat1, natCtl, natSimple, List.foldl, netItems, evalNE, foldl_keep,
      foldl_add, sum_map_one', length_sortById]
  · rw [runNet_nat]
    simp [popSeg, s0, s1, s2, nat3, nat2, nat1, natCtl, natSimple, List.foldl, netItems, evalNE, foldl_keep,
      foldl_add, sum_sortById]

/-- the connections of a projection of each kind: all its lists -/
def chemConns (p : Item) : Nat := (p.sub "connections").n + (p.sub "connection_wds").n
def elecConns (p : Item) : Nat :=
  (p.sub "electrical_connections").n + (p.sub "electrical_connection_instances").n +
    (p.sub "electrical_connection_instance_ws").n
def contConns (p : Item) : Nat :=
  (p.sub "continuous_connections").n + (p.sub "continuous_connection_instances").n +
    (p.sub "continuous_connection_instance_ws").n

/-- counters of the projection segment: every projection of the three kinds, every connection of the eight lists -/
theorem c19s_proj_counters (net : NetD) (st : St) :
    (runNet projSeg net st).nats "tot_proj" =
      (net.list "projections").length + (net.list "electrical_projections").length +
        (net.list "continuous_projections").length ∧
    (runNet projSeg net st).nats "tot_conns" =
      ((net.list "projections").map chemConns).sum + ((net.list "electrical_projections").map elecConns).sum +
        ((net.list "continuous_projections").map contConns).sum := by
  constructor
  · rw [runNet_nat]
    simp [projSeg, listLine, s0, s1, s2, nat3, nat2, nat1, natCtl, natSimple, List.foldl, netItems, evalNE,
      foldl_keep, foldl_add, sum_map_one', length_sortById]
  · rw [runNet_nat]
    simp [projSeg, listLine, s0, s1, s2, nat3, nat2, nat1, natCtl, natSimple, List.foldl, netItems, evalNE,
      foldl_keep, foldl_add2, foldl_add3, sum_sortById]
    rfl

/-- counters of the input segment: `input` and `input_ws` of every list (the `if len(…)>0` guards add nothing
    when a list is empty, and both guards are tested for every input list) -/
theorem c19s_input_counters (net : NetD) (st : St) :
    (runNet inputSeg net st).nats "tot_input_lists" = (net.list "input_lists").length ∧
    (runNet inputSeg net st).nats "tot_inputs" =
      ((net.list "input_lists").map (fun l => (l.sub "input").n + (l.sub "input_ws").n)).sum := by
  constructor
  · rw [runNet_nat]
    simp [inputSeg, s0, s1, s2, nat3, nat2, nat1, natCtl, natSimple, List.foldl, netItems, evalNE, foldl_keep,
      foldl_add, sum_map_one', length_sortById]
  · rw [runNet_nat]
    have hg : ∀ (n v : Nat), (if 0 < n then v + n else v) = v + n := by
      intro n v; split <;> omega
    simp [inputSeg, s0, s1, s2, nat3, nat2, nat1, natCtl, natSimple, List.foldl, netItems, evalNE, evalC, hg,
      foldl_add2, sum_sortById]

/-! ## the printed lines -/

theorem exec3_addS_info (env : Env) (es : List SE) (st : St) :
    (exec3 env (s0 (.addS "info" es)) st).strs "info" = st.strs "info" ++ (evalCat env st es).1 := by
  simp [exec3, exec2, exec1, execCtl, s0, execSimple, setStr_strs]

/-- **the cells line**: after the population loop, `summary()` appends
    `*   <Σ get_size()> cells in <number of populations> populations `, the population lines, and `*` -/
theorem c19s_cells_line (net : NetD) (st : St) :
    (runNet (popSeg ++ [cellsLine]) net st).strs "info" =
      st.strs "info" ++ ("*   " ++ (toString ((net.list "populations").map Item.size).sum ++ (" cells in " ++
        (toString (net.list "populations").length ++ (" populations \n" ++
          ((runNet popSeg net st).strs "pop_info" ++ ("*\n" ++ ""))))))) := by
  rw [runNet_append]
  have hc := c19s_pop_counters net st
  have hf : (runNet popSeg net st).strs "info" = st.strs "info" := runNet_frame "info" popSeg net st (by decide)
  simp only [runNet, runList, List.foldl, cellsLine]
  rw [exec3_addS_info]
  simp only [evalCat, evalSE]
  rw [show (List.foldl (fun st a => exec3 ⟨net, Option.none, Option.none⟩ a st) st popSeg) = runNet popSeg net st from rfl,
    hf, hc.1, hc.2]

/-- **the connections line** -/
theorem c19s_conns_line (net : NetD) (st : St) :
    (runNet (projSeg ++ [connsLine]) net st).strs "info" =
      st.strs "info" ++ ("*   " ++ (toString (((net.list "projections").map chemConns).sum +
        ((net.list "electrical_projections").map elecConns).sum +
        ((net.list "continuous_projections").map contConns).sum) ++ (" connections in " ++
        (toString ((net.list "projections").length + (net.list "electrical_projections").length +
          (net.list "continuous_projections").length) ++ (" projections \n" ++
          ((runNet projSeg net st).strs "proj_info" ++ ("*\n" ++ ""))))))) := by
  rw [runNet_append]
  have hc := c19s_proj_counters net st
  have hf : (runNet projSeg net st).strs "info" = st.strs "info" := runNet_frame "info" projSeg net st (by decide)
  simp only [runNet, runList, List.foldl, connsLine]
  rw [exec3_addS_info]
  simp only [evalCat, evalSE]
  rw [show (List.foldl (fun st a => exec3 ⟨net, Option.none, Option.none⟩ a st) st projSeg) = runNet projSeg net st from rfl,
    hf, hc.1, hc.2]

/-- **the inputs line** -/
theorem c19s_inputs_line (net : NetD) (st : St) :
    (runNet (inputSeg ++ [inputsLine]) net st).strs "info" =
      st.strs "info" ++ ("*   " ++ (toString ((net.list "input_lists").map
        (fun l => (l.sub "input").n + (l.sub "input_ws").n)).sum ++ (" inputs in " ++
        (toString (net.list "input_lists").length ++ (" input lists \n" ++
          ((runNet inputSeg net st).strs "input_info" ++ ("*\n" ++ ""))))))) := by
  rw [runNet_append]
  have hc := c19s_input_counters net st
  have hf : (runNet inputSeg net st).strs "info" = st.strs "info" := runNet_frame "info" inputSeg net st (by decide)
  simp only [runNet, runList, List.foldl, inputsLine]
  rw [exec3_addS_info]
  simp only [evalCat, evalSE]
  rw [show (List.foldl (fun st a => exec3 ⟨net, Option.none, Option.none⟩ a st) st inputSeg) = runNet inputSeg net st from rfl,
    hf, hc.1, hc.2]

/-- the whole body is these segments in this order (so each total line is printed right after its loops, for every
    network separately: the counters are reset at the start of each segment) -/
theorem netProg_segments :
    netProg = headSeg ++ (popSeg ++ [cellsLine]) ++ (projSeg ++ [connsLine]) ++ synSeg ++ (inputSeg ++ [inputsLine]) ++
      xinSeg := by
  simp [netProg]

/-- `summary()` runs the body once per network, in document order -/
theorem summaryText_nets (d : DocD) :
    summaryText netProg d =
      (match (d.nets.foldl (fun st net => runNet netProg net st) ((initSt (headerText d).1).note (headerText d).2)).err with
       | some e => .error e
       | Option.none => .ok ((d.nets.foldl (fun st net => runNet netProg net st)
           ((initSt (headerText d).1).note (headerText d).2)).strs "info" ++ banner)) := rfl

/-! ## `get_size` as `summary()` uses it, for the three kinds of population -/

/-- the `size` attribute as a Python value -/
def Item.sizeVal (it : Item) : Val Rat :=
  match it.sizeAttr with
  | some i => .int i
  | Option.none => .none

/-- the attribute dictionary `get_size` reads -/
def Item.popObj (it : Item) : Obj Rat := fun name =>
  if name = "instances" then some (.objs (it.sub "instances").n)
  else if name = "size" then some it.sizeVal
  else Option.none

theorem item_size_eq (it : Item) : it.size = (match getSize RatSem it.popObj with
    | .ok (.int i) => i.toNat
    | _ => 0) := rfl

/-- a population that lists instances counts them (whatever `size` says) -/
theorem item_size_instances (it : Item) (h : 0 < (it.sub "instances").n) : it.size = (it.sub "instances").n := by
  have := (c19_get_size RatSem it.popObj (it.sub "instances").n it.sizeVal (by simp [Item.popObj])
    (by simp [Item.popObj])).1 h
  rw [item_size_eq, this]
  simp

/-- a population without instances counts its declared size; without either, nothing -/
theorem item_size_declared (it : Item) (h : (it.sub "instances").n = 0) :
    (∀ k : Nat, it.sizeAttr = some (k : Int) → it.size = k) ∧ (it.sizeAttr = Option.none → it.size = 0) := by
  have key := c19_get_size RatSem it.popObj (it.sub "instances").n it.sizeVal (by simp [Item.popObj])
    (by simp [Item.popObj])
  constructor
  · intro k hk
    have := key.2.1 h k (by simp [Item.sizeVal, hk])
    rw [item_size_eq, this]
    simp
  · intro hk
    have := key.2.2 h (by simp [Item.sizeVal, hk])
    rw [item_size_eq, this]
    simp

/-! ## non-vacuity: a network with mixed lists -/

def exLeaf : Leaf := ⟨"x", [], []⟩
def exNet : NetD :=
  ⟨[("id", some "net"), ("temperature", Option.none)],
   [("populations", [⟨"Population", "", [("id", some "b"), ("component", some "c")], some 5, [("instances", ⟨0, []⟩)]⟩,
                     ⟨"Population", "", [("id", some "a"), ("component", some "c")], some 9, [("instances", ⟨3, [exLeaf]⟩)]⟩]),
    ("input_lists", [⟨"InputList", "il", [("id", some "i")], Option.none, [("input", ⟨2, [exLeaf]⟩), ("input_ws", ⟨1, [exLeaf]⟩)]⟩])]⟩

example : (runNet popSeg exNet (initSt "")).nats "tot_cells" = 8 := by
  rw [(c19s_pop_counters exNet (initSt "")).2]; decide
example : (runNet inputSeg exNet (initSt "")).nats "tot_inputs" = 3 := by
  rw [(c19s_input_counters exNet (initSt "")).2]; decide


end NmlVerif.Acc.Summ
