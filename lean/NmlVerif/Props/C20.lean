import NmlVerif.Proofs.Regen
import NmlVerif.Gen.Regen
/-!
# C20 — the shipped bindings are what regeneration from the sources would produce

`T` is the table `translators/helpers_extract.py` regenerates from the library's working tree on every check
(`lean/NmlVerif/Gen/Regen.lean`): for every `MethodSpec` of `helper_methods.py` its `class_names` and the
(name, normalised-AST digest) of each class-body statement of its source; for every binding class of `nml.py`
the (name, digest) of its user statements (everything after `_buildChildren`) in source order; the complex
types of `NeuroML_<current_neuroml_version>.xsd`; the version / command-line strings.

Scope, honestly: the kernel checks finite comparisons over that table (`decide +kernel`). Their substance — that a
digest stands for a normalised statement — is in the translator, which is validated (harness self-tests, a
bytecode-level oracle on the imported library) but not verified. The lifting theorems below are generic (any
source type, any tables): they say what the finite comparison means, and are what makes it more than a test.
-/
namespace NmlVerif.C20
open NmlVerif.Regen

abbrev T : Tables := NmlVerif.Gen.Regen.tables

/-! ## statements (for any table) -/

/-- every binding class carries exactly the statements of the specs that name it, in METHOD_SPECS order
    (order-sensitive on purpose: generateDS writes the matching specs in tuple order and a later `def` of the
    same name overrides an earlier one — `ConnectionWD.__str__`, `ExplicitInput.get_target_cell_id` — so a
    permutation can change behaviour) -/
abbrev MethodsAgree (T : Tables) : Prop := ∀ c ∈ T.shipped, c.2 = regenerated T.specs c.1

/-- the per-class table has one row per binding class, in file order -/
abbrev ShippedCoversClasses (T : Tables) : Prop := T.shipped.map (·.1) = T.classes

/-- a spec never names a class that does not exist (its helper would silently not be shipped) -/
abbrev SpecTargetsExist (T : Tables) : Prop := ∀ s ∈ T.specs, ∀ c ∈ s.classNames.named, c ∈ T.classes

/-- binding classes ↔ complex types: no duplicates, both inclusions -/
abbrev TypesCorrespond (T : Tables) : Prop :=
  T.classes.Nodup ∧ T.complexTypes.Nodup ∧ (∀ x ∈ T.classes, x ∈ T.complexTypes) ∧
    (∀ x ∈ T.complexTypes, x ∈ T.classes)

/-- the remaining top-level classes are generateDS's support classes and one `Enum` per enumerated simple type -/
abbrev OtherClassesAccounted (T : Tables) : Prop :=
  T.otherClasses.Nodup ∧ (∀ x ∈ T.otherClasses, x ∈ T.supportClasses ∨ x ∈ T.enumTypes) ∧
    (∀ x ∈ T.enumTypes, x ∈ T.otherClasses) ∧ (∀ x ∈ T.otherClasses, x ∉ T.classes)

/-- the imports the helper methods can rely on: nml.py's module-level imports (beyond generateDS's own) are
    exactly those of the custom imports template that regeneration pastes in (an import added on one side only
    makes a helper fail after the next regeneration, or is dead weight) -/
abbrev ImportsAgree (T : Tables) : Prop :=
  (∀ x ∈ T.shippedImports, x ∈ T.templateImports) ∧ (∀ x ∈ T.templateImports, x ∈ T.shippedImports)

/-- the declared current version selects (through regenerate-nml.sh's own pipeline and template) the schema
    named in the bindings' header, which is bundled, is the one the complex types were read from, and is the
    one the writer's schemaLocation names -/
abbrev VersionsAgree (V : Versions) : Prop :=
  V.scriptVersion = V.current ∧
  V.scriptPre ++ V.scriptVersion ++ V.scriptPost = V.headerXsd ∧
  V.writerPre ++ V.current ++ V.writerPost = V.headerXsd ∧
  V.headerCmdXsd = V.headerXsd ∧
  V.xsdRead = V.headerXsd ∧
  V.headerXsd ∈ V.bundled

/-- the generateDS options recorded in the header (twice) are the ones regenerate-nml.sh uses, and the
    user-methods file they name is the one the specs were read from -/
abbrev CmdlineAgrees (V : Versions) : Prop :=
  V.headerCmdOptions = V.headerOptions ∧ V.scriptOptions = V.headerOptions ∧
    ("--user-methods", V.helperFile) ∈ V.headerOptions

/-! ## the extracted table satisfies them (finite, kernel-checked) -/

theorem c20_methods : MethodsAgree T := by decide +kernel

theorem c20_shipped_classes : ShippedCoversClasses T := by decide +kernel

theorem c20_spec_targets : SpecTargetsExist T := by decide +kernel

/-- kernel-checked with the structural Boolean checks of `Proofs/Regen.lean` (their soundness is proved there) -/
theorem c20_types : TypesCorrespond T :=
  ⟨nodupB_sound _ (by decide +kernel), nodupB_sound _ (by decide +kernel),
   subsetB_sound _ _ (by decide +kernel), subsetB_sound _ _ (by decide +kernel)⟩

theorem c20_other_classes : OtherClassesAccounted T := by decide +kernel

theorem c20_imports : ImportsAgree T := by decide +kernel

theorem c20_version : VersionsAgree T.versions := by decide +kernel

theorem c20_cmdline : CmdlineAgrees T.versions := by decide +kernel

/-! ## what the finite comparisons mean -/

/-- for every binding class: the shipped user statements are exactly (digest-wise, in order) what
    `(specs.filter (insertionRule · cls)).flatMap items` yields — `c20_methods` re-indexed by class -/
theorem c20_methods_by_class : ∀ cls ∈ T.classes, ∃ c ∈ T.shipped, c.1 = cls ∧
    c.2 = (T.specs.filter (insertionRule · cls)).flatMap (·.items) := by
  intro cls hcls
  rw [← c20_shipped_classes] at hcls
  obtain ⟨c, hc, rfl⟩ := List.mem_map.mp hcls
  exact ⟨c, hc, rfl, c20_methods c hc⟩

/-- "inserted in exactly the classes that source names": a user statement sits in a binding class iff some
    spec that names the class (string equality / list membership, `match_name`) contains it -/
theorem c20_inserted_exactly : ∀ c ∈ T.shipped, ∀ it,
    it ∈ c.2 ↔ ∃ spec ∈ T.specs, c.1 ∈ spec.classNames.named ∧ it ∈ spec.items := by
  intro c hc it
  rw [c20_methods c hc]
  exact mem_regenerated T.specs c.1 it

/-- binding classes and complex types are in one-to-one correspondence -/
theorem c20_types_perm : T.classes.Perm T.complexTypes :=
  perm_of_nodup_mutual c20_types.1 c20_types.2.1 c20_types.2.2.1 c20_types.2.2.2

theorem c20_types_count : T.classes.length = T.complexTypes.length := c20_types_perm.length_eq

/-- **Regeneration is the identity (lifted).** Take ANY type `σ` of normalised statements with ANY
    collision-free `key` (name, digest), ANY spec sources and class bodies whose translator view is the
    extracted table. Then regenerating every binding class — keeping the schema-driven part, replacing the
    user part by what generateDS writes from the specs — returns the class body unchanged. -/
theorem c20_regeneration_identity {σ : Type} (key : σ → Item Nat)
    (specsS : List (SpecS Nat σ)) (bodies : Nat → ClassBody σ)
    (hspecs : specsS.map (SpecS.abstract key) = T.specs)
    (hship : ∀ c ∈ T.shipped, (bodies c.1).user.map key = c.2)
    (hinj : ∀ a b, key a = key b → a = b) :
    ∀ cls ∈ T.classes, regenClass specsS cls (bodies cls) = bodies cls := by
  intro cls hcls
  obtain ⟨c, hc, rfl, _⟩ := c20_methods_by_class cls hcls
  apply regenClass_id key
  · rw [hship c hc, hspecs]; exact c20_methods c hc
  · intro x _ y _ h; exact hinj x y h

/-- the hypotheses are satisfiable: the table itself, read as sources (`σ := Item Nat`, `key := id`) -/
def selfSpecs : List (SpecS Nat (Item Nat)) := T.specs.map (fun s => ⟨s.name, s.classNames, s.items⟩)
def selfBodies (cls : Nat) : ClassBody (Item Nat) := ⟨[], ((T.shipped.find? (·.1 == cls)).map (·.2)).getD []⟩

example : selfSpecs.map (SpecS.abstract id) = T.specs := by decide +kernel
example : ∀ c ∈ T.shipped, (selfBodies c.1).user.map id = c.2 := by decide +kernel
example : ∀ cls ∈ T.classes, regenClass selfSpecs cls (selfBodies cls) = selfBodies cls :=
  c20_regeneration_identity id selfSpecs selfBodies (by decide +kernel) (by decide +kernel) (fun _ _ h => h)
/-- non-trivial: some class has user statements, some spec is inserted into two classes -/
example : ∃ c ∈ T.shipped, 2 ≤ c.2.length := by decide +kernel
example : ∃ s ∈ T.specs, 2 ≤ s.classNames.named.length := by decide +kernel

/-- **A one-sided change is detected (any tables).** If, for some class, the shipped user part differs from
    what the spec sources yield (an edit in `nml.py` only, or in `helper_methods.py` only, a method added,
    dropped or reordered on one side) and digests are collision-free on the statements involved, then the
    table comparison `c20_methods` checks for that class is false — the build of this file fails. -/
theorem c20_one_sided_change_detected {σ : Type} (key : σ → Item Nat) (specsS : List (SpecS Nat σ)) (cls : Nat)
    (shipped : List σ)
    (hinj : ∀ a ∈ shipped, ∀ b ∈ regenS specsS cls, key a = key b → a = b)
    (hne : shipped ≠ regenS specsS cls) :
    shipped.map key ≠ regenerated (specsS.map (SpecS.abstract key)) cls :=
  table_complete key specsS cls shipped hinj hne

/-- satisfiable, concretely: one spec for class 7 with body [⟨1,10⟩]; shipped copy edited to digest 11 -/
example : ([⟨1, 11⟩] : List (Item Nat)).map id
    ≠ regenerated ([(⟨0, .str 7, [⟨1, 10⟩]⟩ : SpecS Nat (Item Nat))].map (SpecS.abstract id)) 7 :=
  c20_one_sided_change_detected id _ 7 _ (by decide) (by decide)

/-- the insertion rule is `match_name`: equality with a string, membership of a list, nothing else -/
theorem c20_insertion_rule {α : Type} [DecidableEq α] (spec : Spec α) (cls : α) :
    insertionRule spec cls = true ↔
      (spec.classNames = .str cls ∨ ∃ l, spec.classNames = .list l ∧ cls ∈ l) := by
  unfold insertionRule matchName
  cases h : spec.classNames with
  | str s => simp [eq_comm]
  | list l => simp
  | other => simp

/-- bug-for-bug: a tuple (or any non-list, non-string) never matches, and a string is not searched for substrings -/
example : insertionRule (⟨"x", .other, []⟩ : Spec String) "Cell" = false := by decide
example : insertionRule (⟨"x", .str "ConnectionWD", []⟩ : Spec String) "Connection" = false := by decide
example : insertionRule (⟨"x", .list ["Connection", "ConnectionWD"], []⟩ : Spec String) "ConnectionWD" = true := by
  decide

end NmlVerif.C20
