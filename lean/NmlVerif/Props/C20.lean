import NmlVerif.Proofs.Regen
/-!
# C20 — the shipped bindings are what regeneration from the sources would produce

Statements (for ANY table) and the generic theorems that say what the finite comparisons mean. Nothing here depends
on the extracted tables, so this module builds whatever the tree under test looks like; the table-dependent
obligations live in `Props/C20Methods`, `C20Types`, `C20Version`, `C20Regen`, `C20RegenUser`, `C20Finding` and in the
generated per-class modules `Gen/C20Pairs/*` — one failing comparison breaks only its own module (second pass).

Scope, honestly: the kernel checks finite comparisons over tables (`decide +kernel`). Their substance — that a
digest stands for a normalised statement — is in the translators, which are validated (harness self-tests, a
bytecode-level oracle on the imported library, the real generateDS run) but not verified. The lifting theorems below
are generic (any source type, any tables): they say what the finite comparison means, and are what makes it more than
a test.
-/
namespace NmlVerif.C20
open NmlVerif.Regen

/-! ## statements (for any table) -/

/-- every binding class carries exactly the statements of the specs that name it, in METHOD_SPECS order
    (order-sensitive on purpose: generateDS writes the matching specs in tuple order and a later `def` of the
    same name overrides an earlier one — `ConnectionWD.__str__`, `ExplicitInput.get_target_cell_id` — so a
    permutation can change behaviour) -/
abbrev MethodsAgree (T : Tables) : Prop := ∀ c ∈ T.shipped, c.2 = regenerated T.specs c.1

/-- the same for ONE class (the per-class obligations of `Gen/C20Pairs/*`) -/
abbrev ClassHelpersAgree (T : Tables) (cls : Nat) : Prop :=
  ∀ c ∈ T.shipped, c.1 = cls → c.2 = regenerated T.specs cls

/-- … and for all classes but the listed ones -/
abbrev OtherClassesHelpersAgree (T : Tables) (listed : List Nat) : Prop :=
  ∀ c ∈ T.shipped, c.1 ∉ listed → c.2 = regenerated T.specs c.1

/-- the per-class table has one row per binding class, in file order -/
abbrev ShippedCoversClasses (T : Tables) : Prop := T.shipped.map (·.1) = T.classes

/-- a spec never names a class that does not exist (its helper would silently not be shipped) -/
abbrev SpecTargetsExist (T : Tables) : Prop := ∀ s ∈ T.specs, ∀ c ∈ s.classNames.named, c ∈ T.classes

/-- `%(class_name)s` rows are only recorded for classes the spec names -/
abbrev PerClassRowsNamed (T : Tables) : Prop := ∀ s ∈ T.specs, ∀ p ∈ s.perClass, p.1 ∈ s.classNames.named

/-- binding classes ↔ complex types: no duplicates, both inclusions -/
abbrev TypesCorrespond (T : Tables) : Prop :=
  T.classes.Nodup ∧ T.complexTypes.Nodup ∧ (∀ x ∈ T.classes, x ∈ T.complexTypes) ∧
    (∀ x ∈ T.complexTypes, x ∈ T.classes)

/-- second pass: the correspondence also carries the derivation: the Python base class list of every binding
    class is `[extension base of its complexType]`, or `[GeneratedsSuper]` when the type extends nothing -/
abbrev BasesCorrespond (T : Tables) : Prop :=
  T.classBases.map (·.1) = T.classes ∧ T.xsdBases.map (·.1) = T.complexTypes ∧
  ∀ cb ∈ T.classBases, ∃ xb ∈ T.xsdBases, xb.1 = cb.1 ∧ cb.2 = expectedBases T.rootBase xb.2

/-- the remaining top-level classes are generateDS's support classes and one `Enum` per enumerated simple type -/
abbrev OtherClassesAccounted (T : Tables) : Prop :=
  T.otherClasses.Nodup ∧ (∀ x ∈ T.otherClasses, x ∈ T.supportClasses ∨ x ∈ T.enumTypes) ∧
    (∀ x ∈ T.enumTypes, x ∈ T.otherClasses) ∧ (∀ x ∈ T.otherClasses, x ∉ T.classes)

/-- the imports the helper methods can rely on: nml.py's module-level imports (beyond generateDS's own) are
    exactly those of the custom imports template that regeneration pastes in (an import added on one side only
    makes a helper fail after the next regeneration, or is dead weight) -/
abbrev ImportsAgree (T : Tables) : Prop :=
  (∀ x ∈ T.shippedImports, x ∈ T.templateImports) ∧ (∀ x ∈ T.templateImports, x ∈ T.shippedImports)

/-- the declared current version selects (through regenerate-nml.sh's own pipeline and template) the schema
    named in the bindings' header, which is bundled, is the one the complex types were read from, and is the
    one the writer's schemaLocation names -/
abbrev VersionsAgree (V : Versions) : Prop :=
  V.scriptVersion = V.current ∧
  V.scriptPre ++ V.scriptVersion ++ V.scriptPost = V.headerXsd ∧
  V.writerPre ++ V.current ++ V.writerPost = V.headerXsd ∧
  V.headerCmdXsd = V.headerXsd ∧
  V.xsdRead = V.headerXsd ∧
  V.headerXsd ∈ V.bundled

/-- the generateDS options recorded in the header (twice) are the ones regenerate-nml.sh uses, and the
    user-methods file they name is the one the specs were read from -/
abbrev CmdlineAgrees (V : Versions) : Prop :=
  V.headerCmdOptions = V.headerOptions ∧ V.scriptOptions = V.headerOptions ∧
    ("--user-methods", V.helperFile) ∈ V.headerOptions

/-- second pass, FULL statement: every occurrence of a schema file name / version in the package's code denotes
    the schema named in the bindings' header (false today: `config.py` — see `Props/C20Finding.lean`) -/
def OccurrencesAgree_full (T : Tables) : Prop := ∀ o ∈ T.occurrences, o.schemaFile = T.versions.headerXsd

/-- … restricted to the occurrences that select / name the schema of the bindings and of written files -/
abbrev OccurrencesAgree_partial (T : Tables) : Prop :=
  ∀ o ∈ T.occurrences, o.role = .schema → o.schemaFile = T.versions.headerXsd

/-! ## what the finite comparisons mean (generic) -/

/-- **A one-sided change is detected (any tables).** If, for some class, the shipped user part differs from
    what the spec sources yield (an edit in `nml.py` only, or in `helper_methods.py` only, a method added,
    dropped or reordered on one side) and digests are collision-free on the statements involved, then the
    table comparison `c20_methods` checks for that class is false — the build of its module fails. -/
theorem c20_one_sided_change_detected {σ : Type} (key : σ → Item Nat) (specsS : List (SpecS Nat σ))
    (specs : List (Spec Nat)) (cls : Nat) (shipped : List σ)
    (habs : AllAbstract key specsS specs)
    (hinj : ∀ a ∈ shipped, ∀ b ∈ regenS specsS cls, key a = key b → a = b)
    (hne : shipped ≠ regenS specsS cls) :
    shipped.map key ≠ regenerated specs cls :=
  table_complete key specsS specs cls shipped habs hinj hne

/-- satisfiable, concretely: one spec for class 7 with body [⟨1,10⟩]; shipped copy edited to digest 11 -/
example : ([⟨1, 11⟩] : List (Item Nat)).map id ≠ regenerated [(⟨0, .str 7, [⟨1, 10⟩], []⟩ : Spec Nat)] 7 :=
  c20_one_sided_change_detected id _ _ 7 _ (abstracts_asSource _) (by decide) (by decide)

/-- the insertion rule is `match_name`: equality with a string, membership of a list, nothing else -/
theorem c20_insertion_rule {α : Type} [DecidableEq α] (spec : Spec α) (cls : α) :
    insertionRule spec cls = true ↔
      (spec.classNames = .str cls ∨ ∃ l, spec.classNames = .list l ∧ cls ∈ l) := by
  unfold insertionRule matchName
  cases h : spec.classNames with
  | str s => simp [eq_comm]
  | list l => simp
  | other => simp

/-- bug-for-bug: a tuple (or any non-list, non-string) never matches, and a string is not searched for substrings -/
example : insertionRule (⟨"x", .other, [], []⟩ : Spec String) "Cell" = false := by decide
example : insertionRule (⟨"x", .str "ConnectionWD", [], []⟩ : Spec String) "Connection" = false := by decide
example : insertionRule (⟨"x", .list ["Connection", "ConnectionWD"], [], []⟩ : Spec String) "ConnectionWD" = true := by
  decide

/-- **`%(class_name)s` interpolation (second pass).** What is pasted into class `cls` is the source interpolated FOR
    `cls`: the per-class row when the translator recorded one, the class-independent statements otherwise. -/
theorem c20_interpolation {α : Type} [DecidableEq α] (s : Spec α) (cls : α) :
    (∀ p ∈ s.perClass, p.1 ≠ cls) → s.itemsFor cls = s.items := by
  intro h
  unfold Spec.itemsFor
  have : s.perClass.find? (fun p => decide (p.1 = cls)) = none := by
    apply List.find?_eq_none.mpr
    intro p hp
    simpa using h p hp
  rw [this]

/-- a source that mentions `%(class_name)s` gives two classes two different statement lists (model of
    `__str__` returning the class name): class 1 and class 2 get different digests from ONE spec -/
example : regenerated [(⟨0, .list [1, 2], [⟨5, 100⟩], [(1, [⟨5, 101⟩]), (2, [⟨5, 102⟩])]⟩ : Spec Nat)] 1 = [⟨5, 101⟩]
    ∧ regenerated [(⟨0, .list [1, 2], [⟨5, 100⟩], [(1, [⟨5, 101⟩]), (2, [⟨5, 102⟩])]⟩ : Spec Nat)] 2 = [⟨5, 102⟩] := by
  decide

/-- **whole-file lifting (second pass).** Take ANY statement type with a collision-free (name, digest) key. If the
    (name, digest) view of a shipped class body equals that of the freshly regenerated class body, the two bodies
    are the same statement lists: re-running the regeneration changes no statement of the class. -/
theorem c20_body_identity {σ : Type} (key : σ → Item Nat) (shipped regen : List σ)
    (h : shipped.map key = regen.map key) (hinj : ∀ a b, key a = key b → a = b) : shipped = regen :=
  body_eq_of_rows key shipped regen h (fun a _ b _ hab => hinj a b hab)

example : ([⟨1, 10⟩, ⟨2, 20⟩] : List (Item Nat)) = [⟨1, 10⟩, ⟨2, 20⟩] :=
  c20_body_identity id _ _ rfl (fun _ _ h => h)

/-- a class body is its schema-driven part followed by its user part -/
theorem c20_body_split (boundary : Nat) (ms : List (Item Nat)) :
    generatedPart boundary ms ++ userPart boundary ms = ms := generatedPart_append_userPart boundary ms

end NmlVerif.C20
