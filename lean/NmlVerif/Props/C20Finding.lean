import NmlVerif.Props.C20
import NmlVerif.Gen.Regen
/-!
# C20 — open finding `C20:version:occurrence-differs:neuroml/nml/config.py` (second pass)

`neuroml/nml/config.py` still says `schema_name: NeuroML_v2.2.xsd`: `generateds_config.py` derives the NameTable
(member naming) from the v2.2 schema although the bindings are generated from the current one. Regeneration
reproduces this (so the rest of C20 holds), but the full statement "every occurrence names the current schema" is
false. `OccurrencesAgree_full` is the full statement, `c20_occurrences_partial` (`Props/C20Version.lean`) the
strongest true restriction, this is the witness. (When `config.py` is brought up to date this theorem stops
building: remove the finding then.)
-/
namespace NmlVerif.C20
open NmlVerif.Regen

theorem c20_occurrences_witness : ¬ OccurrencesAgree_full NmlVerif.Gen.Regen.tables := by
  unfold OccurrencesAgree_full
  decide +kernel

end NmlVerif.C20
