import NmlVerif.Props.C20
import NmlVerif.Gen.Regen
import NmlVerif.Props.C20Specs
/-!
# C20, clause 1 — every helper method in the shipped bindings is, statement for statement, the one of the helper
source, inserted in exactly the classes that source names (table `Gen/Regen.lean`, rewritten on every check).
The same comparison, one class per module, is in the generated `Gen/C20Pairs/*` (so that a one-sided edit breaks
exactly the obligation of its class — and this module's summary theorems).
-/
namespace NmlVerif.C20
open NmlVerif.Regen

theorem c20_methods : MethodsAgree T := by decide +kernel

/-- for every binding class: the shipped user statements are exactly (digest-wise, in order) what
    `(specs.filter (insertionRule · cls)).flatMap (itemsFor cls)` yields — `c20_methods` re-indexed by class -/
theorem c20_methods_by_class : ∀ cls ∈ T.classes, ∃ c ∈ T.shipped, c.1 = cls ∧
    c.2 = (T.specs.filter (insertionRule · cls)).flatMap (·.itemsFor cls) := by
  intro cls hcls
  rw [← c20_shipped_classes] at hcls
  obtain ⟨c, hc, rfl⟩ := List.mem_map.mp hcls
  exact ⟨c, hc, rfl, c20_methods c hc⟩

/-- "inserted in exactly the classes that source names": a user statement sits in a binding class iff some
    spec that names the class (string equality / list membership, `match_name`) contains it in its source as
    interpolated for that class -/
theorem c20_inserted_exactly : ∀ c ∈ T.shipped, ∀ it,
    it ∈ c.2 ↔ ∃ spec ∈ T.specs, c.1 ∈ spec.classNames.named ∧ it ∈ spec.itemsFor c.1 := by
  intro c hc it
  rw [c20_methods c hc]
  exact mem_regenerated T.specs c.1 it

/-- **Regeneration is the identity on the user part (lifted).** Take ANY type `σ` of normalised statements with ANY
    collision-free `key` (name, digest), ANY spec sources (functions of the class name: `%(class_name)s`) and class
    bodies whose translator view is the extracted table. Then regenerating every binding class — keeping the
    schema-driven part, replacing the user part by what generateDS writes from the specs — returns the class body
    unchanged. (That the schema-driven part is also reproduced is `c20_regen_classes`, `Props/C20Regen.lean`.) -/
theorem c20_regeneration_identity {σ : Type} (key : σ → Item Nat)
    (specsS : List (SpecS Nat σ)) (bodies : Nat → ClassBody σ)
    (hspecs : AllAbstract key specsS T.specs)
    (hship : ∀ c ∈ T.shipped, (bodies c.1).user.map key = c.2)
    (hinj : ∀ a b, key a = key b → a = b) :
    ∀ cls ∈ T.classes, regenClass specsS cls (bodies cls) = bodies cls := by
  intro cls hcls
  obtain ⟨c, hc, rfl, _⟩ := c20_methods_by_class cls hcls
  apply regenClass_id key specsS T.specs c.1 (bodies c.1) hspecs
  · rw [hship c hc]; exact c20_methods c hc
  · intro x _ y _ h; exact hinj x y h

/-- the hypotheses are satisfiable: the table itself, read as sources (`σ := Item Nat`, `key := id`) -/
def selfSpecs : List (SpecS Nat (Item Nat)) := T.specs.map Spec.asSource
def selfBodies (cls : Nat) : ClassBody (Item Nat) := ⟨[], ((T.shipped.find? (·.1 == cls)).map (·.2)).getD []⟩

example : AllAbstract id selfSpecs T.specs := abstracts_asSource T.specs
example : ∀ c ∈ T.shipped, (selfBodies c.1).user.map id = c.2 := by decide +kernel
example : ∀ cls ∈ T.classes, regenClass selfSpecs cls (selfBodies cls) = selfBodies cls :=
  c20_regeneration_identity id selfSpecs selfBodies (abstracts_asSource T.specs) (by decide +kernel) (fun _ _ h => h)
/-- non-trivial: some class has user statements, some spec is inserted into two classes -/
example : ∃ c ∈ T.shipped, 2 ≤ c.2.length := by decide +kernel
example : ∃ s ∈ T.specs, 2 ≤ s.classNames.named.length := by decide +kernel

end NmlVerif.C20
