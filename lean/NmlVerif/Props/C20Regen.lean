import NmlVerif.Props.C20
import NmlVerif.Gen.RegenFresh
import NmlVerif.Gen.RegenShipped
import NmlVerif.Props.C20RegenModule
/-!
# C20 (second pass) — the regeneration is actually re-run, and the WHOLE file is compared

`R` is the table of the file that the library's own `regenerate-nml.sh -a` produces now (run unmodified in a scratch
copy of the package by `translators/regen_run.py`: generateDS with `generateds_config.py`, `helper_methods.py`, the
imports template and the XSD the script's pipeline selects; the sed steps; `annotate_nml`; `ruff format`), `S` the
table of the shipped `neuroml/nml/nml.py`: every top-level class with its bases and EVERY class-body statement
(name, normalised-AST digest) in order — the schema-driven methods `__init__`, `export`, `validate_*`, `build…` as
well as the helper methods —, every other module-level statement in order, the imports sorted.
-/
namespace NmlVerif.C20
open NmlVerif.Regen

/-- every class of the shipped bindings — name, bases, every statement of its body, in order — is the class the
    regeneration produces: a hand edit of a generated method (`export`, `__init__`, `validate_…`), a method pasted
    anywhere in a class body, a changed base class, a dropped or extra class are all excluded -/
theorem c20_regen_classes : R.classes = S.classes := by decide +kernel

/-- **the shipped bindings are what regeneration produces** (modulo formatting, comments, doc strings of functions,
    import order, and the generateDS version drift N1 — see `regen_run.py`) -/
theorem c20_regen_file : R = S := by
  have h1 := c20_regen_classes
  have h2 := c20_regen_module
  have h3 := c20_regen_imports
  revert h1 h2 h3
  cases R; cases S
  simp only [FileTable.mk.injEq]
  intro h1 h2 h3
  exact ⟨h1, h2, h3⟩

/-- **every method of every class is accounted for**: each statement of each shipped class body is a statement
    the regeneration writes into the class of that name (so nothing pasted into `nml.py` — whatever its name and
    wherever in the class body — survives unnoticed) … -/
theorem c20_every_member_accounted :
    ∀ row ∈ S.classes, ∀ m ∈ row.members, ∃ r ∈ R.classes, r.name = row.name ∧ r.bases = row.bases ∧ m ∈ r.members := by
  intro row hrow m hm
  rw [← c20_regen_classes] at hrow
  exact ⟨row, hrow, rfl, rfl, hm⟩

/-- … and nothing the regeneration writes is missing from the shipped file -/
theorem c20_nothing_missing :
    ∀ r ∈ R.classes, ∀ m ∈ r.members, ∃ row ∈ S.classes, row.name = r.name ∧ m ∈ row.members := by
  intro r hr m hm
  rw [c20_regen_classes] at hr
  exact ⟨r, hr, rfl, hm⟩

/-- **(class, complexType) pairs correspond member for member**: the `member_data_items_` statement of every class —
    the MemberSpec table generateDS derives from the complexType: member names, data types, single/list, required/
    optional, `use`/`minOccurs`/`maxOccurs`, choice — is the one the bundled schema yields NOW (`item` = the interned
    name of `<assign member_data_items_>`, or of any other class-level statement). A schema refreshed without
    regenerating the bindings (seeded C20-4: `use="required"` dropped from `Input/@destination`) makes this false. -/
theorem c20_member_tables_agree (item : Nat) :
    R.classes.map (fun c => (c.name, c.bases, c.members.filter (fun m => m.name == item)))
      = S.classes.map (fun c => (c.name, c.bases, c.members.filter (fun m => m.name == item))) := by
  rw [c20_regen_classes]

/-- in particular the schema-driven part of every class (up to `_buildChildren`) is reproduced, and so is the user part -/
theorem c20_generated_part_regenerable (boundary : Nat) :
    R.classes.map (fun c => (c.name, generatedPart boundary c.members))
      = S.classes.map (fun c => (c.name, generatedPart boundary c.members)) := by
  rw [c20_regen_classes]

theorem c20_user_part_regenerable (boundary : Nat) : userRows boundary R.classes = userRows boundary S.classes :=
  userRows_congr boundary c20_regen_classes

/-- lifted: for ANY statement type with a collision-free key and ANY two files whose class-body views are the two
    tables, every shipped class body IS the regenerated class body, statement for statement -/
theorem c20_whole_file_identity {σ : Type} (key : σ → Item Nat) (shippedBody regenBody : Nat → List σ)
    (hS : ∀ row ∈ S.classes, (shippedBody row.name).map key = row.members)
    (hR : ∀ row ∈ R.classes, (regenBody row.name).map key = row.members)
    (hinj : ∀ a b, key a = key b → a = b) :
    ∀ row ∈ S.classes, shippedBody row.name = regenBody row.name := by
  intro row hrow
  apply c20_body_identity key _ _ _ hinj
  have hrow' := hrow
  rw [← c20_regen_classes] at hrow'
  rw [hS row hrow, hR row hrow']

/-- the hypotheses of `c20_whole_file_identity` are satisfiable (the tables read as files) -/
def selfBody (cs : List ClassRow) (n : Nat) : List (Item Nat) := ((cs.find? (·.name == n)).map (·.members)).getD []

example : ∀ row ∈ S.classes, (selfBody S.classes row.name).map id = row.members := by decide +kernel
example : ∀ row ∈ S.classes, selfBody S.classes row.name = selfBody R.classes row.name :=
  c20_whole_file_identity id (selfBody S.classes) (selfBody R.classes) (by decide +kernel) (by decide +kernel)
    (fun _ _ h => h)
/-- non-trivial: more than 199 classes, more than 3000 compared statements -/
example : 199 < S.classes.length := by decide +kernel
example : 3000 < (S.classes.flatMap (·.members)).length := by decide +kernel

end NmlVerif.C20
