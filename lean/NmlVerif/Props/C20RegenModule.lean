import NmlVerif.Props.C20
import NmlVerif.Gen.RegenFresh
import NmlVerif.Gen.RegenShipped
import NmlVerif.Gen.Regen
/-!
# C20 (second pass) — the module level of the re-run regeneration versus the shipped file: functions, constants, the
order of the classes, the imports (sorted: N2), class names duplicate-free; the generateDS version drift is exactly N1. (The class bodies: `Props/C20Regen.lean`.)
-/
namespace NmlVerif.C20
open NmlVerif.Regen

abbrev R : FileTable := NmlVerif.Gen.RegenFresh.table
abbrev S : FileTable := NmlVerif.Gen.RegenShipped.table
abbrev M : RegenMeta := NmlVerif.Gen.RegenFresh.info

/-- module-level functions, constants and the order of the classes -/
theorem c20_regen_module : R.moduleItems = S.moduleItems := by decide +kernel

theorem c20_regen_imports : R.imports = S.imports := by decide +kernel

/-- the class names are duplicate-free (a row is identified by its name) -/
theorem c20_class_names_nodup : (S.classes.map (·.name)).Nodup := nodupB_sound _ (by decide +kernel)

/-- **version drift, characterised (N1).** When the installed generateDS is the one named in the header nothing was
    normalised; otherwise exactly one statement per class with a schema base class was removed from the regenerated
    side (`<Class>.superclass.validate_(self, gds_collector, recursive)` in `validate_`) — and nothing else:
    `c20_regen_classes` compares everything else verbatim. -/
theorem c20_drift : (M.headerVersion = M.installedVersion → M.driftRemoved = 0) ∧
    (M.headerVersion ≠ M.installedVersion → M.driftRemoved = M.withBase) := by decide +kernel

/-- the classes with a schema base class are exactly those whose complexType extends another one -/
theorem c20_drift_count :
    M.withBase = (NmlVerif.Gen.Regen.tables.xsdBases.filter (fun xb => xb.2.isSome)).length := by decide +kernel

end NmlVerif.C20
