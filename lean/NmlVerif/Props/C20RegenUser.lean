import NmlVerif.Props.C20
import NmlVerif.Gen.Regen
import NmlVerif.Gen.RegenFresh
import NmlVerif.Props.C20RegenModule
/-!
# C20 (second pass) — what the real generateDS run inserts is what the model says; the post-processing steps of
regenerate-nml.sh do nothing to user statements.
-/
namespace NmlVerif.C20
open NmlVerif.Regen

/-- **generateDS's `generateUserMethods` = the model.** In the RAW output of the real generateDS run, the statements
    after `_buildChildren` of EVERY class (212 of them, not only the 199 binding classes) are, in order,
    `(METHOD_SPECS.filter (match_name · cls)).flatMap (interpolated source)` as computed by the Lean model from the
    spec table: the insertion rule, the order, the interpolation and "user methods come last" are all confirmed by
    the kernel on the whole schema, on every run. -/
theorem c20_generateds_inserts_model :
    ∀ c ∈ M.rawUser, c.2 = regenerated NmlVerif.Gen.Regen.tables.specs c.1 := by decide +kernel

/-- **the post-processing steps leave user statements alone**: the two `sed -i` import corrections, the 1463-line
    sed script written by `annotate_nml` and `ruff format` change no user statement of any class
    (raw generateDS output = after the sed steps = final file, per class, statement digests in order) -/
theorem c20_postprocessing_user :
    M.rawUser = M.sedUser ∧ M.sedUser = userRows M.boundary NmlVerif.Gen.RegenFresh.table.classes := by
  decide +kernel

/-- hence the final regenerated file carries exactly the model's user statements -/
theorem c20_final_user_is_model : ∀ c ∈ userRows M.boundary NmlVerif.Gen.RegenFresh.table.classes,
    c.2 = regenerated NmlVerif.Gen.Regen.tables.specs c.1 := by
  intro c hc
  rw [← c20_postprocessing_user.2, ← c20_postprocessing_user.1] at hc
  exact c20_generateds_inserts_model c hc

/-- non-trivial: the real run inserted user statements into more than 20 classes -/
example : 20 < (M.rawUser.filter (fun c => c.2 ≠ [])).length := by decide +kernel

end NmlVerif.C20
