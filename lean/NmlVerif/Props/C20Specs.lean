import NmlVerif.Props.C20
import NmlVerif.Gen.Regen
/-!
# C20, clause 1 (shape of the tables) — one row per binding class; specs only name existing classes; `%(class_name)s`
rows only for named classes. (Separate module: these do not break when one helper method is edited on one side.)
-/
namespace NmlVerif.C20
open NmlVerif.Regen

abbrev T : Tables := NmlVerif.Gen.Regen.tables

theorem c20_shipped_classes : ShippedCoversClasses T := by decide +kernel

theorem c20_spec_targets : SpecTargetsExist T := by decide +kernel

theorem c20_per_class_rows : PerClassRowsNamed T := by decide +kernel

end NmlVerif.C20
