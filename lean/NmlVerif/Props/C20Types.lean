import NmlVerif.Props.C20
import NmlVerif.Gen.Regen
/-!
# C20, clause 2 — the binding classes correspond one-to-one to the complex types of the bundled schema for the
declared current NeuroML version (names, and — second pass — the derivation: extension base = Python base class).
-/
namespace NmlVerif.C20
open NmlVerif.Regen

/-- kernel-checked with the structural Boolean checks of `Proofs/Regen.lean` (their soundness is proved there) -/
theorem c20_types : TypesCorrespond NmlVerif.Gen.Regen.tables :=
  ⟨nodupB_sound _ (by decide +kernel), nodupB_sound _ (by decide +kernel),
   subsetB_sound _ _ (by decide +kernel), subsetB_sound _ _ (by decide +kernel)⟩

/-- binding classes and complex types are in one-to-one correspondence -/
theorem c20_types_perm : NmlVerif.Gen.Regen.tables.classes.Perm NmlVerif.Gen.Regen.tables.complexTypes :=
  perm_of_nodup_mutual c20_types.1 c20_types.2.1 c20_types.2.2.1 c20_types.2.2.2

theorem c20_types_count :
    NmlVerif.Gen.Regen.tables.classes.length = NmlVerif.Gen.Regen.tables.complexTypes.length :=
  c20_types_perm.length_eq

theorem c20_other_classes : OtherClassesAccounted NmlVerif.Gen.Regen.tables := by decide +kernel

/-- second pass: every binding class derives from exactly the class of its complexType's extension base
    (`GeneratedsSuper` when the type extends nothing) -/
theorem c20_bases : BasesCorrespond NmlVerif.Gen.Regen.tables := by decide +kernel

/-- non-trivial: some type extends another one, some extends nothing -/
example : ∃ xb ∈ NmlVerif.Gen.Regen.tables.xsdBases, xb.2.isSome := by decide +kernel
example : ∃ xb ∈ NmlVerif.Gen.Regen.tables.xsdBases, xb.2 = none := by decide +kernel

end NmlVerif.C20
