import NmlVerif.Props.C20
import NmlVerif.Gen.Regen
/-!
# C20, clause 3 — "… the bundled schema for the declared current NeuroML version, which is the schema named in the
bindings' header and by the writer"; the generateDS options; the imports; and (second pass) every occurrence of a
schema file name in the package's code.
-/
namespace NmlVerif.C20
open NmlVerif.Regen

theorem c20_version : VersionsAgree NmlVerif.Gen.Regen.tables.versions := by decide +kernel

theorem c20_cmdline : CmdlineAgrees NmlVerif.Gen.Regen.tables.versions := by decide +kernel

theorem c20_imports : ImportsAgree NmlVerif.Gen.Regen.tables := by decide +kernel

/-- every occurrence (grep-like: *.py, *.sh, … of the package, the whole of nml.py) that selects or names the schema
    of the bindings / of written files denotes the schema of the bindings' header; several bundled XSD files do
    not confuse it (only names are compared, the directory listing is not consulted) -/
theorem c20_occurrences_partial : OccurrencesAgree_partial NmlVerif.Gen.Regen.tables := by decide +kernel

/-- non-trivial: at least four such occurrences, in at least three different files -/
example : 4 ≤ (NmlVerif.Gen.Regen.tables.occurrences.filter (fun o => o.role = .schema)).length := by decide +kernel
example : 2 ≤ NmlVerif.Gen.Regen.tables.versions.bundled.length := by decide +kernel

end NmlVerif.C20
