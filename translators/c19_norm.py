"""C19 translators: normalisation of equivalent surface shapes (robustness round).

`normalise(fdef, ...)` maps a `FunctionDef` to ONE canonical shape before it is translated (accessors, network loop
of `summary`) or compared with a pinned text (prologue / epilogue of `summary`, the hand-modelled functions of
utils.py).  The pinned texts go through the same function, so "canonical" only has to be a function of the
equivalence class.  Every step is semantics-preserving for ALL inputs (argument given at the step); a shape that no
step recognises is left as it is, and is then refused by the translator / the pin exactly as before (gap, never a
guess).  On today's source every step is the identity on what the translators emit (generated Lean byte-identical).

 S1 strip     docstrings, parameter / return annotations, `x: T = e` -> `x = e` (a bare `x: T` is kept: it makes x local), `pass` in a
              block that has other statements.  None of them is evaluated with an observable effect inside a function
              body (annotations of locals are never evaluated; annotations of parameters are evaluated at `def` time
              of the enclosing class body, which is outside the function's behaviour; names in them are refused unless
              they are plain names / constants / subscripts of them, so no call can hide there).
 S2 negation  `not (a in b)` = `a not in b`, `not (a not in b)` = `a in b`, `not (a is b)` = `a is not b`,
              `not (a is not b)` = `a is b` (language definition: `not in` / `is not` ARE the negations; `in`
              results are coerced to bool), `not not c` in test position = `c` (tests only look at truthiness).
              `not (a == b)` = `a != b` (and `not (a != b)` = `a == b`) ONLY when one operand is a str literal and
              the other is known to be a `str` (`known_str`): for `str` `!=` is the negation of `==`; for arbitrary
              objects `__ne__` may be unrelated to `__eq__`, those stay as written.
 S3 polarity  `if not c: A else: B` = `if c: B else: A`, `A if not c else B` = `B if c else A`, the same for tests
              `a not in b` (-> `in`) and `a is X` (-> `is not`) when BOTH branches are present (exactly one of the
              branches runs, chosen by the truth value of the same single evaluation of the operands).
              `== None` / `!= None` are NOT swapped (`__eq__` / `__ne__` of the stored value are independent).
 S4 early exit  `if c: ...<always returns/raises/continues/breaks> else: B` = the same `if` without `else`, followed
              by B (B runs exactly when the body was not entered); so `elif` after `return` = `if`.
 S5 iterator  `x = E` immediately followed by `for v in x:` with no other use of `x` in the function =
              `for v in E:` (the iterable is evaluated once, at the same point, nothing in between).
 S6 augmented `x = x + e` = `x += e` for a local `x` that is only ever assigned str / int literals and updated by
              `+` (then x holds a str / int whenever `e` is one, the only case the translators accept; str and int
              define no `__iadd__`, so `+=` IS `x = x + e`).
 S8 format    f"a{x}b" = "a" + str(x) + "b" when the placeholder has no format spec and either the conversion `!s`
              (then it IS str(x)) or a value that is certainly an int / str (a local of S6's kind, `len(..)`,
              `str(..)`: `format(v, "")` is `str(v)` for these; other objects may override `__format__`);
              "a%sb" % (x,) likewise when every spec is a bare `%s` and the right operand is a tuple display or a single
              int / str value (`%s` IS str(x)); `str(s)` of a str local is `s`; empty literals vanish ("" + s = s).
              All operands of the resulting `+` chain are str, evaluated in the same left-to-right order.
 S7 alpha     locals renamed to canonical names by order of first binding (`canon` list, or `_v<k>`): a bijection on
              the locals that captures no free name (checked), in a function without nested scopes sharing those
              names, `global` / `nonlocal`, `locals` / `vars` / `eval` / `exec`; parameters are API and are kept.
"""
import ast
import copy


def _is_doc(s):
    return isinstance(s, ast.Expr) and isinstance(s.value, ast.Constant) and isinstance(s.value.value, str)


def _terminates(body):
    """every path through the block leaves it by return / raise / continue / break"""
    if not body:
        return False
    s = body[-1]
    if isinstance(s, (ast.Return, ast.Raise, ast.Continue, ast.Break)):
        return True
    if isinstance(s, ast.If):
        return bool(s.orelse) and _terminates(s.body) and _terminates(s.orelse)
    return False


def _plain_annotation(a):
    """annotation whose evaluation cannot run user code in a way that matters: names, constants, attributes, subscripts"""
    if a is None:
        return True
    for n in ast.walk(a):
        if not isinstance(n, (ast.Name, ast.Constant, ast.Attribute, ast.Subscript, ast.Tuple, ast.Load, ast.BinOp, ast.BitOr)):
            return False
    return True


class _Strip(ast.NodeTransformer):
    def visit_AnnAssign(self, n):
        self.generic_visit(n)
        if not (n.simple and isinstance(n.target, ast.Name) and _plain_annotation(n.annotation)):
            return n
        if n.value is None:
            return n        # a bare `x: T` makes x a local of the function (can turn a global read into an error): kept
        return ast.copy_location(ast.Assign(targets=[n.target], value=n.value), n)

    def _block(self, body):
        out = [s for s in body if not _is_doc(s)]
        if any(not isinstance(s, ast.Pass) for s in out):
            out = [s for s in out if not isinstance(s, ast.Pass)]
        return out or [ast.Pass()]

    def generic_visit(self, n):
        super().generic_visit(n)
        for fld in ("body", "orelse", "finalbody"):
            b = getattr(n, fld, None)
            if isinstance(b, list) and b and isinstance(b[0], ast.stmt):
                setattr(n, fld, self._block(b))
        return n


_NEG = {ast.In: ast.NotIn, ast.NotIn: ast.In, ast.Is: ast.IsNot, ast.IsNot: ast.Is}
_NEG_EQ = {ast.Eq: ast.NotEq, ast.NotEq: ast.Eq}


class _Negation(ast.NodeTransformer):
    def __init__(self, known_str):
        self.known_str = known_str

    def visit_UnaryOp(self, n):
        self.generic_visit(n)
        if isinstance(n.op, ast.Not) and isinstance(n.operand, ast.Compare) and len(n.operand.ops) == 1:
            c = n.operand
            op = type(c.ops[0])
            if op in _NEG:
                return ast.copy_location(ast.Compare(left=c.left, ops=[_NEG[op]()], comparators=c.comparators), n)
            if op in _NEG_EQ:
                a, b = c.left, c.comparators[0]
                lit = lambda e: isinstance(e, ast.Constant) and isinstance(e.value, str)      # noqa: E731
                if (lit(a) and (lit(b) or self.known_str(b))) or (lit(b) and self.known_str(a)):
                    return ast.copy_location(ast.Compare(left=a, ops=[_NEG_EQ[op]()], comparators=[b]), n)
        return n


def _strip_test_nots(t):
    """a test position only looks at truthiness: `not not c` = `c`"""
    while (isinstance(t, ast.UnaryOp) and isinstance(t.op, ast.Not) and isinstance(t.operand, ast.UnaryOp)
           and isinstance(t.operand.op, ast.Not)):
        t = t.operand.operand
    return t


def _flip(t):
    """-> the test with opposite truth value if it has one of the negative shapes, else None"""
    if isinstance(t, ast.UnaryOp) and isinstance(t.op, ast.Not):
        return t.operand
    if isinstance(t, ast.Compare) and len(t.ops) == 1 and isinstance(t.ops[0], ast.NotIn):
        return ast.copy_location(ast.Compare(left=t.left, ops=[ast.In()], comparators=t.comparators), t)
    if isinstance(t, ast.Compare) and len(t.ops) == 1 and isinstance(t.ops[0], ast.Is):
        return ast.copy_location(ast.Compare(left=t.left, ops=[ast.IsNot()], comparators=t.comparators), t)
    return None


class _Polarity(ast.NodeTransformer):
    def visit_If(self, n):
        self.generic_visit(n)
        n.test = _strip_test_nots(n.test)
        f = _flip(n.test)
        if f is not None and n.orelse and n.body:
            n.test, n.body, n.orelse = f, n.orelse, n.body
        return n

    def visit_IfExp(self, n):
        self.generic_visit(n)
        n.test = _strip_test_nots(n.test)
        f = _flip(n.test)
        if f is not None:
            n.test, n.body, n.orelse = f, n.orelse, n.body
        return n

    def visit_While(self, n):
        self.generic_visit(n)
        n.test = _strip_test_nots(n.test)
        return n


def _early_exit(body):
    out = []
    for s in body:
        for fld in ("body", "orelse", "finalbody"):
            b = getattr(s, fld, None)
            if isinstance(b, list) and b and isinstance(b[0], ast.stmt):
                setattr(s, fld, _early_exit(b))
        if isinstance(s, ast.If) and s.orelse and _terminates(s.body):
            tail, s.orelse = s.orelse, []
            out.append(s)
            out.extend(tail)
        else:
            out.append(s)
    return out


def _polarity_seq(body):
    """S3 for the early-exit form: `if <negative test>: A` followed by R, where A and R both always leave the block
    (return / raise / continue / break) = `if <positive test>: R` followed by A: exactly one of A, R runs, chosen by
    the truth value of one evaluation of the same operands."""
    out = []
    for i, s in enumerate(body):
        for fld in ("body", "orelse", "finalbody"):
            b = getattr(s, fld, None)
            if isinstance(b, list) and b and isinstance(b[0], ast.stmt):
                setattr(s, fld, _polarity_seq(b))
        rest = body[i + 1:]
        if (isinstance(s, ast.If) and not s.orelse and _flip(s.test) is not None and _terminates(s.body)
                and rest and _terminates(rest)):
            a = s.body
            s.test, s.body = _flip(s.test), _polarity_seq(rest)
            return out + [s] + a
        out.append(s)
    return out


def _uses(fdef, name):
    return sum(1 for n in ast.walk(fdef) if isinstance(n, ast.Name) and n.id == name)


def _inline_iter(fdef, body):
    out, i = [], 0
    while i < len(body):
        s = body[i]
        for fld in ("body", "orelse", "finalbody"):
            b = getattr(s, fld, None)
            if isinstance(b, list) and b and isinstance(b[0], ast.stmt):
                setattr(s, fld, _inline_iter(fdef, b))
        nxt = body[i + 1] if i + 1 < len(body) else None
        if (isinstance(s, ast.Assign) and len(s.targets) == 1 and isinstance(s.targets[0], ast.Name)
                and isinstance(nxt, ast.For) and isinstance(nxt.iter, ast.Name) and nxt.iter.id == s.targets[0].id
                and _uses(fdef, s.targets[0].id) == 2):
            nxt.iter = s.value
            i += 1
            continue
        out.append(s)
        i += 1
    return out


def _assigned_kinds(fdef):
    """local name -> set of kinds of everything that is ever bound to it: 'str' / 'int' literal, 'add' (x = x + e or
    x += e), 'other'"""
    kinds = {}

    def note(name, k):
        kinds.setdefault(name, set()).add(k)

    for n in ast.walk(fdef):
        if isinstance(n, ast.Assign):
            for t in n.targets:
                for m in ast.walk(t):
                    if isinstance(m, ast.Name):
                        v = n.value
                        if len(n.targets) == 1 and isinstance(t, ast.Name):
                            if isinstance(v, ast.Constant) and isinstance(v.value, str):
                                note(m.id, "str")
                                continue
                            if isinstance(v, ast.Constant) and isinstance(v.value, int) and not isinstance(v.value, bool):
                                note(m.id, "int")
                                continue
                            if (isinstance(v, ast.BinOp) and isinstance(v.op, ast.Add) and _leftmost(v) is not None
                                    and _leftmost(v).id == m.id):
                                note(m.id, "add")
                                continue
                        note(m.id, "other")
        elif isinstance(n, ast.AugAssign) and isinstance(n.target, ast.Name):
            note(n.target.id, "add" if isinstance(n.op, ast.Add) else "other")
        elif isinstance(n, (ast.For, ast.comprehension)):
            for m in ast.walk(n.target):
                if isinstance(m, ast.Name):
                    note(m.id, "other")
        elif isinstance(n, (ast.With, ast.ExceptHandler, ast.NamedExpr, ast.Import, ast.ImportFrom, ast.Delete)):
            for m in ast.walk(n):
                if isinstance(m, ast.Name) and isinstance(m.ctx, (ast.Store, ast.Del)):
                    note(m.id, "other")
            if isinstance(n, ast.ExceptHandler) and n.name:
                note(n.name, "other")
            if isinstance(n, (ast.Import, ast.ImportFrom)):
                for a in n.names:
                    note((a.asname or a.name).split(".")[0], "other")
    return kinds


def _leftmost(e):
    """x + a + b + ... parses as ((x + a) + b): the leftmost operand if it is a Name"""
    while isinstance(e, ast.BinOp) and isinstance(e.op, ast.Add):
        e = e.left
    return e if isinstance(e, ast.Name) else None


class _Augment(ast.NodeTransformer):
    def __init__(self, ok):
        self.ok = ok

    def visit_Assign(self, n):
        if (len(n.targets) == 1 and isinstance(n.targets[0], ast.Name) and n.targets[0].id in self.ok
                and isinstance(n.value, ast.BinOp) and isinstance(n.value.op, ast.Add)
                and isinstance(n.value.left, ast.Name) and n.value.left.id == n.targets[0].id):
            # only the shape `x = x + (e)` with x the DIRECT left operand: `x = x + a + b` is `(x + a) + b`, which
            # `x += a + b` would re-associate (str concatenation is associative, but `a + b` alone may raise or mean
            # integer addition) -> left as written
            return ast.copy_location(ast.AugAssign(target=ast.Name(id=n.targets[0].id, ctx=ast.Store()), op=ast.Add(),
                                                   value=n.value.right), n)
        return n


class _Concat(ast.NodeTransformer):
    """S8: f-strings and %-formats whose placeholders certainly hold int / str values -> `+`-concatenation"""

    def __init__(self, str_names, int_names):
        self.str_names, self.int_names = str_names, int_names

    def strlike(self, e):
        if isinstance(e, ast.Name) and (e.id in self.str_names or e.id in self.int_names):
            return True
        return (isinstance(e, ast.Call) and isinstance(e.func, ast.Name) and e.func.id in ("str", "len")
                and len(e.args) == 1 and not e.keywords and not isinstance(e.args[0], ast.Starred))

    def as_str(self, v):
        if isinstance(v, ast.Name) and v.id in self.str_names:
            return v                                           # str(s) is s for a str
        if isinstance(v, ast.Call) and isinstance(v.func, ast.Name) and v.func.id == "str":
            return v                                           # str(str(x)) is str(x)
        return ast.Call(func=ast.Name(id="str", ctx=ast.Load()), args=[v], keywords=[])

    def chain(self, parts):
        parts = [p for p in parts if not (isinstance(p, ast.Constant) and p.value == "")] or [ast.Constant(value="")]
        e = parts[0]
        for p in parts[1:]:
            e = ast.BinOp(left=e, op=ast.Add(), right=p)
        return e

    def visit_JoinedStr(self, n):
        self.generic_visit(n)
        parts = []
        for v in n.values:
            if isinstance(v, ast.Constant) and isinstance(v.value, str):
                parts.append(v)
            elif (isinstance(v, ast.FormattedValue) and v.format_spec is None
                  and (v.conversion == 115 or (v.conversion == -1 and self.strlike(v.value)))):
                parts.append(self.as_str(v.value))
            else:
                return n
        return ast.copy_location(self.chain(parts), n)

    def visit_BinOp(self, n):
        self.generic_visit(n)
        if not (isinstance(n.op, ast.Mod) and isinstance(n.left, ast.Constant) and isinstance(n.left.value, str)):
            return n
        if isinstance(n.right, ast.Tuple):
            vals = list(n.right.elts)
        elif self.strlike(n.right):
            vals = [n.right]                                   # a single operand that is certainly not a tuple / mapping
        else:
            return n
        lits = n.left.value.split("%s")
        if any("%" in l for l in lits) or len(lits) != len(vals) + 1 or any(isinstance(v, ast.Starred) for v in vals):
            return n
        parts = []
        for l, v in zip(lits, vals + [None]):
            parts.append(ast.Constant(value=l))
            if v is not None:
                parts.append(self.as_str(v))
        return ast.copy_location(self.chain(parts), n)


def bound_order(fdef):
    """names bound inside the function body (not parameters), in order of first binding in source order"""
    params = {a.arg for a in fdef.args.posonlyargs + fdef.args.args + fdef.args.kwonlyargs}
    if fdef.args.vararg:
        params.add(fdef.args.vararg.arg)
    if fdef.args.kwarg:
        params.add(fdef.args.kwarg.arg)
    order = []

    class V(ast.NodeVisitor):
        def visit_Name(self, n):
            if isinstance(n.ctx, (ast.Store, ast.Del)) and n.id not in params and n.id not in order:
                order.append(n.id)

        def visit_Assign(self, n):          # value is evaluated before the target is bound; order only needs to be
            for t in n.targets:             # deterministic, but keep the natural reading
                self.visit(t)
            self.visit(n.value)

        def visit_Lambda(self, n):
            pass

        def visit_ListComp(self, n):
            pass
        visit_SetComp = visit_DictComp = visit_GeneratorExp = visit_ListComp

        def visit_ExceptHandler(self, n):
            if n.name and n.name not in params and n.name not in order:
                order.append(n.name)
            self.generic_visit(n)

    for s in fdef.body:
        V().visit(s)
    return order, params


def alpha_rename(fdef, canon):
    """rename the k-th bound local to canon[k]; returns False (function untouched) when that is not safe"""
    order, params = bound_order(fdef)
    if len(order) != len(canon) or len(set(canon)) != len(canon):
        return False
    ren = dict(zip(order, canon))
    if all(a == b for a, b in ren.items()):
        return True
    inner = set()                       # names of nested scopes
    for n in ast.walk(fdef):
        if n is fdef:
            continue
        if isinstance(n, (ast.FunctionDef, ast.AsyncFunctionDef, ast.ClassDef, ast.Global, ast.Nonlocal, ast.Import,
                          ast.ImportFrom, ast.ExceptHandler, ast.NamedExpr, ast.With)):
            return False
        if isinstance(n, ast.Call) and isinstance(n.func, ast.Name) and n.func.id in ("locals", "vars", "eval", "exec", "dir"):
            return False
        if isinstance(n, ast.Lambda):
            for m in ast.walk(n):
                if isinstance(m, ast.Name):
                    inner.add(m.id)
                if isinstance(m, ast.arg):
                    inner.add(m.arg)
        if isinstance(n, (ast.ListComp, ast.SetComp, ast.DictComp, ast.GeneratorExp)):
            for m in ast.walk(n):
                if isinstance(m, ast.Name):
                    inner.add(m.id)
    free = {n.id for n in ast.walk(fdef) if isinstance(n, ast.Name)} - set(order)
    moved = {a for a, b in ren.items() if a != b} | {b for a, b in ren.items() if a != b}
    if moved & (free | params | inner):
        return False                    # would capture a global / builtin / parameter, or touches a nested scope
    for n in ast.walk(fdef):
        if isinstance(n, ast.Name) and n.id in ren:
            n.id = ren[n.id]
    return True


def members_known_str(fdef):
    """`v[0]` is a `str` when `v` is only ever bound as the loop variable of `for v in inspect.getmembers(..)` (directly
    or through a local assigned exactly once from such a call): getmembers returns (name, value) pairs, name a str."""
    def is_gm(e):
        return (isinstance(e, ast.Call) and isinstance(e.func, ast.Attribute) and e.func.attr == "getmembers"
                and isinstance(e.func.value, ast.Name) and e.func.value.id == "inspect")
    kinds = _assigned_kinds(fdef)
    lists = set()
    for n in ast.walk(fdef):
        if (isinstance(n, ast.Assign) and len(n.targets) == 1 and isinstance(n.targets[0], ast.Name) and is_gm(n.value)
                and _stores(fdef, n.targets[0].id) == 1):
            lists.add(n.targets[0].id)
    vars_ = set()
    for n in ast.walk(fdef):
        if isinstance(n, ast.For) and isinstance(n.target, ast.Name) and _stores(fdef, n.target.id) == 1:
            if is_gm(n.iter) or (isinstance(n.iter, ast.Name) and n.iter.id in lists):
                vars_.add(n.target.id)
    del kinds

    def known(e):
        return (isinstance(e, ast.Subscript) and isinstance(e.value, ast.Name) and e.value.id in vars_
                and isinstance(e.slice, ast.Constant) and e.slice.value == 0 and not isinstance(e.slice.value, bool))
    return known


def _stores(fdef, name):
    return sum(1 for n in ast.walk(fdef) if isinstance(n, ast.Name) and n.id == name and isinstance(n.ctx, (ast.Store, ast.Del)))


def normalise(fdef, canon=None, alpha=False):
    """-> normalised deep copy of the FunctionDef.  `canon`: canonical local names by order of first binding (S7);
    `alpha=True` without `canon`: `_v0, _v1, …` (for texts that are only compared with a pinned text)."""
    f = copy.deepcopy(fdef)
    for a in f.args.posonlyargs + f.args.args + f.args.kwonlyargs + [x for x in (f.args.vararg, f.args.kwarg) if x]:
        if _plain_annotation(a.annotation):
            a.annotation = None
    if _plain_annotation(f.returns):
        f.returns = None
    f = _Strip().visit(f)
    f = _Negation(members_known_str(f)).visit(f)
    f = _Polarity().visit(f)
    f.body = _early_exit(f.body)
    f.body = _polarity_seq(f.body)
    f.body = _inline_iter(f, f.body)
    kinds = _assigned_kinds(f)
    params = {a.arg for a in f.args.args}
    ok = {x for x, k in kinds.items() if x not in params and "other" not in k and (("str" in k) != ("int" in k))}
    f = _Augment(ok).visit(f)
    f = _Concat({x for x in ok if "str" in kinds[x]}, {x for x in ok if "int" in kinds[x]}).visit(f)
    if canon is not None:
        alpha_rename(f, list(canon))
    elif alpha:
        order, _ = bound_order(f)
        alpha_rename(f, ["_v%d" % i for i in range(len(order))])
    ast.fix_missing_locations(f)
    return f


def first_evaluated(node):
    """the Name whose value is the first thing the statement / expression evaluates (constants and the builtin
    function names `int` / `float` / `len` / `str` cannot raise and are skipped), or None"""
    n = node
    while True:
        if isinstance(n, ast.Name):
            return n
        if isinstance(n, (ast.Return, ast.Expr)):
            n = n.value
        elif isinstance(n, ast.Assign) and len(n.targets) == 1 and isinstance(n.targets[0], ast.Name):
            n = n.value
        elif isinstance(n, (ast.If, ast.IfExp)):
            n = n.test
        elif isinstance(n, (ast.Subscript, ast.Attribute)):
            n = n.value
        elif isinstance(n, ast.UnaryOp):
            n = n.operand
        elif isinstance(n, ast.BoolOp):
            n = n.values[0]
        elif isinstance(n, ast.BinOp):
            n = n.right if isinstance(n.left, ast.Constant) else n.left
        elif isinstance(n, ast.Compare):
            n = n.comparators[0] if isinstance(n.left, ast.Constant) else n.left
        elif isinstance(n, ast.Call) and isinstance(n.func, ast.Attribute):
            n = n.func.value
        elif (isinstance(n, ast.Call) and isinstance(n.func, ast.Name) and n.func.id in ("int", "float", "len", "str")
              and n.args and not isinstance(n.args[0], ast.Starred)):
            n = n.args[0]
        else:
            return None


def parse_body(text, argtext="self"):
    """pinned text -> FunctionDef (for normalising the pin the same way as the source)"""
    src = "def _pinned(%s):\n" % argtext + "".join("    " + l + "\n" for l in text.split("\n"))
    return ast.parse(src).body[0]
