"""C19 translator, regular expressions: schema `xs:pattern` facets / generateDS `validate_*_patterns_` tables -> terms of
`NmlVerif.Rx.Rx` (lean/NmlVerif/Model/Rx.lean).

The pattern text is parsed by Python's own regular-expression parser (`re._parser`), i.e. by the reader that the
validators of nml.py use; its parse tree is mapped constructor by constructor:

    LITERAL c            -> Rx.Rx.chr c            IN [..ranges/literals/\\s..]  -> .set ⟨ranges, space⟩
    MAX_REPEAT 0 1 x     -> Rx.Rx.opt x            MAX_REPEAT 0 inf x  -> .star x      MAX_REPEAT 1 inf x -> Rx.Rx.plus x
    SUBPATTERN (group)   -> its content            BRANCH [a, b, ..]   -> .alt a (.alt b ..)
    a sequence x1 .. xn  -> .seq x1 (.seq x2 (.. xn))   (right nested; the empty sequence is .eps)
    AT_BEGINNING / AT_END are accepted only as the first / last item of the whole pattern (generateDS wraps `^(..)$`)

Anything else (other repeats, negated classes, other categories, flags, back-references, look-around) is refused with a
`Gap`.
"""
import ast
import os
import re

try:
    import re._parser as sre_parse
    import re._constants as sre_c
except ImportError:  # Python < 3.11
    import sre_parse
    import sre_constants as sre_c


class Gap(Exception):
    pass


def _chr(c):
    if 32 <= c < 127 and chr(c) not in "'\\":
        return "(Rx.Rx.chr '%s')" % chr(c)
    return "(Rx.Rx.chr (Char.ofNat %d))" % c


def _set(items):
    ranges, space = [], False
    for op, av in items:
        if op is sre_c.LITERAL:
            ranges.append((av, av))
        elif op is sre_c.RANGE:
            ranges.append((av[0], av[1]))
        elif op is sre_c.CATEGORY and av is sre_c.CATEGORY_SPACE:
            space = True
        else:
            raise Gap("character class item %s %r" % (op, av))
    return "(.set ⟨[%s], %s⟩)" % (", ".join("(%d, %d)" % r for r in ranges), "true" if space else "false")


def _seq(items):
    if not items:
        return ".eps"
    if len(items) == 1:
        return items[0]
    return "(.seq %s %s)" % (items[0], _seq(items[1:]))


def _tr_seq(sub, top=False):
    data = list(sub)
    if top:
        if data and data[0][0] is sre_c.AT and data[0][1] is sre_c.AT_BEGINNING:
            data = data[1:]
        if data and data[-1][0] is sre_c.AT and data[-1][1] is sre_c.AT_END:
            data = data[:-1]
    return _seq([_tr(op, av) for op, av in data])


def _tr(op, av):
    if op is sre_c.LITERAL:
        return _chr(av)
    if op is sre_c.IN:
        return _set(av)
    if op is sre_c.MAX_REPEAT:
        lo, hi, sub = av
        x = _tr_seq(sub)
        if (lo, hi) == (0, 1):
            return "(Rx.Rx.opt %s)" % x
        if lo == 0 and hi is sre_c.MAXREPEAT:
            return "(.star %s)" % x
        if lo == 1 and hi is sre_c.MAXREPEAT:
            return "(Rx.Rx.plus %s)" % x
        raise Gap("repeat {%s,%s}" % (lo, hi))
    if op is sre_c.SUBPATTERN:
        group, add_flags, del_flags, sub = av
        if add_flags or del_flags:
            raise Gap("inline flags")
        return _tr_seq(sub)
    if op is sre_c.BRANCH:
        _, alts = av
        xs = [_tr_seq(a) for a in alts]
        out = xs[-1]
        for x in reversed(xs[:-1]):
            out = "(.alt %s %s)" % (x, out)
        return out
    raise Gap("regular-expression construct %s" % (op,))


def to_lean(pattern):
    """pattern text -> Lean term of type Rx.Rx (raises Gap)"""
    try:
        tree = sre_parse.parse(pattern)
    except Exception as e:  # noqa
        raise Gap("pattern %r does not parse: %s" % (pattern, e))
    if tree.state.flags & ~(re.UNICODE):
        raise Gap("pattern flags %s" % tree.state.flags)
    # a top-level `^( .. )$`: one group between the anchors
    return _tr_seq(tree, top=True)


def xsd_patterns(repo, names):
    """{simpleType name: pattern text} read from the schema the package declares current"""
    import xml.etree.ElementTree as ET
    ver = None
    vtxt = open(os.path.join(repo, "neuroml", "__version__.py")).read()
    m = re.search(r"current_neuroml_version\s*(?::\s*\w+)?\s*=\s*['\"]([^'\"]+)['\"]", vtxt)
    if m:
        ver = m.group(1)
    path = os.path.join(repo, "neuroml", "nml", "NeuroML_%s.xsd" % ver)
    if ver is None or not os.path.exists(path):
        raise Gap("current schema not found (version %r)" % ver)
    ns = {"xs": "http://www.w3.org/2001/XMLSchema"}
    root = ET.parse(path).getroot()
    out = {}
    for st in root.findall("xs:simpleType", ns):
        if st.get("name") in names:
            pats = [p.get("value") for p in st.findall("xs:restriction/xs:pattern", ns)]
            if len(pats) != 1:
                raise Gap("simpleType %s has %d pattern facets" % (st.get("name"), len(pats)))
            out[st.get("name")] = pats[0]
    for n in names:
        if n not in out:
            raise Gap("simpleType %s not in %s" % (n, os.path.basename(path)))
    return out, os.path.basename(path)


def nml_patterns(tree, names):
    """{simpleType name: pattern text}: the `validate_<name>_patterns_` class attributes of nml.py; every class that
    carries one must carry the same"""
    seen = {}
    for node in tree.body:
        if not isinstance(node, ast.ClassDef):
            continue
        for it in node.body:
            if isinstance(it, ast.Assign) and len(it.targets) == 1 and isinstance(it.targets[0], ast.Name):
                for n in names:
                    if it.targets[0].id == "validate_%s_patterns_" % n:
                        try:
                            v = ast.literal_eval(it.value)
                        except Exception:
                            raise Gap("%s.%s is not a literal" % (node.name, it.targets[0].id))
                        if not (isinstance(v, list) and len(v) == 1 and isinstance(v[0], list) and len(v[0]) == 1
                                and isinstance(v[0][0], str)):
                            raise Gap("%s.%s = %r: not one pattern" % (node.name, it.targets[0].id, v))
                        seen.setdefault(n, {}).setdefault(v[0][0], []).append(node.name)
    out = {}
    for n in names:
        if n not in seen:
            raise Gap("no validate_%s_patterns_ in nml.py" % n)
        if len(seen[n]) != 1:
            raise Gap("validate_%s_patterns_ differs between classes: %s" % (n, {k: v[:3] for k, v in seen[n].items()}))
        out[n] = list(seen[n])[0]
    return out


NAMES = {"Nml2Quantity_time": "timeRx", "Nml2PopulationReferencePath": "refRx", "NmlId": "nmlIdRx"}


def block(repo, nml_tree, gaps):
    """Lean definitions `Xsd.<x>Rx`, `Nml.<x>Rx` and the pattern texts"""
    out, texts = [], {}
    try:
        xs, xsd_name = xsd_patterns(repo, list(NAMES))
    except Gap as g:
        gaps.append("xsd patterns: %s" % g)
        xs, xsd_name = {}, "?"
    try:
        ns = nml_patterns(nml_tree, list(NAMES))
    except Gap as g:
        gaps.append("nml.py patterns: %s" % g)
        ns = {}
    for prefix, table in (("Xsd", xs), ("Nml", ns)):
        for n, lean_name in NAMES.items():
            if n not in table:
                continue
            texts["%s.%s" % (prefix, n)] = table[n]
            try:
                out.append("/-- %s `%s` -/\ndef %s.%s : Rx.Rx :=\n  %s\n" % (
                    prefix, table[n].replace("-/", "- /"), prefix, lean_name, to_lean(table[n])))
            except Gap as g:
                gaps.append("%s pattern %s: %s" % (prefix, n, g))
    return "\n".join(out), texts, xsd_name
