"""C19 translator, `NeuroMLDocument.summary`: the body of `for network in self.networks:` -> a program of the language of
lean/NmlVerif/Model/AccSummary.lean (`List Summ.L3`), statement by statement:

    x = "<str literal>"  | x = <int literal>               -> .setS / .setN
    x += <+-concatenation of string pieces>                -> .addS x [pieces]
    x += 1 | len(item.a) | item.get_size()                 -> .addN x ..
    if network.a:  | if len(network.a)>0: | if len(item.a)>0:   -> .ifC
    for item in sorted(network.L, key=lambda x: x.id): | for item in network.L:   -> .forNet L sorted
    for leaf in item.a:                                    -> .forItem a
    v = item.a[0].b     (a local name for an object, used only under str())  -> inlined (`.itemFirstObj a b`)

pieces: "<literal>" | str(counter) | string variable | network.a | str(len(network.a)) | item.a | str(item) |
        str(len(item.a)) | str(item.a[0]) | str(v) | str(leaf) | str(leaf.a)

Before anything is translated or compared the whole `summary` FunctionDef goes through translators/c19_norm.py
(`normalised_summary`): docstrings / annotations stripped, `not a == b` on str operands = `a != b`, `not a in b` =
`a not in b`, `else` after a branch that always leaves = no else, a list local used only as the iterable of the next
`for` inlined, `x = x + e` = `x += e` for the str / int locals, f-strings and `%s`-formats over int / str values =
`+`-concatenation, locals alpha-renamed onto `SUMMARY_LOCALS` (order of first binding).  The pinned texts are normalised
the same way.  Adjacent string literals of one concatenation are emitted as one `.lit`.

Which names are counters / string variables is decided by their initialisation inside the loop body (`x = 0`,
`x = ""`); `info` is the string the enclosing function accumulates.  Control flow nests at most three levels.  Anything
else is refused (`Gap`).  The statements before and after the network loop (banner, document id, the
`inspect.getmembers` listing, the final banner, `return info`) are modelled by hand (`Summ.headerText`,
`Summ.summaryText`); their source text is pinned: `PROLOGUE` / `EPILOGUE` must be what `ast.unparse` gives.
"""
import ast
import importlib.util
import os


def _load(name):
    spec = importlib.util.spec_from_file_location("c19_tr_" + name, os.path.join(os.path.dirname(os.path.abspath(__file__)), name + ".py"))
    mod = importlib.util.module_from_spec(spec)
    spec.loader.exec_module(mod)
    return mod


NORM = _load("c19_norm")      # equivalent surface shapes -> one canonical shape (see its docstring: steps S1-S7)

# locals of `summary` in order of first binding (after S5 has inlined `membs` into its loop): the names the generated
# program and the hand model `Summ.netProg` use for the counters / string variables.  A function with the same number
# of locals is alpha-renamed onto these (S7); any other number of locals is left as written.
SUMMARY_LOCALS = ["info", "post", "memb", "listed", "entry", "network", "tot_pop", "tot_cells", "pop_info", "pop", "loc",
                  "p", "tot_proj", "tot_conns", "proj_info", "proj", "sc", "tot_input_lists", "tot_inputs", "input_info",
                  "il", "el"]


def normalised_summary(fdef):
    return NORM.normalise(fdef, canon=SUMMARY_LOCALS)


class Gap(Exception):
    pass


def lstr(s):
    return '"' + s.replace("\\", "\\\\").replace('"', '\\"').replace("\n", "\\n") + '"'


def src(n):
    try:
        return ast.unparse(n)[:90]
    except Exception:
        return type(n).__name__


PROLOGUE = """info = '*******************************************************\\n'
info += '* NeuroMLDocument: ' + self.id + '\\n*\\n'
post = ''
membs = inspect.getmembers(self)
for memb in membs:
    if isinstance(memb[1], list) and len(memb[1]) > 0 and (not memb[0].endswith('_')) and (not memb[0] == 'networks'):
        if memb[0] == 'includes' and show_includes or (not memb[0] == 'includes' and show_non_network):
            post = '*\\n'
            info += '*  ' + str(memb[1][0].__class__.__name__) + ': '
            listed = []
            for entry in memb[1]:
                if hasattr(entry, 'id'):
                    listed.append(str(entry.id))
                elif hasattr(entry, 'name'):
                    listed.append(str(entry.name))
                elif hasattr(entry, 'href'):
                    listed.append(str(entry.href))
                elif hasattr(entry, 'tag'):
                    listed.append(str(entry.tag) + ' = ' + str(entry.value))
            info += str(sorted(listed)) + '\\n'
info += post"""

EPILOGUE = """info += '*******************************************************'
return info"""

SIGNATURE = "(self, show_includes=True, show_non_network=True)"


def _norm_pin(text, args=SIGNATURE[1:-1], alpha=False):
    """the pinned text in canonical shape (same normaliser as the source; locals keep their names unless `alpha`)"""
    f = NORM.normalise(NORM.parse_body(text, args), alpha=alpha)
    return "\n".join(ast.unparse(s) for s in f.body)


class NetTr:
    def __init__(self, netvar, body):
        self.net = netvar
        self.strvars, self.natvars = {"info"}, set()
        for st in ast.walk(ast.Module(body=body, type_ignores=[])):
            if isinstance(st, ast.Assign) and len(st.targets) == 1 and isinstance(st.targets[0], ast.Name) \
                    and isinstance(st.value, ast.Constant):
                v = st.value.value
                if isinstance(v, str):
                    self.strvars.add(st.targets[0].id)
                elif isinstance(v, int) and not isinstance(v, bool):
                    self.natvars.add(st.targets[0].id)
        if self.strvars & self.natvars:
            raise Gap("a variable is initialised both as a string and as a counter: %s" % sorted(self.strvars & self.natvars))

    # --- expressions --------------------------------------------------------------------------
    def is_attr(self, e, var):
        return isinstance(e, ast.Attribute) and isinstance(e.value, ast.Name) and e.value.id == var

    def len_of(self, e, var):
        """len(<var>.a) -> a"""
        if (isinstance(e, ast.Call) and isinstance(e.func, ast.Name) and e.func.id == "len" and len(e.args) == 1
                and not e.keywords and self.is_attr(e.args[0], var)):
            return e.args[0].attr
        return None

    def piece(self, e, env):
        item, leaf, alias = env.get("item"), env.get("leaf"), env.get("alias", {})
        if isinstance(e, ast.Constant) and isinstance(e.value, str):
            return ".lit %s" % lstr(e.value)
        if isinstance(e, ast.Name) and e.id in self.strvars:
            return ".sv %s" % lstr(e.id)
        if self.is_attr(e, self.net):
            return ".netS %s" % lstr(e.attr)
        if item and self.is_attr(e, item):
            return ".itemS %s" % lstr(e.attr)
        if isinstance(e, ast.Call) and isinstance(e.func, ast.Name) and e.func.id == "str" and len(e.args) == 1 and not e.keywords:
            a = e.args[0]
            if isinstance(a, ast.Name) and a.id in self.natvars:
                return ".nv %s" % lstr(a.id)
            if self.len_of(a, self.net) is not None:
                return ".netLen %s" % lstr(self.len_of(a, self.net))
            if item and isinstance(a, ast.Name) and a.id == item:
                return ".itemText"
            if item and self.len_of(a, item) is not None:
                return ".itemLen %s" % lstr(self.len_of(a, item))
            if (item and isinstance(a, ast.Subscript) and isinstance(a.slice, ast.Constant) and a.slice.value == 0
                    and not isinstance(a.slice.value, bool) and self.is_attr(a.value, item)):
                return ".itemFirst %s" % lstr(a.value.attr)
            if isinstance(a, ast.Name) and a.id in alias:
                return ".itemFirstObj %s %s" % (lstr(alias[a.id][0]), lstr(alias[a.id][1]))
            if leaf and isinstance(a, ast.Name) and a.id == leaf:
                return ".leafText"
            if leaf and self.is_attr(a, leaf):
                return ".leafStr %s" % lstr(a.attr)
        raise Gap("string piece `%s`" % src(e))

    def pieces_raw(self, e, env):
        if isinstance(e, ast.BinOp) and isinstance(e.op, ast.Add):
            return self.pieces_raw(e.left, env) + self.pieces_raw(e.right, env)
        return [self.piece(e, env)]

    def pieces(self, e, env):
        """adjacent literals are one literal, empty literals vanish ("a" + "b" = "ab", s + "" = s for a str s; the
        accumulating variable is a str, see S6)"""
        out = []
        for p in self.pieces_raw(e, env):
            if p.startswith(".lit "):
                if p == '.lit ""':
                    continue
                if out and out[-1].startswith(".lit "):
                    out[-1] = out[-1][:-1] + p[len('.lit "'):]
                    continue
            out.append(p)
        return out

    def nexpr(self, e, env):
        item = env.get("item")
        if isinstance(e, ast.Constant) and e.value == 1 and not isinstance(e.value, bool):
            return ".one"
        if item and self.len_of(e, item) is not None:
            return "(.itemLen %s)" % lstr(self.len_of(e, item))
        if (item and isinstance(e, ast.Call) and isinstance(e.func, ast.Attribute) and e.func.attr == "get_size"
                and isinstance(e.func.value, ast.Name) and e.func.value.id == item and not e.args and not e.keywords):
            return ".itemSize"
        raise Gap("counter addend `%s`" % src(e))

    def cond(self, t, env):
        item = env.get("item")
        if self.is_attr(t, self.net):
            return "(.netTruthy %s)" % lstr(t.attr)
        if (isinstance(t, ast.Compare) and len(t.ops) == 1 and isinstance(t.ops[0], ast.Gt)
                and isinstance(t.comparators[0], ast.Constant) and t.comparators[0].value == 0
                and not isinstance(t.comparators[0].value, bool)):
            if self.len_of(t.left, self.net) is not None:
                return "(.netLenPos %s)" % lstr(self.len_of(t.left, self.net))
            if item and self.len_of(t.left, item) is not None:
                return "(.itemLenPos %s)" % lstr(self.len_of(t.left, item))
        raise Gap("condition `%s`" % src(t))

    # --- statements ---------------------------------------------------------------------------
    def simple(self, st, env):
        """-> Lean term of type Simple, or None"""
        if isinstance(st, ast.Assign) and len(st.targets) == 1 and isinstance(st.targets[0], ast.Name) \
                and isinstance(st.value, ast.Constant):
            v = st.value.value
            if isinstance(v, str):
                return "(.setS %s %s)" % (lstr(st.targets[0].id), lstr(v))
            if isinstance(v, int) and not isinstance(v, bool) and v >= 0:
                return "(.setN %s %d)" % (lstr(st.targets[0].id), v)
        if isinstance(st, ast.AugAssign) and isinstance(st.op, ast.Add) and isinstance(st.target, ast.Name):
            x = st.target.id
            if x in self.strvars:
                return "(.addS %s [%s])" % (lstr(x), ", ".join(self.pieces(st.value, env)))
            if x in self.natvars:
                return "(.addN %s %s)" % (lstr(x), self.nexpr(st.value, env))
        return None

    def wrap(self, term, depth):
        """a statement of the lowest level, seen from `depth` levels of control flow above it"""
        for _ in range(depth):
            term = "(.base %s)" % term
        return term

    def block(self, body, env, depth):
        """statements of a block whose elements have `depth` Ctl layers (3 = body of the network loop)"""
        out = []
        env = dict(env, alias=dict(env.get("alias", {})))
        for st in body:
            if isinstance(st, ast.Expr) and isinstance(st.value, ast.Constant) and isinstance(st.value.value, str):
                continue
            if isinstance(st, ast.Pass):
                continue
            # local name for an object: v = item.a[0].b
            item = env.get("item")
            if (isinstance(st, ast.Assign) and len(st.targets) == 1 and isinstance(st.targets[0], ast.Name) and item
                    and isinstance(st.value, ast.Attribute) and isinstance(st.value.value, ast.Subscript)
                    and isinstance(st.value.value.slice, ast.Constant) and st.value.value.slice.value == 0
                    and self.is_attr(st.value.value.value, item)):
                name = st.targets[0].id
                if name in self.strvars or name in self.natvars:
                    raise Gap("`%s` is also a string / counter variable" % name)
                env["alias"][name] = (st.value.value.value.attr, st.value.attr)
                continue
            s = self.simple(st, env)
            if s is not None:
                out.append(self.wrap(s, depth))
                continue
            if depth == 0:
                raise Gap("control flow nested too deeply: `%s`" % src(st))
            if isinstance(st, ast.If):
                if st.orelse:
                    raise Gap("`else` / `elif` branch: `%s`" % src(st.test))
                out.append("(.ifC %s [%s])" % (self.cond(st.test, env), ", ".join(self.block(st.body, env, depth - 1))))
                continue
            if isinstance(st, ast.For):
                if st.orelse or not isinstance(st.target, ast.Name):
                    raise Gap("loop shape `%s`" % src(st.target))
                it, sorted_ = st.iter, False
                if (isinstance(it, ast.Call) and isinstance(it.func, ast.Name) and it.func.id == "sorted" and len(it.args) == 1
                        and len(it.keywords) == 1 and it.keywords[0].arg == "key"):
                    k = it.keywords[0].value
                    if not (isinstance(k, ast.Lambda) and len(k.args.args) == 1 and isinstance(k.body, ast.Attribute)
                            and isinstance(k.body.value, ast.Name) and k.body.value.id == k.args.args[0].arg and k.body.attr == "id"):
                        raise Gap("sort key `%s`" % src(k))
                    it, sorted_ = it.args[0], True
                if self.is_attr(it, self.net) and env.get("item") is None:
                    env2 = dict(env, item=st.target.id, alias={})
                    out.append("(.forNet %s %s [%s])" % (lstr(it.attr), "true" if sorted_ else "false",
                                                          ", ".join(self.block(st.body, env2, depth - 1))))
                    continue
                if env.get("item") and self.is_attr(it, env["item"]) and not sorted_ and env.get("leaf") is None:
                    env2 = dict(env, leaf=st.target.id)
                    out.append("(.forItem %s [%s])" % (lstr(it.attr), ", ".join(self.block(st.body, env2, depth - 1))))
                    continue
                raise Gap("loop over `%s`" % src(st.iter))
            raise Gap("statement `%s`" % src(st))
        return out


def net_program(fdef, gaps, tag):
    """`summary` FunctionDef -> Lean term of type `List Summ.L3` (or None), pinning prologue / epilogue / signature"""
    fdef = normalised_summary(fdef)
    body = [s for s in fdef.body
            if not (isinstance(s, ast.Expr) and isinstance(s.value, ast.Constant) and isinstance(s.value.value, str))]
    loops = [i for i, s in enumerate(body) if isinstance(s, ast.For) and isinstance(s.iter, ast.Attribute)
             and isinstance(s.iter.value, ast.Name) and s.iter.value.id == "self" and s.iter.attr == "networks"]
    if len(loops) != 1 or not isinstance(body[loops[0]].target, ast.Name) or body[loops[0]].orelse:
        gaps.append("%s summary: expected exactly one `for <v> in self.networks:` loop" % tag)
        return None
    i = loops[0]
    sig = "(" + ast.unparse(fdef.args) + ")"
    if sig != SIGNATURE:
        gaps.append("%s summary: signature %s is not the modelled %s" % (tag, sig, SIGNATURE))
    pro = "\n".join(ast.unparse(s) for s in body[:i])
    epi = "\n".join(ast.unparse(s) for s in body[i + 1:])
    want_pro, want_epi = _norm_pin(PROLOGUE), _norm_pin(EPILOGUE)
    if pro != want_pro:
        a, b = pro.split("\n"), want_pro.split("\n")
        k = next((j for j in range(max(len(a), len(b))) if j >= len(a) or j >= len(b) or a[j] != b[j]), 0)
        gaps.append("%s summary: the statements before the network loop are not the modelled ones (line %d: `%s`)" % (
            tag, k, (a[k] if k < len(a) else "<missing>").strip()[:80]))
    if epi != want_epi:
        gaps.append("%s summary: the statements after the network loop are not the modelled ones: `%s`" % (tag, epi[:80]))
    loop = body[i]
    try:
        tr = NetTr(loop.target.id, loop.body)
        stmts = tr.block(loop.body, {}, 3)
    except Gap as g:
        gaps.append("%s summary, network loop: %s" % (tag, g))
        return None
    return "[" + ",\n   ".join(stmts) + "]"


# --- functions of neuroml/utils.py that are modelled by hand: their source text is pinned ---------------------------
UTILS_PINNED = {
    "print_summary": ("nml_file_name: str", "print(get_summary(nml_file_name))"),
    "get_summary": ("nml_file_name: str",
                    "from neuroml.loaders import read_neuroml2_file\n"
                    "nml_doc = read_neuroml2_file(nml_file_name, include_includes=True, verbose=False, optimized=True)\n"
                    "return nml_doc.summary(show_includes=False)"),
    # Model/Accessors.lean: hasSegmentFractionInfo / hsfiLoop / connNoInfo
    "has_segment_fraction_info": ("connections: list",
                                  "if not connections:\n    return False\nno_seg_fract_info = True\ni = 0\n"
                                  "while no_seg_fract_info and i < len(connections):\n    conn = connections[i]\n"
                                  "    no_seg_fract_info = conn.pre_segment_id == 0 and conn.post_segment_id == 0 and "
                                  "(conn.pre_fraction_along == 0.5) and (conn.post_fraction_along == 0.5)\n    i += 1\n"
                                  "return not no_seg_fract_info"),
}


def check_utils(path, gaps):
    """the hand-modelled functions of utils.py still read as the model was written for"""
    try:
        tree = ast.parse(open(path).read())
    except Exception as e:  # noqa
        gaps.append("utils.py does not parse: %s" % e)
        return
    found = {}
    for n in tree.body:
        if isinstance(n, ast.FunctionDef) and n.name in UTILS_PINNED:
            n = NORM.normalise(n, alpha=True)
            found[n.name] = (ast.unparse(n.args), "\n".join(ast.unparse(s) for s in n.body))
    for name, want in UTILS_PINNED.items():
        w = NORM.normalise(NORM.parse_body(want[1], want[0]), alpha=True)
        want = (ast.unparse(w.args), "\n".join(ast.unparse(s) for s in w.body))
        if name not in found:
            gaps.append("utils.py: function %s not found" % name)
        elif found[name] != want:
            a, b = found[name][1].split("\n"), want[1].split("\n")
            k = next((j for j in range(max(len(a), len(b))) if j >= len(a) or j >= len(b) or a[j] != b[j]), None)
            gaps.append("utils.py: %s is not the modelled text (%s)" % (
                name, "signature (%s)" % found[name][0] if k is None else "line %d: `%s`" % (k, (a[k] if k < len(a) else "<missing>").strip()[:80])))
