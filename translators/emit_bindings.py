"""IR (nml_extract.extract) -> lean/NmlVerif/Gen/Bindings.lean (+ names.json for the harness)."""
import json
import os
import sys

sys.path.insert(0, os.path.dirname(os.path.abspath(__file__)))
import nml_extract  # noqa


def fmt_float(v):
    s = "%.15f" % v
    if "." in s:
        s = s.rstrip("0")
        if s.endswith("."):
            s += "0"
    return s


def lex(litv, prim):
    """canonical lexical form of a literal under the member's codec (what gds_format_* would write)"""
    k = litv[0]
    if k == "none":
        return None
    v = litv[1]
    if prim in ("float",):
        return fmt_float(float(v))
    if prim == "double":
        return "%s" % float(v)
    if prim == "int":
        return "%d" % int(v)
    if prim == "bool":
        return "true" if v in (True, "true", "1") else "false"
    return str(v)


class Names:
    def __init__(self):
        self.ix = {}
        self.names = ["#text"]     # 0 is the text pseudo-class

    def __call__(self, s):
        if s is None:
            return None
        if s not in self.ix:
            self.ix[s] = len(self.names)
            self.names.append(s)
        return self.ix[s]


def lstr(s):
    return '"' + s.replace("\\", "\\\\").replace('"', '\\"').replace("\n", "\\n") + '"'


def opt(x, f=str):
    return "none" if x is None else "(some %s)" % f(x)


def lbool(b):
    return "true" if b else "false"


def spec_flags(sp):
    a = sp.get("attrs") or {}
    is_attr = "use" in a
    if is_attr:
        required = a.get("use") == "required"
        unbounded = False
    else:
        mn = a.get("minOccurs", "1")
        mx = a.get("maxOccurs", "1")
        required = str(mn) not in ("0",)
        unbounded = str(mx) == "unbounded" or (str(mx).isdigit() and int(mx) > 1)
    return is_attr, required, unbounded


def emit(table, out_path, names_path):
    N = Names()
    classes = table["classes"]
    for c in classes:     # intern class names first so they are small numbers
        N(c["name"])
    rows = []
    for c in classes:
        prim_of = {a["member"]: a["fmt"] for a in c.get("expAttrs", [])}
        if "ctor" not in c:
            rows.append("  { name := %d, base := none, specs := [], ctor := [], superArgs := [], expAttrs := [], bldAttrs := [], "
                        "expChildren := [], bldChildren := [], hasContent := [], supers := [], validate := [], recurse := [], "
                        "exportPure := false, nOpaque := %d }" % (N(c["name"]), max(1, len(c["opaque"]))))
            continue
        specs = []
        for sp in c["specs"]:
            if "opaque" in sp:
                continue
            ia, rq, ub = spec_flags(sp)
            specs.append("⟨%d, %d, %s, %s, %s, %s, %s⟩" % (N(sp["name"]), N(sp["type"]), lbool(sp["container"]),
                                                        lbool(sp["optional"]), lbool(ia), lbool(rq), lbool(ub)))
        ctor = []
        for p in c["ctor"]:
            cast = {None: 0, "none": 1, "raw": 2, "int": 3, "float": 4}.get(p["cast"], 9)
            prim = prim_of.get(p["name"], {3: "int", 4: "float"}.get(cast, "str"))
            d = None if p["default"][0] in ("none", "missing") else lex(p["default"], prim)
            ctor.append("⟨%d, %s, %d, %s⟩" % (N(p["name"]), opt(d, lstr), cast, lbool(p["list"])))
        ea = []
        for a in c["expAttrs"]:
            g = ".notNone" if a["guard"][0] == "notNone" else "(.ne %s)" % lstr(lex(a["guard"][1], a["fmt"]) or "")
            ea.append("⟨%d, %d, %d, .%s, %s⟩" % (N(a["member"]), N(a["xml"]), N(a["ap"]), a["fmt"], g))
        ba = []
        for a in c["bldAttrs"]:
            rng = {None: 0, "nonneg": 1, "pos": 2}[a["range"]]
            ba.append("⟨%d, %d, %d, .%s, %d, %s⟩" % (N(a["xml"]), N(a["member"]), N(a["ap"]), a["parse"], rng,
                                                  opt(N(a["validator"]))))
        ec = ["⟨%d, %d, .%s, %s⟩" % (N(a["member"]), N(a["tag"]), a["kind"], lbool(a["container"])) for a in c["expChildren"]]
        bc = ["⟨%d, %d, .%s, %s, %s, %s⟩" % (N(a["tag"]), N(a["member"]), a["kind"], lbool(a["container"]),
                                           opt(N(a["cls"])), lbool(a["poly"])) for a in c["bldChildren"]]
        hc = ["(%d, %s)" % (N(m), lbool(k == "notNone")) for m, k in c["hasContent"]]
        sup = [c["expAttrsSuper"], c["bldAttrsSuper"], c["expChildrenSuper"], c["bldChildrenSuper"], c["hasContentSuper"]]
        vi = []
        for it in c["validate"]:
            if it[0] == "simple":
                vi.append(".simple %d %d" % (N(it[1]), N(it[2])))
            elif it[0] == "builtin":
                vi.append(".builtin %d %d" % (N(it[1]), N(it[2])))
            elif it[0] == "req":
                vi.append(".req %d %s" % (N(it[1]), lbool(it[2])))
            else:
                vi.append(".card %d %d %d" % (N(it[1]), it[2], it[3]))
        rc = ["(%d, %s)" % (N(m), lbool(l)) for m, l in c["recurse"]]
        nop = len(c["opaque"]) + sum(1 for sp in c["specs"] if "opaque" in sp)
        rows.append(
            "  { name := %d, base := %s, specs := [%s],\n    ctor := [%s], superArgs := [%s],\n    expAttrs := [%s],\n    bldAttrs := [%s],\n"
            "    expChildren := [%s],\n    bldChildren := [%s],\n    hasContent := [%s], supers := [%s],\n    validate := [%s], recurse := [%s],\n"
            "    exportPure := %s, nOpaque := %d }"
            % (N(c["name"]), opt(N(c["base"])), ", ".join(specs), ", ".join(ctor), ", ".join(str(N(x)) for x in c["superArgs"]),
               ", ".join(ea), ", ".join(ba), ", ".join(ec), ", ".join(bc), ", ".join(hc), ", ".join(lbool(x) for x in sup),
               ", ".join(vi), ", ".join(rc), lbool(c["exportPure"]), nop))
    # one definition per class keeps elaboration fast and error messages local
    defs = []
    for i, r in enumerate(rows):
        defs.append("def cls%d : ClassIR :=\n%s\n" % (i, r))
    body = "\n".join(defs)
    tbl = "def table : Table := [%s]\n" % ", ".join("cls%d" % i for i in range(len(rows)))
    src = ("import NmlVerif.Model.Binding\n/-! GENERATED by translators/emit_bindings.py from neuroml/nml/nml.py — do not edit. -/\n"
           "namespace NmlVerif.Gen.Bindings\nopen NmlVerif.Binding\n\n%s\n%s\nend NmlVerif.Gen.Bindings\n" % (body, tbl))
    old = open(out_path).read() if os.path.exists(out_path) else None
    if old != src:
        with open(out_path, "w") as fh:
            fh.write(src)
    emit_names(table, N, os.path.join(os.path.dirname(out_path), "BindingNames.lean"))
    with open(names_path, "w") as fh:
        json.dump({"names": N.names, "classes": [c["name"] for c in classes]}, fh)
    return N


def lchars(s):
    def one(c):
        if c == "'":
            return "'\\''"
        if c == "\\":
            return "'\\\\'"
        if 32 <= ord(c) < 127:
            return "'%s'" % c
        return "(Char.ofNat %d)" % ord(c)
    return "[" + ", ".join(one(c) for c in s) + "]"


def emit_names(table, N, out_path):
    """the XML names of the bindings (element tags and attribute names the generated export methods write, plus the
    document element `neuroml`), with their interned numbers: lean/NmlVerif/Gen/BindingNames.lean"""
    used = []
    for c in table["classes"]:
        for a in c.get("expAttrs", []):
            if a["fmt"] != "xsitype":
                used.append(a["xml"])
        for ch in c.get("expChildren", []):
            if ch["kind"] != "any":
                used.append(ch["tag"])
    used.append("neuroml")
    pairs = sorted({(N(x), x) for x in used})
    chunks = [pairs[i:i + 60] for i in range(0, len(pairs), 60)]
    defs = []
    for i, ch in enumerate(chunks):
        defs.append("def names%d : List (Nat × List Char) :=\n  [%s]\n" % (
            i, ",\n   ".join("(%d, %s)" % (n, lchars(x)) for n, x in ch)))
    src = ("/-! GENERATED by translators/emit_bindings.py from neuroml/nml/nml.py — do not edit.\n"
           "    XML names (element tags, attribute names) written by the generated export methods, with the numbers they are\n"
           "    interned under in Gen/Bindings.lean. -/\nnamespace NmlVerif.Gen.BindingNames\n\n%s\n"
           "def xmlNames : List (Nat × List Char) := %s\n\nend NmlVerif.Gen.BindingNames\n"
           % ("\n".join(defs), " ++ ".join("names%d" % i for i in range(len(chunks))) or "[]"))
    old = open(out_path).read() if os.path.exists(out_path) else None
    if old != src:
        with open(out_path, "w") as fh:
            fh.write(src)


def regenerate(repo, lean_dir):
    t = nml_extract.extract(repo)
    gaps = []
    for c in t["classes"]:
        for o in c["opaque"]:
            gaps.append("nml.py:%s %s: unrecognised %s: %s" % (o[1], c["name"], o[0], str(o[2])[:120]))
    os.makedirs(os.path.join(lean_dir, "NmlVerif", "Gen"), exist_ok=True)
    N = emit(t, os.path.join(lean_dir, "NmlVerif", "Gen", "Bindings.lean"),
             os.path.join(lean_dir, "NmlVerif", "Gen", "bindings_names.json"))
    return t, N, gaps


if __name__ == "__main__":
    t, N, gaps = regenerate(sys.argv[1] if len(sys.argv) > 1 else "/repo",
                            os.path.join(os.path.dirname(os.path.dirname(os.path.abspath(__file__))), "lean"))
    print(len(t["classes"]), "classes,", len(N.names), "names,", len(gaps), "gaps")
    for g in gaps[:10]:
        print(g)
