"""schema IR (xsd_extract) + binding IR -> lean/NmlVerif/Gen/Xsd.lean (names shared with Gen/Bindings.lean)."""
import json
import os
import re
import sys

sys.path.insert(0, os.path.dirname(os.path.abspath(__file__)))
import xsd_extract  # noqa
from emit_bindings import lstr, lbool, opt  # noqa


def has_required_choice(p):
    if p is None or p["k"] in ("elem", "any"):
        return False
    if p["k"] == "choice" and p["lo"] >= 1:
        return True
    return any(has_required_choice(q) for q in p["ps"])


def has_interleaved(p):
    """a repeated choice one of whose branches is a sequence of several elements"""
    if p is None or p["k"] in ("elem", "any"):
        return False
    if p["k"] == "choice" and (p["hi"] is None or p["hi"] > 1) and any(q["k"] == "seq" and len(q["ps"]) > 1 for q in p["ps"]):
        return True
    return any(has_interleaved(q) for q in p["ps"])


def has_all(p):
    if p is None or p["k"] in ("elem", "any"):
        return False
    if p["k"] == "all":
        return True
    return any(has_all(q) for q in p["ps"])


def has_any(p):
    if p is None or p["k"] == "elem":
        return False
    if p["k"] == "any":
        return True
    return any(has_any(q) for q in p["ps"])


def canon_enum(v, base):
    if base in ("xs:double", "xs:float", "float"):
        return repr(float(v))
    return str(v)


def strip_anchor(p):
    m = re.fullmatch(r"\^\((.*)\)\$", p, re.S)
    return m.group(1) if m else "UNANCHORED:" + p


def groups_of(p):
    """own content model as a list of groups [("seq"|"all"|"choice", [effective elems])], or None when it has a
    wildcard or a group the three kinds do not express (a choice over a sequence group, nested choices, ...)"""
    if p is None:
        return []
    def elems_only(q):
        return all(c["k"] == "elem" for c in q["ps"])
    def flat_seq(q, outer):
        """a (possibly nested) sequence of element particles and element-level choices -> groups"""
        out = []
        rng = xsd_extract.mul((q["lo"], q["hi"]), outer)
        if rng != (1, 1):
            return None
        run = []
        for c in q["ps"]:
            if c["k"] == "elem":
                run.append(c)
            elif c["k"] == "seq":
                if run:
                    out.append(("seq", run)); run = []
                sub = flat_seq(c, (1, 1))
                if sub is None:
                    return None
                out += sub
            elif c["k"] == "choice" and elems_only(c) and (c["lo"], c["hi"]) == (1, 1):
                if run:
                    out.append(("seq", run)); run = []
                out.append(("choice", list(c["ps"])))
            else:
                return None
        if run:
            out.append(("seq", run))
        return out
    if p["k"] == "elem":
        return [("seq", [p])]
    if p["k"] == "any":
        return None
    if p["k"] == "all":
        return [("all", list(p["ps"]))] if elems_only(p) and (p["lo"], p["hi"]) == (1, 1) else None
    if p["k"] == "choice":
        return [("choice", list(p["ps"]))] if elems_only(p) and (p["lo"], p["hi"]) == (1, 1) else None
    return flat_seq(p, (1, 1))


def emit(X, table, N, out_path):
    stnames = {s["name"] for s in X["stypes"]}
    rows = []
    for t in X["ctypes"]:
        attrs = ["⟨%d, %s, %s⟩" % (N(a["name"]), opt(N(a["type"]) if a["type"] in stnames else None), lbool(a["use"] == "required"))
                 for a in t["attrs"]]
        elems = []
        for e in xsd_extract.effective_elems(t["content"]):
            is_text = e["type"] in stnames or (e["type"] or "").startswith("xs:")
            elems.append("⟨%d, %d, %d, %s, %s, %s, %s⟩" % (N(e["tag"]), N(e["type"]), e["lo"], opt(e["hi"]), lbool(e["choice"]),
                                                      lbool(is_text), opt(N(e["type"]) if e["type"] in stnames else None)))
        rows.append("  ⟨%d, %s, [%s], [%s], %s, %s, %s, %s⟩" % (N(t["name"]), opt(N(t["base"])), ", ".join(attrs), ", ".join(elems),
                                                           lbool(has_any(t["content"])), lbool(has_required_choice(t["content"])),
                                                           lbool(has_interleaved(t["content"])),
                                                           lbool(has_all(t["content"]))))
    grows = []
    for t in X["ctypes"]:
        gs = groups_of(t["content"])
        if gs is None:
            grows.append("  (%d, none)" % N(t["name"]))
            continue
        gl = []
        for kind, es in gs:
            el = []
            for e in es:
                is_text = e["type"] in stnames or (e["type"] or "").startswith("xs:")
                in_choice = kind == "choice"
                el.append("⟨%d, %d, %d, %s, %s, %s, %s⟩" % (N(e["tag"]), N(e["type"]), e["lo"], opt(e["hi"]),
                                                      lbool(in_choice), lbool(is_text), opt(N(e["type"]) if e["type"] in stnames else None)))
            gl.append("(.%s [%s])" % (kind, ", ".join(el)))
        grows.append("  (%d, some [%s])" % (N(t["name"]), ", ".join(gl)))
    sf = []
    for s in X["stypes"]:
        sf.append("  ⟨%d, %s, [%s], [%s], [%s]⟩" % (
            N(s["name"]), lstr(s["base"]), ", ".join(lstr(p) for p in s["patterns"]),
            ", ".join(lstr(canon_enum(e, s["base"])) for e in s["enums"]),
            ", ".join("(%s, %s)" % (lstr(k), lstr(repr(float(v)))) for k, v in sorted(s["bounds"].items()))))
    # the copies of each simple-type validator found in nml.py, one per (class, type)
    pybase = {"str": "xs:string", "int": "int", "float": "float"}
    xbase = {s["name"]: s["base"] for s in X["stypes"]}
    cp = []
    for c in table["classes"]:
        for s in c.get("stypes", []):
            pats = c.get("patterns", {}).get(s["name"])
            flat = []
            if pats:
                if len(pats) != 1:
                    flat = ["MULTIGROUP"]
                else:
                    flat = [strip_anchor(p) for p in pats[0]]
            if bool(pats) != bool(s["patterns"]):
                flat = ["PATTERNS-NOT-APPLIED"] + flat
            b = xbase.get(s["name"], "?")
            cp.append("  (%d, ⟨%d, %s, [%s], [%s], [%s]⟩)" % (
                N(c["name"]), N(s["name"]), lstr(s["base"] or "none"), ", ".join(lstr(p) for p in flat),
                ", ".join(lstr(canon_enum(e, b)) for e in (s["enums"] or [])),
                ", ".join("(%s, %s)" % (lstr(k), lstr(repr(float(v)))) for k, v in sorted(s["bounds"]))))
    chunks = []
    def chunked(name, ty, items, n=40):
        parts = []
        for i in range(0, max(len(items), 1), n):
            parts.append("def %s%d : List %s := [\n%s\n]\n" % (name, i // n, ty, ",\n".join(items[i:i + n])))
        return "\n".join(parts) + "def %s : List %s := %s\n" % (name, ty, " ++ ".join("%s%d" % (name, i // n) for i in range(0, max(len(items), 1), n)))
    src = ("import NmlVerif.Model.Schema\n/-! GENERATED by translators/emit_xsd.py from %s and neuroml/nml/nml.py — do not edit. -/\n"
           "namespace NmlVerif.Gen.Xsd\nopen NmlVerif.Schema\n\n%s\n%s\n%s\n%s\ndef schemaVersion : String := %s\nend NmlVerif.Gen.Xsd\n"
           % (os.path.basename(X["path"]), chunked("types", "XType", rows), chunked("schemaFacets", "Facets", sf),
              chunked("bindingFacets", "(Nat × Facets)", cp), chunked("groups", "(Nat × Option (List XGroup))", grows),
              lstr(X["version"] or "")))
    old = open(out_path).read() if os.path.exists(out_path) else None
    if old != src:
        with open(out_path, "w") as fh:
            fh.write(src)


def emit_names(N, out_path):
    """one Lean constant per interned name, for witnesses/examples stated on today's tables"""
    seen, lines = set(), []
    for i, n in enumerate(N.names):
        ident = "nm_" + re.sub(r"[^A-Za-z0-9_]", "_", n)
        if ident in seen:
            ident += "_%d" % i
        seen.add(ident)
        lines.append("def %s : Nat := %d" % (ident, i))
    src = ("/-! GENERATED by translators/emit_xsd.py — interned names of Gen/Bindings.lean and Gen/Xsd.lean. -/\n"
           "namespace NmlVerif.Gen.Names\n%s\nend NmlVerif.Gen.Names\n" % "\n".join(lines))
    old = open(out_path).read() if os.path.exists(out_path) else None
    if old != src:
        with open(out_path, "w") as fh:
            fh.write(src)


def regenerate(repo, lean_dir, table, N):
    X = xsd_extract.extract(repo)
    emit(X, table, N, os.path.join(lean_dir, "NmlVerif", "Gen", "Xsd.lean"))
    emit_names(N, os.path.join(lean_dir, "NmlVerif", "Gen", "Names.lean"))
    with open(os.path.join(lean_dir, "NmlVerif", "Gen", "bindings_names.json"), "w") as fh:
        json.dump({"names": N.names, "classes": [c["name"] for c in table["classes"]]}, fh)
    return X, ["xsd: " + g for g in X["gaps"]]
