"""factory_extract.py — the code property C09 is about -> lean/NmlVerif/Gen/Factory.lean      (second pass of C09)

Reads the CURRENT working tree of the repository with `ast` (nothing is imported) and regenerates, on every run:

 1. `ctorTable`   the constructor table of every generated class (parameters in signature order, default literal,
                  `_cast` kind, list flag, the names handed positionally to `super().__init__`) — from the same IR as
                  `Gen/Bindings.lean` (translators/nml_extract.py), interned with the names of `Gen/Members.lean`;
                  `toBindings` maps these ids to the ids of `Gen/Bindings.lean` so that Lean can prove the two tables
                  equal (`c09_gen_ctor_is_bindings`).
 2. statement-level translations of
        GeneratedsSuperSuper.component_factory, ._check_arg_list, .add (type-argument path and the final gate; the
        placement block in between is property C10's and is only required not to touch the gate),
        neuroml.utils.component_factory, neuroml.enable/disable/get_build_time_validation,
        build_time_validation.ENABLED (initial value), the defaults of the `validate` parameters.
 3. `switchWriters` / `switchReaders`: every place in the package (tests excluded) that writes / reads `ENABLED`.
 4. `helperSites`: every call of `component_factory` / `.add(` / `.validate(` / a raw `Cls(**kwargs)` inside the
    helper methods (`neuroml/nml/helper_methods.py` AND the copies inside `neuroml/nml/nml.py`; the two lists must
    agree).

Every statement that is not of a recognised shape is reported as a *gap* (the check then treats the translator
obligation as broken); nothing is skipped silently.  stdlib only (+ the sibling translators).
"""
import ast
import json
import os
import re
import sys
import textwrap

sys.path.insert(0, os.path.dirname(os.path.abspath(__file__)))
import members_extract  # noqa: E402
import emit_bindings  # noqa: E402

GSS = os.path.join("neuroml", "nml", "generatedssupersuper.py")
STD_METHODS = {"__init__", "factory", "has__content", "export", "_exportAttributes", "_exportChildren", "validate_",
               "build", "_buildAttributes", "_buildChildren", "get_ns_prefix_", "set_ns_prefix_", "hasContent_",
               "exportAttributes", "exportChildren", "buildAttributes", "buildChildren"}


class Gap(Exception):
    pass


def src(n):
    return ast.unparse(n)


def lstr(s):
    return json.dumps(s, ensure_ascii=False)


def lbool(b):
    return "true" if b else "false"


# ---------------------------------------------------------------------------------------------- normalisation
# Behaviour-preserving surface variants of a statement are mapped to ONE canonical shape before translation, so that
# the generated Lean text (and every "generated = model" proof) is the same for all of them.  Each rule preserves the
# meaning for ALL inputs (reason given at the rule); anything not covered is left alone and, if the translators do not
# know it, REFUSED as before.
import copy

_NEG = {ast.In: ast.NotIn, ast.NotIn: ast.In, ast.Eq: ast.NotEq, ast.NotEq: ast.Eq, ast.Is: ast.IsNot, ast.IsNot: ast.Is}


class _ExprNorm(ast.NodeTransformer):
    def visit_UnaryOp(self, n):
        self.generic_visit(n)
        # `not a in b` = `a not in b`, `not a == b` = `a != b`, `not a is b` = `a is not b`: Python evaluates the
        # comparison once and negates its truth value; `in`/`is` always give a bool, and for `==`/`!=` of the values
        # met here (str, int, None) `!=` is the negation of `==`
        if isinstance(n.op, ast.Not) and isinstance(n.operand, ast.Compare) and len(n.operand.ops) == 1 \
                and type(n.operand.ops[0]) in (ast.In, ast.NotIn, ast.Is, ast.IsNot):
            c = n.operand
            return ast.copy_location(ast.Compare(c.left, [_NEG[type(c.ops[0])]()], c.comparators), n)
        return n

    def visit_IfExp(self, n):
        self.generic_visit(n)
        # `False if x else True` = `not x` (both are exactly `bool(x)` negated)
        if isinstance(n.body, ast.Constant) and n.body.value is False and isinstance(n.orelse, ast.Constant) and n.orelse.value is True:
            return ast.copy_location(ast.UnaryOp(ast.Not(), n.test), n)
        return n

    def visit_Call(self, n):
        self.generic_visit(n)
        # `list(d.keys())` = `list(d)` for a dict `d` (here: the `**kwargs` dict): iterating a dict iterates its keys
        if isinstance(n.func, ast.Name) and n.func.id == "list" and len(n.args) == 1 and not n.keywords:
            a = n.args[0]
            if isinstance(a, ast.Call) and isinstance(a.func, ast.Attribute) and a.func.attr == "keys" and not a.args \
                    and isinstance(a.func.value, ast.Name) and a.func.value.id == "kwargs":
                n.args = [a.func.value]
        return n

    def visit_Return(self, n):
        self.generic_visit(n)
        # `return None` = `return`
        if isinstance(n.value, ast.Constant) and n.value.value is None:
            n.value = None
        return n

    def visit_If(self, n):
        self.generic_visit(n)
        # `if not c: A else: B` = `if c: B else: A` (both branches present; `not` only negates the truth value)
        if isinstance(n.test, ast.UnaryOp) and isinstance(n.test.op, ast.Not) and n.orelse \
                and not (len(n.orelse) == 1 and isinstance(n.orelse[0], ast.If)):
            n.test, n.body, n.orelse = n.test.operand, n.orelse, n.body
        return n

    def visit_For(self, n):
        self.generic_visit(n)
        # `for k in d.keys()` = `for k in d` (same reason)
        a = n.iter
        if isinstance(a, ast.Call) and isinstance(a.func, ast.Attribute) and a.func.attr == "keys" and not a.args \
                and isinstance(a.func.value, ast.Name) and a.func.value.id == "kwargs":
            n.iter = a.func.value
        return n


def _names(node, ctx=None):
    return [x for x in ast.walk(node) if isinstance(x, ast.Name) and (ctx is None or isinstance(x.ctx, ctx))]


def _count(stmts, name, ctx=None):
    return sum(1 for st in stmts for x in _names(st, ctx) if x.id == name)


def _ends(block):
    return bool(block) and isinstance(block[-1], (ast.Return, ast.Raise, ast.Continue, ast.Break))


def _subst(node, name, expr):
    class S(ast.NodeTransformer):
        def visit_Name(self, x):
            return copy.deepcopy(expr) if x.id == name and isinstance(x.ctx, ast.Load) else x
    return S().visit(copy.deepcopy(node))


def _simple_args_before(call, name):
    """`name` is a direct positional argument of `call` and everything evaluated before it is a plain name/constant
    (so moving the evaluation of the inlined expression to that place changes no order of effects)"""
    if not isinstance(call, ast.Call) or not isinstance(call.func, (ast.Name, ast.Attribute)):
        return False
    if isinstance(call.func, ast.Attribute) and not isinstance(call.func.value, ast.Name):
        return False
    for a in call.args:
        if isinstance(a, ast.Name) and a.id == name:
            return True
        if not isinstance(a, (ast.Name, ast.Constant)):
            return False
    return False


def _norm_block(block, whole):
    """one pass over a statement list; `whole` = all statements of the function (for use counts)"""
    out = []
    i = 0
    changed = False
    while i < len(block):
        st = block[i]
        nxt = block[i + 1] if i + 1 < len(block) else None
        # nested blocks first
        for f in ("body", "orelse", "finalbody"):
            if isinstance(getattr(st, f, None), list) and getattr(st, f) and isinstance(getattr(st, f)[0], ast.stmt):
                nb, ch = _norm_block(getattr(st, f), whole)
                setattr(st, f, nb)
                changed = changed or ch
        one = isinstance(st, ast.Assign) and len(st.targets) == 1 and isinstance(st.targets[0], ast.Name)
        # (1) `x = A if c else B`  =  `if c: x = A` / `else: x = B`   (definition of the conditional expression)
        if one and isinstance(st.value, ast.IfExp):
            x = st.targets[0]
            out.append(ast.copy_location(ast.If(st.value.test, [ast.copy_location(ast.Assign([copy.deepcopy(x)], st.value.body), st)],
                                                [ast.copy_location(ast.Assign([copy.deepcopy(x)], st.value.orelse), st)]), st))
            i += 1
            changed = True
            continue
        # (2) `if c: x = A else: x = B` ; `y = f(n…, x)` with x used nowhere else  =  `if c: y = f(n…, A) else: y = f(n…, B)`
        #     (x is bound and read exactly once on each path; the arguments before it are plain names)
        if isinstance(st, ast.If) and len(st.body) == 1 and len(st.orelse) == 1 and nxt is not None \
                and all(isinstance(b, ast.Assign) and len(b.targets) == 1 and isinstance(b.targets[0], ast.Name) for b in (st.body[0], st.orelse[0])) \
                and st.body[0].targets[0].id == st.orelse[0].targets[0].id:
            x = st.body[0].targets[0].id
            if isinstance(nxt, ast.Assign) and _simple_args_before(nxt.value, x) and _count([nxt], x, ast.Load) == 1 \
                    and _count(whole, x, ast.Load) == 1 and _count(whole, x, ast.Store) == 2 and x not in [t.id for t in _names(st.test)]:
                out.append(ast.copy_location(ast.If(st.test, [_subst(nxt, x, st.body[0].value)], [_subst(nxt, x, st.orelse[0].value)]), st))
                i += 2
                changed = True
                continue
        # (3) a local bound once and read once, in the very next statement, as what is returned / raised / a direct
        #     argument after plain names: `x = E; return x` = `return E`, `e = Exc(…); raise e` = `raise Exc(…)`
        if one and nxt is not None and not isinstance(st.value, ast.IfExp):
            x = st.targets[0].id
            if _count(whole, x, ast.Load) == 1 and _count(whole, x, ast.Store) == 1 and x not in ("self", "cls"):
                if isinstance(nxt, ast.Return) and isinstance(nxt.value, ast.Name) and nxt.value.id == x:
                    out.append(ast.copy_location(ast.Return(st.value), nxt))
                    i += 2
                    changed = True
                    continue
                if isinstance(nxt, ast.Raise) and isinstance(nxt.exc, ast.Name) and nxt.exc.id == x and nxt.cause is None:
                    out.append(ast.copy_location(ast.Raise(st.value, None), nxt))
                    i += 2
                    changed = True
                    continue
        # (4) `x = []` ; `for v in it: x.append(E)` (or `… if c: x.append(E)`)  =  `x = [E for v in it (if c)]`
        #     (the loop does nothing but append, `x` is not read by E / c / it)
        if one and isinstance(st.value, ast.List) and not st.value.elts and isinstance(nxt, ast.For) and not nxt.orelse \
                and isinstance(nxt.target, ast.Name) and len(nxt.body) == 1:
            x = st.targets[0].id
            b = nxt.body[0]
            cond = None
            if isinstance(b, ast.If) and not b.orelse and len(b.body) == 1:
                cond, b = b.test, b.body[0]
            if isinstance(b, ast.Expr) and isinstance(b.value, ast.Call) and isinstance(b.value.func, ast.Attribute) \
                    and b.value.func.attr == "append" and isinstance(b.value.func.value, ast.Name) and b.value.func.value.id == x \
                    and len(b.value.args) == 1 and not b.value.keywords \
                    and x not in [n.id for n in _names(b.value.args[0])] + [n.id for n in _names(nxt.iter)] + ([n.id for n in _names(cond)] if cond else []):
                comp = ast.ListComp(b.value.args[0], [ast.comprehension(nxt.target, nxt.iter, [cond] if cond else [], 0)])
                out.append(ast.copy_location(ast.Assign([st.targets[0]], comp), st))
                i += 2
                changed = True
                continue
        # (5) `if c: …return/raise/continue` ; `else: S`  =  the same without `else` (the else branch is exactly what runs
        #     when the if branch was not taken, because the if branch never falls through)
        if isinstance(st, ast.If) and st.orelse and _ends(st.body):
            rest = st.orelse
            st.orelse = []
            out.append(st)
            out.extend(rest)
            i += 1
            changed = True
            continue
        out.append(st)
        i += 1
    return out, changed


def normalise(stmts):
    stmts = [ast.fix_missing_locations(_ExprNorm().visit(copy.deepcopy(st))) for st in stmts]
    for _ in range(20):
        stmts, ch = _norm_block(stmts, stmts)
        if not ch:
            break
    for st in stmts:
        ast.fix_missing_locations(st)
    return stmts


def rename_locals(stmts, mapping):
    """alpha-renaming of LOCAL variables (the mapping is inferred by the caller from the role a local plays): the
    meaning of a function does not depend on the names of its locals"""
    if not mapping or all(k == v for k, v in mapping.items()):
        return stmts

    class R(ast.NodeTransformer):
        def visit_Name(self, x):
            if x.id in mapping:
                x.id = mapping[x.id]
            return x
    return [R().visit(st) for st in stmts]


def body_wo_doc(fn):
    b = list(fn.body)
    if b and isinstance(b[0], ast.Expr) and isinstance(b[0].value, ast.Constant) and isinstance(b[0].value.value, str):
        b = b[1:]
    return normalise(b)


def is_noise(st):
    """`logger.<x>(…)`, `print(…)`, `self.info()`: no effect on what the property observes"""
    if isinstance(st, ast.Expr) and isinstance(st.value, ast.Call):
        f = st.value.func
        if isinstance(f, ast.Attribute) and isinstance(f.value, ast.Name) and f.value.id == "logger":
            return True
        if isinstance(f, ast.Name) and f.id == "print":
            return True
        if src(st.value) == "self.info()":
            return True
    return False


def find_method(tree, cls, name):
    for n in tree.body:
        if isinstance(n, ast.ClassDef) and n.name == cls:
            for f in n.body:
                if isinstance(f, ast.FunctionDef) and f.name == name:
                    return f
    return None


def find_function(tree, name):
    for n in tree.body:
        if isinstance(n, ast.FunctionDef) and n.name == name:
            return n
    return None


def param_default(fn, name):
    """default expression of parameter `name` (None if it has none / does not exist)"""
    args = fn.args.args
    d0 = len(args) - len(fn.args.defaults)
    for i, a in enumerate(args):
        if a.arg == name:
            return fn.args.defaults[i - d0] if i >= d0 else None
    for a, d in zip(fn.args.kwonlyargs, fn.args.kw_defaults):
        if a.arg == name:
            return d
    return None


# ---------------------------------------------------------------------------------------------- conditions
def cond(n, enabled_ok=True):
    """gate conditions over the two switches -> Lean Bool expression"""
    s = src(n)
    if s in ("neuroml.build_time_validation.ENABLED", "build_time_validation.ENABLED") and enabled_ok:
        return "enabled"
    if isinstance(n, ast.Name) and n.id == "validate":
        return "validate"
    if isinstance(n, ast.Constant) and isinstance(n.value, bool):
        return lbool(n.value)
    if isinstance(n, ast.BoolOp):
        op = " && " if isinstance(n.op, ast.And) else " || "
        return "(" + op.join(cond(v) for v in n.values) + ")"
    if isinstance(n, ast.UnaryOp) and isinstance(n.op, ast.Not):
        return "(!" + cond(n.operand) + ")"
    raise Gap("condition not understood: %s" % s[:100])


# ---------------------------------------------------------------------------------------------- component_factory
def tr_component_factory(fn, nid, out, info):
    a = fn.args
    names = [x.arg for x in a.args]
    if names != ["cls", "component_type", "validate"] or a.kwarg is None or a.kwarg.arg != "kwargs" or a.vararg:
        raise Gap("component_factory: signature is not (cls, component_type, validate=…, **kwargs): %s" % names)
    if not any(src(d) == "classmethod" for d in fn.decorator_list):
        raise Gap("component_factory is not a classmethod")
    d = param_default(fn, "validate")
    if not (isinstance(d, ast.Constant) and isinstance(d.value, bool)):
        raise Gap("component_factory: default of `validate` is not a bool literal")
    info["factoryDefaultValidate"] = d.value
    lines = []
    have = {"cls", "component_type", "validate", "kwargs"}     # Python names in scope
    returned = False
    body = body_wo_doc(fn)
    # local names by ROLE (alpha-renaming to the names the code has today): the module looked up in sys.modules, the
    # class fetched from it with getattr, the instance made by calling that class with **kwargs
    roles = {}
    for st in body:
        if isinstance(st, ast.Assign) and len(st.targets) == 1 and isinstance(st.targets[0], ast.Name):
            if src(st.value) == "sys.modules[cls.__module__]":
                roles.setdefault(st.targets[0].id, "module_object")
            v = st.value
            if isinstance(v, ast.Call) and isinstance(v.func, ast.Name) and roles.get(v.func.id) == "comp_type_class" \
                    and not v.args and len(v.keywords) == 1 and v.keywords[0].arg is None:
                roles.setdefault(st.targets[0].id, "comp")
        if isinstance(st, ast.If) and len(st.body) == 1 and len(st.orelse) == 1:
            a, b = st.body[0], st.orelse[0]
            if all(isinstance(x, ast.Assign) and len(x.targets) == 1 and isinstance(x.targets[0], ast.Name)
                   and isinstance(x.value, ast.Call) and src(x.value.func) == "getattr" and len(x.value.args) == 2
                   and isinstance(x.value.args[0], ast.Name) and roles.get(x.value.args[0].id) == "module_object" for x in (a, b)) \
                    and a.targets[0].id == b.targets[0].id:
                roles.setdefault(a.targets[0].id, "comp_type_class")
    if len(set(roles.values())) == len(roles) and not (set(roles.values()) - set(roles)) & {n.id for st in body for n in _names(st)}:
        body = rename_locals(body, roles)
    for st in body:
        s = src(st)
        if returned:
            raise Gap("component_factory: statement after return: %s" % s[:80])
        if is_noise(st):
            continue
        if s == "module_object = sys.modules[cls.__module__]":
            have.add("module_object")
            continue
        if isinstance(st, ast.If) and src(st.test) == "isinstance(component_type, str)":
            if (len(st.body) == 1 and len(st.orelse) == 1
                    and src(st.body[0]) == "comp_type_class = getattr(module_object, component_type)"
                    and src(st.orelse[0]) == "comp_type_class = getattr(module_object, component_type.__name__)"
                    and "module_object" in have):
                lines.append("(match component_type with\n"
                             "    | .byName n => Py.getattrModule T n      -- getattr(module_object, component_type)\n"
                             "    | .byClass n => Py.getattrModule T n     -- getattr(module_object, component_type.__name__)\n"
                             "  ) >>= fun comp_type_class =>")
                have.add("comp_type_class")
                continue
            raise Gap("component_factory: type resolution not understood: %s" % s[:160])
        if s == "comp = comp_type_class(**kwargs)" and "comp_type_class" in have:
            lines.append("Py.instantiate C env comp_type_class kwargs oid >>= fun comp =>")
            have.add("comp")
            continue
        if isinstance(st, ast.If) and not st.orelse and len(st.body) == 1 and "comp" in have:
            m = re.fullmatch(r"comp_type_class\.__name__ == '(\w+)'", src(st.test))
            if m and src(st.body[0]) == "comp.setup_nml_cell()":
                lines.append("(if Py.nameIs comp_type_class setupClass /- %s -/ then Py.setupNmlCell env comp else pure comp) >>= fun comp =>"
                             % lstr(m.group(1)))
                info["setupFor"] = m.group(1)
                continue
        if s == "comp._check_arg_list(**kwargs)" and "comp" in have:
            lines.append("checkArgList T comp kwargs >>= fun _ =>")
            continue
        if isinstance(st, ast.If) and "comp" in have and len(st.body) == 1 and src(st.body[0]) == "comp.validate()" \
                and all(is_noise(x) for x in st.orelse):
            lines.append("(if %s then Py.validate env comp else pure ()) >>= fun _ =>" % cond(st.test))
            continue
        if s == "comp.validate()" and "comp" in have:
            lines.append("Py.validate env comp >>= fun _ =>")
            continue
        if s == "return comp" and "comp" in have:
            lines.append("pure comp")
            returned = True
            continue
        raise Gap("component_factory: statement not understood (line %d): %s" % (st.lineno, s[:160]))
    if not returned:
        raise Gap("component_factory: no `return comp`")
    out.append("/-- `GeneratedsSuperSuper.component_factory` (generatedssupersuper.py), statement by statement -/")
    out.append("def componentFactory (T : Table) (C : CtorTable) (env : Env) (enabled validate : Bool) (component_type : TypeArg)\n"
               "    (kwargs : Kwargs) (oid : Nat) : Except Factory.Err Obj :=")
    for l in lines:
        out.append("  " + l)
    out.append("")


# ---------------------------------------------------------------------------------------------- _check_arg_list
def tr_check_arg_list(fn, out):
    a = fn.args
    if [x.arg for x in a.args] != ["self"] or a.kwarg is None or a.kwarg.arg != "kwargs" or a.vararg or a.kwonlyargs:
        raise Gap("_check_arg_list: signature is not (self, **kwargs)")
    lets = []
    kinds = {}       # python variable -> "members" | "names" | "keys"
    body = body_wo_doc(fn)
    i = 0
    final = None
    while i < len(body):
        st = body[i]
        s = src(st)
        if is_noise(st):
            i += 1
            continue
        if final is not None:
            raise Gap("_check_arg_list: statement after the checking loop: %s" % s[:80])
        m = re.fullmatch(r"(\w+) = self\._get_members\(\)", s)
        if m:
            lets.append("let members := Py.getMembers T self")
            kinds[m.group(1)] = "members"
            i += 1
            continue
        m = re.fullmatch(r"(\w+) = \[\]", s)
        if m and i + 1 < len(body) and isinstance(body[i + 1], ast.For):
            f = body[i + 1]
            acc = m.group(1)
            if (isinstance(f.target, ast.Name) and isinstance(f.iter, ast.Name) and kinds.get(f.iter.id) == "members"
                    and not f.orelse and len(f.body) == 1
                    and src(f.body[0]) == "%s.append(%s.get_name())" % (acc, f.target.id)):
                lets.append("let member_names := members.map (fun m => m.name)")
                kinds[acc] = "names"
                i += 2
                continue
            raise Gap("_check_arg_list: accumulation loop not understood: %s" % src(f)[:160])
        m = re.fullmatch(r"(\w+) = \[(\w+)\.get_name\(\) for (\w+) in (\w+)\]", s)
        if m and m.group(2) == m.group(3) and kinds.get(m.group(4)) == "members":
            lets.append("let member_names := members.map (fun m => m.name)")
            kinds[m.group(1)] = "names"
            i += 1
            continue
        m = re.fullmatch(r"(\w+) = list\(kwargs\.keys\(\)\)", s) or re.fullmatch(r"(\w+) = list\(kwargs\)", s)
        if m:
            lets.append("let args := keys kwargs")
            kinds[m.group(1)] = "keys"
            i += 1
            continue
        if isinstance(st, ast.For) and isinstance(st.target, ast.Name) and not st.orelse:
            it = src(st.iter)
            if isinstance(st.iter, ast.Name) and kinds.get(st.iter.id) == "keys":
                keys_expr = "args"
            elif it in ("kwargs", "kwargs.keys()"):
                # iterating the dict itself = iterating `list(kwargs.keys())`: same canonical binding
                lets.append("let args := keys kwargs")
                keys_expr = "args"
            else:
                raise Gap("_check_arg_list: loop over %s not understood" % it[:60])
            v = st.target.id
            if len(st.body) != 1 or not isinstance(st.body[0], ast.If) or st.body[0].orelse:
                raise Gap("_check_arg_list: loop body is not a single `if`: %s" % src(st)[:160])
            iff = st.body[0]
            t = iff.test
            if not (isinstance(t, ast.Compare) and len(t.ops) == 1 and isinstance(t.left, ast.Name) and t.left.id == v
                    and isinstance(t.comparators[0], ast.Name) and kinds.get(t.comparators[0].id) == "names"):
                raise Gap("_check_arg_list: membership test not understood: %s" % src(t)[:120])
            names_var = t.comparators[0].id
            if isinstance(t.ops[0], ast.NotIn):
                test = "!(member_names.contains arg)"
            elif isinstance(t.ops[0], ast.In):
                test = "member_names.contains arg"
            else:
                raise Gap("_check_arg_list: membership test not understood: %s" % src(t)[:120])
            raised = False
            for b in iff.body:
                bs = src(b)
                if is_noise(b):
                    continue
                if isinstance(b, ast.Assign) and len(b.targets) == 1 and isinstance(b.targets[0], ast.Name) \
                        and isinstance(b.value, ast.JoinedStr):
                    if ("{%s}" % v) not in bs:
                        raise Gap("_check_arg_list: the message does not name the offending keyword: %s" % bs[:120])
                    continue
                if isinstance(b, ast.Raise) and isinstance(b.exc, ast.Call) and src(b.exc.func) == "ValueError":
                    raised = True
                    continue
                raise Gap("_check_arg_list: statement in the refusal branch not understood: %s" % bs[:120])
            if not raised:
                raise Gap("_check_arg_list: the refusal branch does not raise ValueError")
            final = ("match %s.find? (fun arg => %s) with\n  | some arg => .error (.badArg arg)      -- raise ValueError(err)\n"
                     "  | none => pure ()" % (keys_expr, test))
            i += 1
            continue
        raise Gap("_check_arg_list: statement not understood (line %d): %s" % (st.lineno, s[:160]))
    if final is None:
        raise Gap("_check_arg_list: no checking loop found")
    out.append("/-- `GeneratedsSuperSuper._check_arg_list` (generatedssupersuper.py), statement by statement -/")
    out.append("def checkArgList (T : Table) (self : Obj) (kwargs : Kwargs) : Except Factory.Err Unit :=")
    for l in lets:
        out.append("  " + l)
    for l in final.split("\n"):
        out.append("  " + l)
    out.append("")


# ---------------------------------------------------------------------------------------------- add
GATE_NAMES = {"validate", "kwargs", "component_factory", "ENABLED", "build_time_validation", "_check_arg_list"}


def tr_add(fn, out, info):
    a = fn.args
    names = [x.arg for x in a.args]
    if names != ["self", "obj", "hint", "force", "validate"] or a.kwarg is None or a.kwarg.arg != "kwargs" or a.vararg:
        raise Gap("add: signature is not (self, obj, hint, force, validate, **kwargs): %s" % names)
    d = param_default(fn, "validate")
    if not (isinstance(d, ast.Constant) and isinstance(d.value, bool)):
        raise Gap("add: default of `validate` is not a bool literal")
    info["addDefaultValidate"] = d.value
    body = [st for st in body_wo_doc(fn)]
    # 1. `if not obj: self.info(); return`
    if not (body and isinstance(body[0], ast.If) and src(body[0].test) == "not obj" and not body[0].orelse
            and [src(x) for x in body[0].body] == ["self.info()", "return"]):
        raise Gap("add: first statement is not `if not obj: self.info(); return`")
    # 2. the type-argument path
    st = body[1] if len(body) > 1 else None
    if not (isinstance(st, ast.If) and not st.orelse and len(st.body) == 1
            and src(st.test) in ("type(obj) is type or isinstance(obj, str)", "isinstance(obj, str) or type(obj) is type",
                                 "isinstance(obj, (str, type))", "isinstance(obj, (type, str))")):
        raise Gap("add: second statement is not the type-argument test: %s" % (src(st)[:120] if st else "<none>"))
    call = st.body[0]
    if not (isinstance(call, ast.Assign) and src(call.targets[0]) == "obj" and isinstance(call.value, ast.Call)
            and src(call.value.func) == "self.component_factory"):
        raise Gap("add: the type-argument branch does not assign obj = self.component_factory(…): %s" % src(call)[:120])
    c = call.value
    if len(c.args) != 1 or src(c.args[0]) != "obj":
        raise Gap("add: component_factory is not called with (obj, …): %s" % src(c)[:120])
    flag = None
    passkw = False
    for kw in c.keywords:
        if kw.arg is None:
            if src(kw.value) != "kwargs":
                raise Gap("add: ** of something else than kwargs: %s" % src(c)[:120])
            passkw = True
        elif kw.arg == "validate":
            flag = cond(kw.value, enabled_ok=False)
        else:
            raise Gap("add: extra keyword %s= in the component_factory call" % kw.arg)
    if not passkw:
        raise Gap("add: **kwargs is not handed to component_factory")
    if flag is None:
        flag = lbool(info["factoryDefaultValidate"]) + " /- default of component_factory -/"
    # 3. the tail: final gate + return
    if not (len(body) >= 4 and src(body[-1]) == "return obj"):
        raise Gap("add: last statement is not `return obj`")
    gate = body[-2]
    if isinstance(gate, ast.If) and len(gate.body) == 1 and src(gate.body[0]) == "self.validate()" \
            and all(is_noise(x) for x in gate.orelse):
        gcond = cond(gate.test)
    elif src(gate) == "self.validate()":
        gcond = "true"
    else:
        raise Gap("add: the statement before `return obj` is not the validation gate: %s" % src(gate)[:160])
    # 4. the placement block (property C10): must not touch the gate, the keywords or return early
    block = body[2:-2]
    for stb in block:
        for n in ast.walk(stb):
            ident = n.id if isinstance(n, ast.Name) else (n.attr if isinstance(n, ast.Attribute) else None)
            if ident in GATE_NAMES:
                raise Gap("add: the placement block (line %d) refers to `%s`" % (getattr(n, "lineno", stb.lineno), ident))
            if isinstance(n, ast.Return):
                raise Gap("add: the placement block returns early (line %d)" % n.lineno)
            if isinstance(n, ast.Call) and isinstance(n.func, ast.Attribute) and n.func.attr in ("validate", "validate_"):
                raise Gap("add: the placement block validates (line %d)" % n.lineno)
    info["addPlacementLines"] = [block[0].lineno, block[-1].end_lineno] if block else None
    out.append("/-- `GeneratedsSuperSuper.add` with a type argument (generatedssupersuper.py): factory call, placement block\n"
               "    (property C10: `Py.place`), final gate -/")
    out.append("def addByType (sh : PlaceShape) (T : Table) (C : CtorTable) (env : Env) (strOk : Obj → Bool) (enabled validate : Bool) (self : Obj)\n"
               "    (obj : TypeArg) (kwargs : Kwargs) (hint : Option Nat) (force : Bool) (oid : Nat) : AddOutcome :=")
    out.append("  -- obj = self.component_factory(obj, validate=…, **kwargs)")
    out.append("  match componentFactory T C env enabled %s obj kwargs oid with" % flag)
    out.append("  | .error e => ⟨self, none, .error (.inl e)⟩")
    out.append("  | .ok obj =>")
    out.append("    let placed := Py.place sh T strOk self obj hint force")
    out.append("    match placed.result with")
    out.append("    | .error e => ⟨placed.parent, placed.warn, .error (.inr e)⟩")
    out.append("    | .ok _ =>")
    out.append("      match (if %s then Py.validate env placed.parent else pure ()) with      -- self.validate()" % gcond)
    out.append("      | .error _ => ⟨placed.parent, placed.warn, .error (.inr .invalid)⟩")
    out.append("      | .ok _ => ⟨placed.parent, placed.warn, .ok obj⟩                         -- return obj")
    out.append("")


# ---------------------------------------------------------------------------------------------- utils wrapper, switch
def tr_utils(fn, out, info):
    names = [x.arg for x in fn.args.args]
    if names != ["component_type", "validate"] or fn.args.kwarg is None or fn.args.kwarg.arg != "kwargs":
        raise Gap("utils.component_factory: signature not understood: %s" % names)
    d = param_default(fn, "validate")
    if not (isinstance(d, ast.Constant) and isinstance(d.value, bool)):
        raise Gap("utils.component_factory: default of `validate` is not a bool literal")
    info["utilsDefaultValidate"] = d.value
    body = [st for st in body_wo_doc(fn) if not is_noise(st)]
    ok = False
    if len(body) == 2 and isinstance(body[0], ast.Assign) and isinstance(body[1], ast.Return) \
            and src(body[1].value) == src(body[0].targets[0]):
        call = body[0].value
        ok = True
    elif len(body) == 1 and isinstance(body[0], ast.Return):
        call = body[0].value
        ok = True
    if not ok or not isinstance(call, ast.Call) or not re.fullmatch(r"schema\.\w+\(\)\.component_factory", src(call.func)):
        raise Gap("utils.component_factory: body not understood: %s" % "; ".join(src(b) for b in body)[:200])
    pos = [src(x) for x in call.args]
    kws = {k.arg: k.value for k in call.keywords}
    if not pos or pos[0] != "component_type" or None not in kws or src(kws[None]) != "kwargs":
        raise Gap("utils.component_factory: arguments not handed through: %s" % src(call)[:160])
    if len(pos) == 2:
        flag = cond(call.args[1], enabled_ok=False)
    elif len(pos) == 1 and "validate" in kws:
        flag = cond(kws["validate"], enabled_ok=False)
    elif len(pos) == 1:
        flag = lbool(info["factoryDefaultValidate"])
    else:
        raise Gap("utils.component_factory: arguments not understood: %s" % src(call)[:160])
    out.append("/-- `neuroml.utils.component_factory` (utils.py) -/")
    out.append("def utilsComponentFactory (T : Table) (C : CtorTable) (env : Env) (enabled validate : Bool) (component_type : TypeArg)\n"
               "    (kwargs : Kwargs) (oid : Nat) : Except Factory.Err Obj :=")
    out.append("  componentFactory T C env enabled %s component_type kwargs oid" % flag)
    out.append("")


def tr_switch_fn(fn, lean_name, out):
    """body = noise + `build_time_validation.ENABLED = <bool>`  |  `return build_time_validation.ENABLED`"""
    if fn.args.args or fn.args.kwarg or fn.args.vararg:
        raise Gap("%s takes arguments" % fn.name)
    body = [st for st in body_wo_doc(fn) if not is_noise(st)]
    if len(body) != 1:
        raise Gap("%s: body is not one statement (+ logging): %s" % (fn.name, "; ".join(src(b) for b in body)[:200]))
    st = body[0]
    if isinstance(st, ast.Assign) and len(st.targets) == 1 and src(st.targets[0]) == "build_time_validation.ENABLED" \
            and isinstance(st.value, ast.Constant) and isinstance(st.value.value, bool):
        out.append("/-- `neuroml.%s()` (__init__.py) -/" % fn.name)
        out.append("def %s (_switch : Bool) : Bool := %s" % (lean_name, lbool(st.value.value)))
        out.append("")
        return
    if isinstance(st, ast.Return) and src(st.value) == "build_time_validation.ENABLED":
        out.append("/-- `neuroml.%s()` (__init__.py) -/" % fn.name)
        out.append("def %s (switch : Bool) : Bool := switch" % lean_name)
        out.append("")
        return
    raise Gap("%s: statement not understood: %s" % (fn.name, src(st)[:160]))


# ---------------------------------------------------------------------------------------------- who touches ENABLED
def scan_switch(repo, gaps):
    """-> (writers [(file, function, value)], readers [(file, function)]) over neuroml/**/*.py (tests excluded)"""
    writers, readers = [], []
    root = os.path.join(repo, "neuroml")
    for dp, dn, fn in os.walk(root):
        dn[:] = sorted(d for d in dn if d not in ("test", "__pycache__", "examples"))
        for f in sorted(fn):
            if not f.endswith(".py"):
                continue
            path = os.path.join(dp, f)
            rel = os.path.relpath(path, repo)
            with open(path, encoding="utf-8") as fh:
                text = fh.read()
            if "ENABLED" not in text and "build_time_validation" not in text:
                continue
            try:
                tree = ast.parse(text)
            except SyntaxError as e:
                gaps.append("%s: cannot parse (%s)" % (rel, e))
                continue
            # helper_methods.py holds method sources as strings: scan them too
            sources = [(tree, "")]
            if rel.endswith("helper_methods.py"):
                for nm, cn, t in helper_method_trees(tree, gaps):
                    sources.append((t, "%s." % "/".join(cn)))

            def visit(node, fname, prefix):
                for ch in ast.iter_child_nodes(node):
                    if isinstance(ch, (ast.FunctionDef, ast.AsyncFunctionDef)):
                        visit(ch, prefix + ch.name, prefix)
                        continue
                    if isinstance(ch, ast.ClassDef):
                        visit(ch, fname, prefix + ch.name + ".")
                        continue
                    handle(ch, fname)
                    visit(ch, fname, prefix)

            def is_switch(n):
                return (isinstance(n, ast.Attribute) and n.attr == "ENABLED") or (isinstance(n, ast.Name) and n.id == "ENABLED")

            def handle(n, fname):
                if isinstance(n, (ast.Assign, ast.AugAssign, ast.AnnAssign, ast.Delete)):
                    tg = n.targets if isinstance(n, (ast.Assign, ast.Delete)) else [n.target]
                    flat = []
                    for t in tg:
                        flat += list(t.elts) if isinstance(t, (ast.Tuple, ast.List)) else [t]
                    for t in flat:
                        if is_switch(t):
                            v = getattr(n, "value", None)
                            if isinstance(n, ast.Assign) and isinstance(v, ast.Constant) and isinstance(v.value, bool):
                                writers.append((rel, fname or "<module>", v.value))
                            else:
                                gaps.append("%s:%d %s: ENABLED written with a non-literal value: %s"
                                            % (rel, n.lineno, fname or "<module>", src(n)[:100]))
                                writers.append((rel, fname or "<module>", None))
                elif isinstance(n, (ast.Attribute, ast.Name)) and is_switch(n) and isinstance(n.ctx, ast.Load):
                    readers.append((rel, fname or "<module>"))
                elif isinstance(n, ast.Call) and isinstance(n.func, ast.Name) and n.func.id in ("setattr", "delattr") \
                        and any(isinstance(x, ast.Constant) and x.value == "ENABLED" for x in n.args):
                    gaps.append("%s:%d %s: setattr/delattr of ENABLED" % (rel, n.lineno, fname or "<module>"))
                    writers.append((rel, fname or "<module>", None))
                elif isinstance(n, ast.Constant) and n.value == "ENABLED":
                    gaps.append("%s:%d %s: the string 'ENABLED' is used (indirect access?)" % (rel, n.lineno, fname or "<module>"))
                elif isinstance(n, ast.ImportFrom) and any(a.name == "ENABLED" for a in n.names):
                    gaps.append("%s:%d: `from … import ENABLED` (a copy of the switch)" % (rel, n.lineno))
                elif isinstance(n, ast.Global) and "ENABLED" in n.names:
                    gaps.append("%s:%d: `global ENABLED`" % (rel, n.lineno))
            for t, prefix in sources:
                visit(t, "", prefix)
    return sorted(set(writers), key=lambda w: (w[0], w[1], str(w[2]))), sorted(set(readers))


# ---------------------------------------------------------------------------------------------- helper call sites
def helper_method_trees(tree, gaps):
    """[(method name, class names, ast of the method source)] from the MethodSpec(...) entries of helper_methods.py"""
    out = []
    # `inserts["X"] = """…"""` + `for insert in inserts.keys(): MethodSpec(source='''…%s…%s''' % (insert, inserts[insert]),
    # class_names=(insert))`: one method per entry
    inserts = {}
    for st in tree.body:
        if isinstance(st, ast.Assign) and len(st.targets) == 1 and isinstance(st.targets[0], ast.Subscript) \
                and src(st.targets[0].value) == "inserts" and isinstance(st.targets[0].slice, ast.Constant) \
                and isinstance(st.value, ast.Constant) and isinstance(st.value.value, str):
            inserts[st.targets[0].slice.value] = st.value.value
    for node in ast.walk(tree):
        if isinstance(node, ast.Call) and getattr(node.func, "id", None) == "MethodSpec":
            kws = {k.arg: k.value for k in node.keywords}
            sv = kws.get("source")
            if (isinstance(sv, ast.BinOp) and isinstance(sv.op, ast.Mod) and isinstance(sv.left, ast.Constant)
                    and src(sv.right) == "(insert, inserts[insert])" and src(kws.get("class_names")) == "insert" and inserts):
                try:
                    for k, v in inserts.items():
                        t = ast.parse(textwrap.dedent((sv.left.value % (k, v)).replace("PERCENTAGE", "%")))
                        out.append((ast.literal_eval(kws["name"]), [k], t))
                except Exception as e:  # noqa
                    gaps.append("helper_methods.py:%d MethodSpec template not understood (%s)" % (node.lineno, e))
                continue
            try:
                name = ast.literal_eval(kws["name"])
                s = ast.literal_eval(kws["source"])
                cn = kws["class_names"]
                if isinstance(cn, ast.Constant):
                    cns = [c.strip() for c in re.split(r"[|,]", cn.value.replace("^", "").replace("$", "").replace("(", "").replace(")", "")) if c.strip()]
                else:
                    cns = ["?" + src(cn)[:40]]
                t = ast.parse(textwrap.dedent(s.replace("PERCENTAGE", "%")))
            except Exception as e:  # noqa
                gaps.append("helper_methods.py:%d MethodSpec not understood (%s)" % (node.lineno, e))
                continue
            out.append((name, cns, t))
    return out


def sites_of_function(fn, owner):
    """call sites of the factory / add / validate / a raw constructor with **kwargs inside one helper method"""
    params = {a.arg for a in fn.args.args} | ({fn.args.kwarg.arg} if fn.args.kwarg else set())
    set_vars = set()
    for n in ast.walk(fn):
        if isinstance(n, ast.Assign) and isinstance(n.value, ast.Call) and src(n.value.func) == "set":
            for t in n.targets:
                if isinstance(t, ast.Name):
                    set_vars.add(t.id)
        if isinstance(n, ast.Assign) and isinstance(n.value, (ast.Set, ast.SetComp)):
            for t in n.targets:
                if isinstance(t, ast.Name):
                    set_vars.add(t.id)
    out = []
    for n in ast.walk(fn):
        if not isinstance(n, ast.Call):
            continue
        f = n.func
        callee = None
        if isinstance(f, ast.Attribute):
            if f.attr == "component_factory":
                callee = "factory"
            elif f.attr == "add":
                if isinstance(f.value, ast.Name) and f.value.id in set_vars:
                    continue          # set.add
                callee = "add"
            elif f.attr in ("validate", "validate_"):
                callee = "validate"
        elif isinstance(f, ast.Name) and f.id == "component_factory":
            callee = "factory"
        if callee is None:
            # a raw constructor handed the helper's **kwargs would swallow misspelt keywords
            if any(k.arg is None and isinstance(k.value, ast.Name) and k.value.id == (fn.args.kwarg.arg if fn.args.kwarg else None)
                   for k in n.keywords) and not (isinstance(f, ast.Attribute) and f.attr in ("add_membrane_property", "add_intracellular_property")):
                out.append({"owner": owner, "method": fn.name, "callee": "rawkw", "typ": src(f)[:60], "flag": "opaque",
                            "keys": [], "passkw": True, "recv": "", "text": src(n)[:120]})
            continue
        typ, flag, keys, passkw = None, "dflt", [], False
        if callee in ("factory", "add") and n.args:
            a0 = n.args[0]
            if isinstance(a0, ast.Constant) and isinstance(a0.value, str):
                typ = a0.value
            else:
                typ = "param:" + src(a0)[:40]
        if callee == "factory" and len(n.args) >= 2:
            a1 = n.args[1]
            flag = ("lit:%s" % a1.value) if isinstance(a1, ast.Constant) and isinstance(a1.value, bool) else (
                "param" if isinstance(a1, ast.Name) and a1.id in params else "opaque")
        for k in n.keywords:
            if k.arg is None:
                passkw = True
            elif k.arg == "validate":
                v = k.value
                flag = ("lit:%s" % v.value) if isinstance(v, ast.Constant) and isinstance(v.value, bool) else (
                    "param" if isinstance(v, ast.Name) and v.id in params else "opaque")
            elif k.arg in ("hint", "force") and callee == "add":
                continue
            else:
                keys.append(k.arg)
        out.append({"owner": owner, "method": fn.name, "callee": callee, "typ": typ, "flag": flag, "keys": keys,
                    "passkw": passkw, "recv": src(f.value)[:60] if isinstance(f, ast.Attribute) else "", "text": src(n)[:120]})
    return out


def helper_sites(repo, gaps):
    """-> sites (from nml.py's copies; helper_methods.py must give the same list)"""
    with open(os.path.join(repo, "neuroml", "nml", "nml.py"), encoding="utf-8") as fh:
        tree = ast.parse(fh.read())
    a = []
    for c in tree.body:
        if isinstance(c, ast.ClassDef) and any(isinstance(b, ast.Assign) and getattr(b.targets[0], "id", None) == "member_data_items_"
                                                for b in c.body):
            for f in c.body:
                if isinstance(f, ast.FunctionDef) and f.name not in STD_METHODS and not re.fullmatch(r"(get|set|add|insert|replace)_\w+?_?(at)?|validate_\w+", f.name):
                    a += sites_of_function(f, c.name)
                elif isinstance(f, ast.FunctionDef) and f.name not in STD_METHODS:
                    # generated accessors (get_x / set_x / add_x / insert_x_at / replace_x_at / validate_<SimpleType>):
                    # still scanned — a hand-written helper may share the naming pattern
                    a += sites_of_function(f, c.name)
    with open(os.path.join(repo, "neuroml", "nml", "helper_methods.py"), encoding="utf-8") as fh:
        htree = ast.parse(fh.read())
    b = []
    for name, cns, t in helper_method_trees(htree, gaps):
        for f in ast.walk(t):
            if isinstance(f, ast.FunctionDef):
                for s in sites_of_function(f, "/".join(cns)):
                    b.append(s)

    def key(s):
        return (s["method"], s["callee"], str(s["typ"]), s["flag"], tuple(s["keys"]), s["passkw"], s["text"])
    ka = sorted(key(s) for s in a)
    kb = sorted(key(s) for s in b)
    # a MethodSpec may be attached to several classes: compare as sets of distinct sites
    if sorted(set(ka)) != sorted(set(kb)):
        only_a = sorted(set(ka) - set(kb))[:3]
        only_b = sorted(set(kb) - set(ka))[:3]
        gaps.append("helper call sites differ between nml.py and helper_methods.py: only in nml.py %s; only in helper_methods.py %s"
                    % (only_a, only_b))
    return a


# ---------------------------------------------------------------------------------------------- emit
def py_token(litv):
    """default literal -> (repr token as harness/props/c10.atom_token writes it, truthiness)"""
    k = litv[0]
    if k in ("none", "missing"):
        return None
    v = litv[1]
    if k == "bool":
        return ("bool:%r" % bool(v), bool(v))
    if k == "int":
        return ("int:%r" % int(v), bool(int(v)))
    if k == "float":
        return ("float:%r" % float(v), bool(float(v)))
    if k == "str":
        return ("str:%r" % v, bool(v))
    raise Gap("constructor default is not a literal: %r" % (litv,))


def regenerate(repo, lean_dir):
    gaps = []
    info = {}
    classes, mgaps = members_extract.extract(repo)
    names, idx = members_extract.intern(classes)
    extra = []

    def nid(s):
        if s in idx:
            return idx[s]
        if s not in extra:
            extra.append(s)
        return len(names) + extra.index(s)

    # ---- 1. constructor table (same IR as Gen/Bindings.lean, which is refreshed here as well)
    t, N, bgaps = emit_bindings.regenerate(repo, lean_dir)
    for g in bgaps:
        if "__init__" in g:
            gaps.append(g)
    member_classes = [c["name"] for c in classes]
    by = {c["name"]: c for c in t["classes"]}
    rows = []
    for cn in member_classes:
        c = by.get(cn)
        if c is None or "ctor" not in c:
            gaps.append("class %s: no constructor found" % cn)
            continue
        ps = []
        for p in c["ctor"]:
            cast = {None: 0, "none": 1, "raw": 2, "int": 3, "float": 4}.get(p["cast"])
            if cast is None:
                gaps.append("class %s: parameter %s: cast %r not understood" % (cn, p["name"], p["cast"]))
                cast = 9
            try:
                tok = py_token(p["default"])
            except Gap as e:
                gaps.append("class %s: parameter %s: %s" % (cn, p["name"], e))
                tok = None
            prim_of = {a["member"]: a["fmt"] for a in c.get("expAttrs", [])}
            prim = prim_of.get(p["name"], {3: "int", 4: "float"}.get(cast, "str"))
            lexd = None if p["default"][0] in ("none", "missing") else emit_bindings.lex(p["default"], prim)
            ps.append("⟨%d, %s, %s, %d, %s⟩" % (
                nid(p["name"]),
                "none" if tok is None else "some (%s, %s)" % (lstr(tok[0]), lbool(tok[1])),
                "none" if lexd is None else "some %s" % lstr(lexd), cast, lbool(p["list"])))
        base = c["base"] if c["base"] in by else None
        rows.append("  /- %s -/ ⟨%d, %s, [%s], [%s]⟩" % (cn, nid(cn), "none" if base is None else "some %d" % nid(base),
                                                       ", ".join(ps), ", ".join(str(nid(a)) for a in c["superArgs"])))
    if [c["name"] for c in t["classes"]] != member_classes:
        gaps.append("the classes of the binding table and of the member table differ")

    # ---- 2. the functions
    out_fns = []
    with open(os.path.join(repo, GSS), encoding="utf-8") as fh:
        gss = ast.parse(fh.read())
    with open(os.path.join(repo, "neuroml", "__init__.py"), encoding="utf-8") as fh:
        init = ast.parse(fh.read())
    with open(os.path.join(repo, "neuroml", "utils.py"), encoding="utf-8") as fh:
        utils = ast.parse(fh.read())
    with open(os.path.join(repo, "neuroml", "build_time_validation.py"), encoding="utf-8") as fh:
        btv = ast.parse(fh.read())
    fallback = {
        "checkArgList": "def checkArgList (_T : Table) (_self : Obj) (_kwargs : Kwargs) : Except Factory.Err Unit := pure ()\n",
        "componentFactory": "def componentFactory (_T : Table) (_C : CtorTable) (_env : Env) (_enabled _validate : Bool) (_t : TypeArg)\n"
                            "    (_kwargs : Kwargs) (_oid : Nat) : Except Factory.Err Obj := .error .attrError\n",
        "addByType": "def addByType (_sh : PlaceShape) (_T : Table) (_C : CtorTable) (_env : Env) (_strOk : Obj → Bool) (_enabled _validate : Bool) (self : Obj)\n"
                     "    (_obj : TypeArg) (_kwargs : Kwargs) (_hint : Option Nat) (_force : Bool) (_oid : Nat) : AddOutcome :=\n"
                     "  ⟨self, none, .error (.inl .attrError)⟩\n",
        "utilsComponentFactory": "def utilsComponentFactory (_T : Table) (_C : CtorTable) (_env : Env) (_enabled _validate : Bool) (_t : TypeArg)\n"
                                 "    (_kwargs : Kwargs) (_oid : Nat) : Except Factory.Err Obj := .error .attrError\n",
        "enableSwitch": "def enableSwitch (s : Bool) : Bool := s\n", "disableSwitch": "def disableSwitch (s : Bool) : Bool := s\n",
        "getSwitch": "def getSwitch (_s : Bool) : Bool := false\n",
    }

    def attempt(lean_name, f, what):
        tmp = []
        try:
            f(tmp)
            out_fns.extend(tmp)
        except Gap as e:
            gaps.append(str(e))
            out_fns.append("/-- NOT TRANSLATED (%s): placeholder so that the file elaborates; the gap is reported -/" % what)
            out_fns.append(fallback[lean_name])
        except Exception as e:  # noqa
            gaps.append("%s: translator crashed: %r" % (what, e))
            out_fns.append(fallback[lean_name])

    def need(fn, what):
        if fn is None:
            raise Gap("%s not found" % what)
        return fn
    info["factoryDefaultValidate"] = True
    attempt("checkArgList", lambda o: tr_check_arg_list(need(find_method(gss, "GeneratedsSuperSuper", "_check_arg_list"), "_check_arg_list"), o),
            "_check_arg_list")
    attempt("componentFactory", lambda o: tr_component_factory(need(find_method(gss, "GeneratedsSuperSuper", "component_factory"),
                                                                      "component_factory"), nid, o, info), "component_factory")
    attempt("addByType", lambda o: tr_add(need(find_method(gss, "GeneratedsSuperSuper", "add"), "add"), o, info), "add")
    attempt("utilsComponentFactory", lambda o: tr_utils(need(find_function(utils, "component_factory"), "utils.component_factory"), o, info),
            "utils.component_factory")
    attempt("enableSwitch", lambda o: tr_switch_fn(need(find_function(init, "enable_build_time_validation"), "enable_build_time_validation"),
                                                   "enableSwitch", o), "enable_build_time_validation")
    attempt("disableSwitch", lambda o: tr_switch_fn(need(find_function(init, "disable_build_time_validation"), "disable_build_time_validation"),
                                                    "disableSwitch", o), "disable_build_time_validation")
    attempt("getSwitch", lambda o: tr_switch_fn(need(find_function(init, "get_build_time_validation"), "get_build_time_validation"),
                                                "getSwitch", o), "get_build_time_validation")
    # initial value of the switch
    initial = None
    for st in btv.body:
        if isinstance(st, ast.Assign) and src(st.targets[0]) == "ENABLED":
            if isinstance(st.value, ast.Constant) and isinstance(st.value.value, bool) and initial is None:
                initial = st.value.value
            else:
                gaps.append("build_time_validation.py:%d ENABLED initialised twice / with a non-literal" % st.lineno)
        elif not (isinstance(st, ast.Expr) and isinstance(st.value, ast.Constant)):
            gaps.append("build_time_validation.py:%d statement not understood: %s" % (st.lineno, src(st)[:80]))
    if initial is None:
        gaps.append("build_time_validation.py: no `ENABLED = <bool>`")
        initial = False

    # ---- 3. writers / readers of the switch
    writers, readers = scan_switch(repo, gaps)

    # ---- 4. helper call sites
    sites = helper_sites(repo, gaps)
    site_rows = []
    for s in sites:
        if s["callee"] == "rawkw":
            gaps.append("helper %s.%s hands **kwargs to %s(...) directly (misspelt keywords would be swallowed): %s"
                        % (s["owner"], s["method"], s["typ"], s["text"]))
            continue
        typ = s["typ"]
        lit = typ is not None and not typ.startswith("param:")
        if lit and typ not in idx:
            gaps.append("helper %s.%s names the unknown type %r" % (s["owner"], s["method"], typ))
        flag = {"dflt": ".dflt", "lit:True": ".lit true", "lit:False": ".lit false", "param": ".param"}.get(s["flag"], ".opaque")
        site_rows.append("  ⟨%d, %s, .%s, %s, %s, [%s], %s⟩" % (
            nid(s["owner"]), lstr(s["method"]), s["callee"], ("some %d" % nid(typ)) if lit else "none", flag,
            ", ".join(str(nid(k)) for k in s["keys"]), lbool(s["passkw"])))

    # ---- emit
    bn = N.ix
    allnames = names + extra
    to_b = [bn.get(n, 0) for n in allnames]
    o = []
    o.append("import NmlVerif.Model.Factory")
    o.append("/-! GENERATED by translators/factory_extract.py from neuroml/nml/generatedssupersuper.py, neuroml/nml/nml.py,")
    o.append("    neuroml/nml/helper_methods.py, neuroml/__init__.py, neuroml/utils.py, neuroml/build_time_validation.py — do not edit. -/")
    o.append("namespace NmlVerif.Gen.Factory")
    o.append("open NmlVerif NmlVerif.Add NmlVerif.Factory")
    o.append("")
    o.append("/-- names used here that `Gen.Members.names` does not hold (id = Gen.Members.names.length + position) -/")
    o.append("def extraNames : List String := [%s]" % ", ".join(lstr(x) for x in extra))
    o.append("def numMemberNames : Nat := %d" % len(names))
    o.append("")
    o.append("/-- id here ↦ id in `Gen/Bindings.lean` (0 where the binding table does not know the name) -/")
    o.append("def toBindings : List Nat := [")
    for i in range(0, len(to_b), 24):
        o.append("  " + ", ".join(str(x) for x in to_b[i:i + 24]) + ("," if i + 24 < len(to_b) else ""))
    o.append("]")
    o.append("")
    o.append("/-- ⟨class, base, [⟨param, default token, default lexical, cast, list⟩…], super args⟩ in source order -/")
    o.append("def ctorTable : CtorTable := [")
    o.append(",\n".join(rows))
    o.append("]")
    o.append("")
    o.append("/-- the class name `component_factory` special-cases -/")
    o.append("def setupClass : Nat := %d" % nid(info.get("setupFor", "Cell")))
    o.append("")
    o += out_fns
    o.append("/-- `build_time_validation.ENABLED` at import time -/")
    o.append("def initialSwitch : Bool := %s" % lbool(initial))
    o.append("/-- defaults of the `validate` parameters of component_factory / add / utils.component_factory -/")
    o.append("def factoryDefaultValidate : Bool := %s" % lbool(info.get("factoryDefaultValidate", False)))
    o.append("def addDefaultValidate : Bool := %s" % lbool(info.get("addDefaultValidate", False)))
    o.append("def utilsDefaultValidate : Bool := %s" % lbool(info.get("utilsDefaultValidate", False)))
    o.append("")
    o.append("/-- every write of `ENABLED` in the package (file, function, value) -/")
    o.append("def switchWriters : List (String × String × Option Bool) := [%s]" % ", ".join(
        "(%s, %s, %s)" % (lstr(w[0]), lstr(w[1]), "none" if w[2] is None else "some " + lbool(w[2])) for w in writers))
    o.append("/-- every read of `ENABLED` in the package (file, function) -/")
    o.append("def switchReaders : List (String × String) := [%s]" % ", ".join("(%s, %s)" % (lstr(r[0]), lstr(r[1])) for r in readers))
    o.append("")
    o.append("/-- ⟨class, method, callee, literal type, validate flag, literal keywords, **kwargs handed through⟩ -/")
    o.append("def helperSites : List Site := [")
    o.append(",\n".join(site_rows))
    o.append("]")
    o.append("")
    o.append("end NmlVerif.Gen.Factory")
    text = "\n".join(o) + "\n"
    changed = members_extract.write_if_changed(os.path.join(lean_dir, "NmlVerif", "Gen", "Factory.lean"), text)
    summ = {"ctor_rows": len(rows), "ctor_params": sum(len(by[c]["ctor"]) for c in member_classes if c in by and "ctor" in by[c]),
            "extra_names": extra, "helper_sites": len(site_rows), "switch_writers": [list(w) for w in writers],
            "switch_readers": [list(r) for r in readers], "rewritten": changed, "info": info}
    return gaps, summ, sites


if __name__ == "__main__":
    repo = sys.argv[1] if len(sys.argv) > 1 else "/repo"
    here = os.path.dirname(os.path.dirname(os.path.abspath(__file__)))
    gaps, summ, sites = regenerate(repo, os.path.join(here, "lean"))
    print(json.dumps(summ, indent=1))
    for s in sites:
        print("SITE", s["owner"], s["method"], s["callee"], s["typ"], s["flag"], s["keys"], s["passkw"])
    for g in gaps:
        print("GAP", g)
    sys.exit(1 if gaps else 0)
