#!/venv/bin/python
"""glue_extract.py -- shared-mutable-state summary of the loader / network-builder modules (property C07).

Reads the CURRENT working tree of the repository (argument / fw.REPO) with `ast` only (nothing is imported or
executed) and emits `lean/NmlVerif/Gen/Glue.lean`: a table of

  SharedVar     every variable that outlives a call and is visible to more than one call / instance:
                  modGlobal   module-level assignment target, or the target of a `global` statement
                  classAttr   class-body assignment target
                  mutDefault  parameter whose default value is a mutable object (created once, at def time)
                  opaque      a construct the scan cannot classify (dynamic setattr on a class, globals()[..] = ..,
                              function attributes, unknown decorators such as lru_cache, exec/eval)
  EntrySummary  for every entry point (every function / method of loaders.py and hdf5/*.py, the module-level parse
                functions of nml.py, and one pseudo entry for all generated-class methods of nml.py):
                  rbw     shared variables the entry may READ BEFORE (over)WRITING them, transitively
                  writes  shared variables it may write (rebind, mutate in place, let escape)

The analysis is a small abstract interpretation (may-read-first / may-write / must-kill per variable, composed over
sequence, branch, loop, try and call; calls are resolved by name inside the scanned modules).  It is deliberately
conservative: anything that is not recognised as harmless counts as read-before-write AND write.

  * an instance store `self.x = ..` SHADOWS a class attribute for that instance (kill, no shared write);
  * a class attribute assigned in every `__init__` before being read (`initShadowed`) is not shared through instances;
  * a rebinding of a module global under `global` is a write that kills (write-only if never read first);
  * in-place mutation (`x[k] = v`, `x.append(..)`, `del x[k]`, `x += ..` ..) of anything REACHED from a shared mutable
    (aliases, elements, attributes of elements) is a read-before-write + write of that variable;
  * letting a shared mutable escape (stored in an attribute/container, returned, passed to a call that is not a known
    pure function) is treated like a mutation.

Nothing is skipped silently: unclassifiable constructs become `opaque` variables with rbw+write in the function that
contains them, which makes the Lean obligation `violations ⊆ Known` fail.
"""
import ast
import json
import os
import sys

MODULES = [
    "neuroml/loaders.py",
    "neuroml/utils.py",
    "neuroml/arraymorph.py",
    "neuroml/hdf5/__init__.py",
    "neuroml/hdf5/DefaultNetworkHandler.py",
    "neuroml/hdf5/NetworkBuilder.py",
    "neuroml/hdf5/NetworkContainer.py",
    "neuroml/hdf5/NeuroMLHdf5Parser.py",
    "neuroml/hdf5/NeuroMLXMLParser.py",
    "neuroml/nml/nml.py",
    "neuroml/nml/generatedssupersuper.py",
    "neuroml/nml/generatedscollector.py",
    "neuroml/build_time_validation.py",
    # second pass: the rest of the import closure of the loader modules (see `reach`)
    "neuroml/__init__.py",
    "neuroml/__version__.py",
    "neuroml/neuro_lex_ids.py",
    "neuroml/nml/__init__.py",
]
PKG_INIT = "neuroml/__init__.py"
# the modules a loader entry point lives in: the import closure is computed from these (`reach`)
ROOTS = ["neuroml/loaders.py", "neuroml/hdf5/NeuroMLHdf5Parser.py", "neuroml/hdf5/NeuroMLXMLParser.py",
         "neuroml/hdf5/NetworkBuilder.py", "neuroml/hdf5/NetworkContainer.py", "neuroml/arraymorph.py",
         "neuroml/utils.py", "neuroml/nml/nml.py", "neuroml/build_time_validation.py"]
# configuration API: the functions of these modules are entries of the table, too, but they are "environment"
# entries -- the user's explicit switches (enable/disable_build_time_validation), never called by a loader
ENV_MODULES = {PKG_INIT}
# every function/method of these is an entry point; of nml.py only the module-level functions are (plus one pseudo
# entry for all methods), of utils/arraymorph nothing is (they are only followed transitively)
ENTRY_ALL = {
    "neuroml/loaders.py", "neuroml/hdf5/__init__.py", "neuroml/hdf5/DefaultNetworkHandler.py",
    "neuroml/hdf5/NetworkBuilder.py", "neuroml/hdf5/NetworkContainer.py", "neuroml/hdf5/NeuroMLHdf5Parser.py",
    "neuroml/hdf5/NeuroMLXMLParser.py", PKG_INIT,
}
ENTRY_TOPLEVEL = {"neuroml/nml/nml.py"}
NML = "neuroml/nml/nml.py"
NML_METHODS_ENTRY = NML + "::<generated-class methods>"
# one pseudo entry stands for every method of the document classes (other use of the library between two loads):
# the generated classes and the two hand-written base modules all of them inherit from
OBJECT_METHOD_MODULES = {NML, "neuroml/nml/generatedssupersuper.py", "neuroml/nml/generatedscollector.py"}

DOTTED = {  # dotted import name -> module path
    "neuroml.loaders": "neuroml/loaders.py", "neuroml.utils": "neuroml/utils.py",
    "neuroml.arraymorph": "neuroml/arraymorph.py", "neuroml.hdf5": "neuroml/hdf5/__init__.py",
    "neuroml.hdf5.DefaultNetworkHandler": "neuroml/hdf5/DefaultNetworkHandler.py",
    "neuroml.hdf5.NetworkBuilder": "neuroml/hdf5/NetworkBuilder.py",
    "neuroml.hdf5.NetworkContainer": "neuroml/hdf5/NetworkContainer.py",
    "neuroml.hdf5.NeuroMLHdf5Parser": "neuroml/hdf5/NeuroMLHdf5Parser.py",
    "neuroml.hdf5.NeuroMLXMLParser": "neuroml/hdf5/NeuroMLXMLParser.py",
    "neuroml.nml.nml": NML, "neuroml": NML,   # `from .nml.nml import *` in neuroml/__init__.py
    "neuroml.nml.generatedssupersuper": "neuroml/nml/generatedssupersuper.py",
    "neuroml.nml.generatedscollector": "neuroml/nml/generatedscollector.py",
    "neuroml.build_time_validation": "neuroml/build_time_validation.py",
    "neuroml.__version__": "neuroml/__version__.py", "neuroml.neuro_lex_ids": "neuroml/neuro_lex_ids.py",
    "neuroml.nml": "neuroml/nml/__init__.py",
}

MUTABLE_CTORS = {"list", "dict", "set", "bytearray", "defaultdict", "OrderedDict", "deque", "Counter", "array",
                 "zeros", "ones", "empty", "ndarray"}
IMMUTABLE_CALLS = {"compile", "getLogger", "staticmethod", "classmethod", "property", "str", "int", "float", "bool",
                   "tuple", "frozenset", "len", "MemberSpec_", "namedtuple", "TypeVar", "bytes", "range"}
MUTATORS = {"append", "extend", "insert", "pop", "remove", "clear", "sort", "reverse", "update", "setdefault",
            "popitem", "add", "discard", "appendleft", "popleft", "__setitem__", "__delitem__", "fill", "resize",
            "put", "itemset", "difference_update", "intersection_update", "symmetric_difference_update", "rotate"}
READERS = {"get", "keys", "values", "items", "copy", "index", "count", "join", "format", "startswith", "endswith",
           "split", "strip", "replace", "lower", "upper", "__contains__", "__getitem__", "__len__", "__iter__",
           "match", "search", "findall", "sub", "fullmatch", "groups", "group", "decode", "encode", "tolist",
           "issubset", "issuperset", "union", "intersection", "difference", "isdisjoint", "most_common", "find",
           "rfind", "splitlines", "title", "rstrip", "lstrip", "isdigit", "zfill", "astype", "any", "all",
           # logging is outside the model (DESIGN §3.3): a Logger is shared, its methods are not tracked
           "debug", "info", "warning", "error", "critical", "exception", "log", "isEnabledFor", "setLevel"}
PURE_FUNCS = {"len", "str", "repr", "sorted", "isinstance", "issubclass", "enumerate", "zip", "list", "dict", "tuple",
              "set", "frozenset", "iter", "next", "print", "min", "max", "sum", "any", "all", "range", "int", "float",
              "bool", "hasattr", "id", "type", "format", "abs", "round", "reversed", "map", "filter", "hash",
              "callable", "ord", "chr", "bytes", "divmod", "zip_longest", "print_", "print_method", "super",
              # numpy constructors/readers copy or only read their argument
              "np.array", "np.any", "np.zeros", "np.all", "np.asarray", "np.vstack", "np.nonzero", "np.where",
              "np.concatenate", "numpy.array", "copy.deepcopy", "copy.copy", "deepcopy"}
PURE_PREFIXES = ("re_.", "re.", "os.path.", "os.getcwd", "math.", "np.", "numpy.", "base64.", "decimal_.",
                 "datetime_.", "time_.", "inspect.", "warnings_.", "warnings.", "logging.", "etree_.", "sys.stdout.",
                 "sys.stderr.", "json.", "str.", "natsort.", "typing.")
PURE_LOCAL_OK = {"print_method"}
# process-global state of OTHER libraries reached through library calls: each is a named variable of kind `external`
# (read + written by the function that contains the call), reviewed in Props/C07Gen.lean (`External`).
EXTERNAL_STATE = {
    "warnings.simplefilter": "ext:warnings.filters", "warnings.resetwarnings": "ext:warnings.filters",
    "warnings.filterwarnings": "ext:warnings.filters", "warnings_.simplefilter": "ext:warnings.filters",
    "logging.basicConfig": "ext:logging.root-config", "logging.disable": "ext:logging.root-config",
    "tables.open_file": "ext:tables.open-file-registry(own handle)", "os.chdir": "ext:os.cwd",
    "os.putenv": "ext:os.environ", "sys.setrecursionlimit": "ext:sys.recursionlimit",
    "sys.path.append": "ext:sys.path", "sys.path.insert": "ext:sys.path", "random.seed": "ext:random.state",
    "np.random.seed": "ext:numpy.random.state", "numpy.random.seed": "ext:numpy.random.state",
    "locale.setlocale": "ext:locale", "etree_.register_namespace": "ext:lxml.namespace-registry",
    "gc.disable": "ext:gc", "gc.enable": "ext:gc", "atexit.register": "ext:atexit",
}
KNOWN_DECORATORS = {"classmethod", "staticmethod", "property", "abstractmethod", "setter", "getter", "deleter",
                    "wraps"}


def pvar(fid, p):
    return "param:%s(%s)" % (fid, p)


def is_pvar(v):
    return v.startswith("param:")


def target_var(v, deep):
    """the variable an effect on region element (v, _, deep) is booked on: parameters distinguish the object passed in
    from what is reached inside it (`param:..[*]`), real shared variables do not"""
    return v + "[*]" if (deep and is_pvar(v)) else v


def dotted(e):
    if isinstance(e, ast.Name):
        return e.id
    if isinstance(e, ast.Attribute):
        b = dotted(e.value)
        return None if b is None else b + "." + e.attr
    return None


def mutability(v):
    """'imm' | 'ref' | 'mut' | 'unk' for the value expression of a declaration"""
    if v is None:
        return "imm"
    if isinstance(v, (ast.Constant, ast.JoinedStr, ast.Compare)):
        return "imm"
    if isinstance(v, (ast.Name, ast.Attribute, ast.Lambda)):
        return "ref"
    if isinstance(v, ast.UnaryOp):
        return mutability(v.operand)
    if isinstance(v, (ast.BinOp,)):
        a, b = mutability(v.left), mutability(v.right)
        return "imm" if {a, b} <= {"imm", "ref"} else "unk"
    if isinstance(v, ast.BoolOp):
        ms = {mutability(x) for x in v.values}
        return "imm" if ms <= {"imm", "ref"} else ("mut" if "mut" in ms else "unk")
    if isinstance(v, ast.IfExp):
        ms = {mutability(v.body), mutability(v.orelse)}
        return "imm" if ms <= {"imm", "ref"} else ("mut" if "mut" in ms else "unk")
    if isinstance(v, ast.Tuple):
        ms = {mutability(x) for x in v.elts}
        return "imm" if ms <= {"imm", "ref"} else ("mut" if "mut" in ms else "unk")
    if isinstance(v, (ast.List, ast.Dict, ast.Set, ast.ListComp, ast.DictComp, ast.SetComp)):
        return "mut"
    if isinstance(v, ast.Call):
        d = dotted(v.func) or ""
        last = d.split(".")[-1]
        if last in MUTABLE_CTORS:
            return "mut"
        if last in IMMUTABLE_CALLS:
            return "imm"
        return "unk"
    if isinstance(v, ast.Subscript):      # typing aliases such as Optional[str]
        return "ref"
    return "unk"


# ------------------------------------------------------------------------------------------- declarations
class Func:
    def __init__(self, fid, mod, cls, node, kind):
        self.fid, self.mod, self.cls, self.node, self.kind = fid, mod, cls, node, kind   # kind: func|method|static|class
        self.ir = None
        self.self_name = None
        self.mutates_self = False


class World:
    def __init__(self):
        self.vars = {}          # name -> dict(kind, mut, mod, cls, attr, line)
        self.funcs = {}         # fid -> Func
        self.classes = {}       # (mod, name) -> dict(bases=[(mod,name)], attrs={a: varname}, methods={m: fid}, node)
        self.class_by_name = {}  # simple name -> [(mod, name)]
        self.mod_globals = {}   # mod -> {name: varname}
        self.mod_funcs = {}     # mod -> {name: fid}
        self.imports = {}       # mod -> {alias: ("mod", path) | ("func", fid-name tuple) | ("class", (mod,name)) | ("ext", dotted)}
        self.methods_by_name = {}  # m -> [fid]
        self.subclasses = {}    # (mod,name) -> set of (mod,name) (transitive)
        self.attr_by_name = {}  # attr -> [class-attr var]
        self.returns = {}       # fid -> region the return value may point into
        self.param_memo = {}
        self.gaps = []          # human-readable notes about opaque constructs
        self.trees = {}

    def add_var(self, name, **kw):
        if name not in self.vars:
            self.vars[name] = kw
        return name

    def opaque(self, fid, what, line):
        name = "opaque:%s@%s" % (fid, what)
        if name not in self.vars:
            self.vars[name] = dict(kind="opaque", mut="unk", mod=fid.split("::")[0], line=line)
            self.gaps.append("%s (line %s): %s" % (fid, line, what))
        return name


def module_level_stmts(body):
    """statements executed at import time, looking through if/try/with at module level"""
    for s in body:
        yield s
        if isinstance(s, ast.If):
            yield from module_level_stmts(s.body)
            yield from module_level_stmts(s.orelse)
        elif isinstance(s, ast.Try):
            yield from module_level_stmts(s.body)
            for h in s.handlers:
                yield from module_level_stmts(h.body)
            yield from module_level_stmts(s.orelse)
            yield from module_level_stmts(s.finalbody)
        elif isinstance(s, ast.With):
            yield from module_level_stmts(s.body)


def is_main_guard(s):
    return (isinstance(s, ast.If) and isinstance(s.test, ast.Compare) and isinstance(s.test.left, ast.Name)
            and s.test.left.id == "__name__")


def declare(w, repo):
    for mod in MODULES:
        path = os.path.join(repo, mod)
        with open(path) as fh:
            tree = ast.parse(fh.read(), filename=path)
        w.trees[mod] = tree
        w.mod_globals[mod] = {}
        w.mod_funcs[mod] = {}
        w.imports[mod] = {}
        body = [s for s in tree.body if not is_main_guard(s)]
        for s in module_level_stmts(body):
            if isinstance(s, ast.Import):
                for a in s.names:
                    if a.asname:
                        w.imports[mod][a.asname] = ("mod", DOTTED[a.name]) if a.name in DOTTED else ("ext", a.name)
                    else:
                        top = a.name.split(".")[0]
                        w.imports[mod][top] = ("pkg", top)
            elif isinstance(s, ast.ImportFrom):
                base = s.module or ""
                if s.level:   # relative import inside neuroml
                    pkg = os.path.dirname(mod).replace("/", ".").split(".")
                    pkg = pkg[: len(pkg) - (s.level - 1)]
                    base = ".".join(pkg + ([base] if base else []))
                for a in s.names:
                    nm = a.asname or a.name
                    full = base + "." + a.name
                    if full in DOTTED:
                        w.imports[mod][nm] = ("mod", DOTTED[full])
                    elif base in DOTTED:
                        w.imports[mod][nm] = ("from", DOTTED[base], a.name)
                    else:
                        w.imports[mod][nm] = ("ext", full)
            elif isinstance(s, (ast.Assign, ast.AnnAssign, ast.AugAssign)):
                targets = s.targets if isinstance(s, ast.Assign) else [s.target]
                val = s.value
                for t in targets:
                    for n in (t.elts if isinstance(t, ast.Tuple) else [t]):
                        if isinstance(n, ast.Name):
                            m = mutability(val) if not isinstance(t, ast.Tuple) else "unk"
                            vn = "%s::%s" % (mod, n.id)
                            if vn in w.vars:     # assigned twice at module level: keep the more dangerous reading
                                order = ["imm", "ref", "unk", "mut"]
                                if order.index(m) > order.index(w.vars[vn]["mut"]):
                                    w.vars[vn]["mut"] = m
                                w.vars[vn]["flat"] = bool(w.vars[vn].get("flat")) and is_flat_literal(val)
                            else:
                                w.add_var(vn, kind="modGlobal", mut=m, mod=mod, line=s.lineno,
                                          flat=is_flat_literal(val) and not isinstance(t, ast.Tuple))
                            w.mod_globals[mod][n.id] = vn
            elif isinstance(s, (ast.FunctionDef, ast.AsyncFunctionDef)):
                fid = "%s::%s" % (mod, s.name)
                w.funcs[fid] = Func(fid, mod, None, s, "func")
                w.mod_funcs[mod][s.name] = fid
            elif isinstance(s, ast.ClassDef):
                declare_class(w, mod, s, prefix="")
    # resolve bases, subclasses
    for key, c in w.classes.items():
        c["bases"] = [b for b in (resolve_class(w, key[0], bn) for bn in c["base_names"]) if b]
    # a class defined at module level under a name that the module ALSO imports from a scanned module (the
    # `try: from .x import C / except ImportError: class C: pass` fallback idiom of nml.py): either may be the class the
    # name denotes at run time, so the local definition inherits everything of the imported one
    for key, c in w.classes.items():
        imp = w.imports[key[0]].get(key[1])
        if imp and imp[0] == "from" and (imp[1], imp[2]) in w.classes and (imp[1], imp[2]) != key:
            if (imp[1], imp[2]) not in c["bases"]:
                c["bases"].append((imp[1], imp[2]))
    for key in w.classes:
        w.subclasses[key] = set()
    for key in w.classes:
        for anc in mro(w, key)[1:]:
            w.subclasses[anc].add(key)


def declare_class(w, mod, node, prefix):
    name = prefix + node.name
    key = (mod, name)
    c = dict(base_names=[dotted(b) for b in node.bases], attrs={}, methods={}, node=node)
    w.classes[key] = c
    w.class_by_name.setdefault(node.name, []).append(key)
    for s in module_level_stmts(node.body):
        if isinstance(s, (ast.Assign, ast.AnnAssign, ast.AugAssign)):
            targets = s.targets if isinstance(s, ast.Assign) else [s.target]
            for t in targets:
                for n in (t.elts if isinstance(t, ast.Tuple) else [t]):
                    if isinstance(n, ast.Name):
                        m = mutability(s.value) if not isinstance(t, ast.Tuple) else "unk"
                        if isinstance(s, ast.AnnAssign) and s.value is None:
                            continue
                        vn = "%s::%s.%s" % (mod, name, n.id)
                        w.add_var(vn, kind="classAttr", mut=m, mod=mod, cls=key, attr=n.id, line=s.lineno,
                                  flat=is_flat_literal(s.value) and not isinstance(t, ast.Tuple))
                        c["attrs"][n.id] = vn
                        if vn not in w.attr_by_name.setdefault(n.id, []):
                            w.attr_by_name[n.id].append(vn)
        elif isinstance(s, (ast.FunctionDef, ast.AsyncFunctionDef)):
            fid = "%s::%s.%s" % (mod, name, s.name)
            decs = [(dotted(d) or (dotted(d.func) if isinstance(d, ast.Call) else "?") or "?").split(".")[-1]
                    for d in s.decorator_list]
            kind = "static" if "staticmethod" in decs else ("class" if "classmethod" in decs else "method")
            f = Func(fid, mod, key, s, kind)
            w.funcs[fid] = f
            c["methods"][s.name] = fid
            w.methods_by_name.setdefault(s.name, []).append(fid)
        elif isinstance(s, ast.ClassDef):
            declare_class(w, mod, s, prefix=name + ".")


def resolve_class(w, mod, dn):
    """class key for a (dotted) name used in module `mod`"""
    if not dn:
        return None
    parts = dn.split(".")
    if len(parts) == 1:
        if (mod, dn) in w.classes:
            return (mod, dn)
        imp = w.imports[mod].get(dn)
        if imp and imp[0] == "from" and (imp[1], imp[2]) in w.classes:
            return (imp[1], imp[2])
        return None
    head, last = parts[0], parts[-1]
    imp = w.imports[mod].get(head)
    if imp and imp[0] == "mod" and (imp[1], last) in w.classes and len(parts) == 2:
        return (imp[1], last)
    if imp and imp[0] == "pkg" and head == "neuroml":
        d = ".".join(parts[:-1])
        if d in DOTTED and (DOTTED[d], last) in w.classes:
            return (DOTTED[d], last)
    return None


def mro(w, key):
    """linearisation good enough for single inheritance + mixins: depth-first, left-to-right, no duplicates"""
    out, todo = [], [key]
    while todo:
        k = todo.pop(0)
        if k in out or k not in w.classes:
            continue
        out.append(k)
        todo = list(w.classes[k]["bases"]) + todo
    return out


def find_attr(w, key, attr):
    for k in mro(w, key):
        if attr in w.classes[k]["attrs"]:
            return w.classes[k]["attrs"][attr]
    return None


def find_method(w, key, m):
    for k in mro(w, key):
        if m in w.classes[k]["methods"]:
            return w.classes[k]["methods"][m]
    return None


# ------------------------------------------------------------------------------------------- IR construction
# IR: ("seq", [..]) ("alt", [..]) ("loop", ir) ("weak", ir) ("ev", var, kind, recv) ("call", [fid], via_self)
#     ("selfmut", region, [fid]) ("argpass", region, [fid], argkey, bound) ("ret",) ("raise",)
# kind: read | mutate | rebind | shadow | classwrite
# recv: S through self | O through another instance | C through the class | G module global | D default / parameter
# region element: (var, recv, deep)  deep = False the shared object itself, True something reached inside it
def is_flat_literal(v):
    """a container literal whose elements are all immutable constants / references (or an empty container)"""
    if isinstance(v, (ast.List, ast.Set, ast.Tuple)):
        return all(mutability(x) in ("imm", "ref") for x in v.elts)
    if isinstance(v, ast.Dict):
        return all(x is not None and mutability(x) in ("imm", "ref") for x in list(v.keys) + list(v.values))
    if isinstance(v, ast.Call):
        return (dotted(v.func) or "") in ("list", "dict", "set") and not v.args and not v.keywords
    return False


def deepen(reg):
    return {(v, rk, True) for (v, rk, _) in reg}


def param_names(node):
    a = node.args
    return [x.arg for x in a.posonlyargs + a.args], [x.arg for x in a.kwonlyargs], a.vararg, a.kwarg


class Builder:
    def __init__(self, w, f):
        self.w, self.f = w, f
        node = f.node
        a = node.args
        params = [x.arg for x in a.posonlyargs + a.args + a.kwonlyargs]
        if a.vararg:
            params.append(a.vararg.arg)
        if a.kwarg:
            params.append(a.kwarg.arg)
        self.self_name = params[0] if (f.kind in ("method", "class") and params) else None
        f.self_name = self.self_name
        self.globals_declared = set()
        self.locals = set(params)
        nodes = list(ast.walk(node))
        self.nodes = nodes
        for n in nodes:
            if isinstance(n, ast.Global):
                self.globals_declared |= set(n.names)
        self.local_imports = {}
        for n in nodes:
            if isinstance(n, ast.Name) and isinstance(n.ctx, (ast.Store, ast.Del)) and n.id not in self.globals_declared:
                self.locals.add(n.id)
            elif isinstance(n, (ast.FunctionDef, ast.ClassDef, ast.AsyncFunctionDef)) and n is not node:
                self.locals.add(n.name)
                for x in param_names(n)[0] + param_names(n)[1] if not isinstance(n, ast.ClassDef) else []:
                    self.locals.add(x)
            elif isinstance(n, ast.Lambda):
                for x in param_names(n)[0] + param_names(n)[1]:
                    self.locals.add(x)
            elif isinstance(n, ast.ExceptHandler) and n.name:
                self.locals.add(n.name)
            elif isinstance(n, ast.Import):
                for al in n.names:
                    self.locals.add((al.asname or al.name).split(".")[0])
                    if al.asname and al.name in DOTTED:
                        self.local_imports[al.asname] = ("mod", DOTTED[al.name])
                    elif not al.asname:
                        self.local_imports[al.name.split(".")[0]] = ("pkg", al.name.split(".")[0])
            elif isinstance(n, ast.ImportFrom):
                for al in n.names:
                    nm = al.asname or al.name
                    self.locals.add(nm)
                    if not n.level:
                        full = (n.module or "") + "." + al.name
                        if full in DOTTED:
                            self.local_imports[nm] = ("mod", DOTTED[full])
                        elif n.module in DOTTED:
                            self.local_imports[nm] = ("from", DOTTED[n.module], al.name)
        # parameters: every parameter is a pseudo variable (is the object passed in mutated / let escape?);
        # parameters with a mutable default are, in addition, real shared variables
        self.alias = {}       # local name -> region
        self.default_vars = {}
        pos = a.posonlyargs + a.args
        defaults = [None] * (len(pos) - len(a.defaults)) + list(a.defaults)
        for p, d in list(zip(pos, defaults)) + list(zip(a.kwonlyargs, a.kw_defaults)):
            if p.arg == self.self_name:
                continue
            self.alias.setdefault(p.arg, set()).add((pvar(f.fid, p.arg), "D", False))
            if d is not None and mutability(d) in ("mut", "unk"):
                vn = "%s(%s)" % (f.fid, p.arg)
                w.add_var(vn, kind="mutDefault", mut=mutability(d), mod=f.mod, line=d.lineno, flat=is_flat_literal(d))
                self.alias[p.arg].add((vn, "D", False))
                self.default_vars[p.arg] = vn
        for extra in (a.vararg, a.kwarg):
            if extra is not None:
                self.alias.setdefault(extra.arg, set()).add((pvar(f.fid, extra.arg), "D", True))
        self.pre = []
        for d in node.decorator_list:
            dn = (dotted(d) or (dotted(d.func) if isinstance(d, ast.Call) else None) or "?").split(".")[-1]
            if dn not in KNOWN_DECORATORS:
                self.pre = [self.rw(w.opaque(f.fid, "decorator:" + dn, d.lineno))]
                break
        self.returns = set()

    @staticmethod
    def rw(var):
        return ("seq", [("ev", var, "read", "O"), ("ev", var, "mutate", "O")])

    def flat(self, v):
        return bool(self.w.vars.get(v, {}).get("flat"))

    def mut(self, reg):
        return [("ev", v, "mutate", rk) for (v, rk) in sorted({(target_var(v, dp), rk) for (v, rk, dp) in reg})]

    def esc_filter(self, reg):
        """what matters when a value is let go: elements of a flat literal container are immutable"""
        return {(v, rk, dp) for (v, rk, dp) in reg if not (dp and self.flat(v))}

    def escape(self, reg):
        return self.mut(self.esc_filter(reg))

    @staticmethod
    def root_name(e):
        while isinstance(e, (ast.Attribute, ast.Subscript)):
            e = e.value
        return e.id if isinstance(e, ast.Name) else None

    # ---------------------------------------------------------------- name / attribute resolution
    def imp(self, name):
        if name in self.local_imports:
            return self.local_imports[name]
        if name in self.locals:
            return None
        return self.w.imports[self.f.mod].get(name)

    def class_of_expr(self, e):
        """class key if `e` syntactically denotes a scanned class object"""
        if isinstance(e, ast.Name):
            if e.id == self.self_name and self.f.kind == "class":
                return self.f.cls
            if e.id in self.local_imports:
                i = self.local_imports[e.id]
                return (i[1], i[2]) if i[0] == "from" and (i[1], i[2]) in self.w.classes else None
            if e.id in self.locals:
                return None
            return resolve_class(self.w, self.f.mod, e.id)
        if isinstance(e, ast.Attribute):
            if e.attr == "__class__" and isinstance(e.value, ast.Name) and e.value.id == self.self_name:
                return self.f.cls
            dn = dotted(e)
            if dn:
                head = dn.split(".")[0]
                if head in self.local_imports:
                    i = self.local_imports[head]
                    if i[0] == "mod" and dn.count(".") == 1:
                        k = (i[1], e.attr)
                        return k if k in self.w.classes else None
                    if i[0] == "pkg":
                        d = ".".join(dn.split(".")[:-1])
                        if d in DOTTED and (DOTTED[d], e.attr) in self.w.classes:
                            return (DOTTED[d], e.attr)
                    return None
                if head in self.locals:
                    return None
                return resolve_class(self.w, self.f.mod, dn)
        if isinstance(e, ast.Call) and isinstance(e.func, ast.Name) and e.func.id == "type" and len(e.args) == 1:
            a0 = e.args[0]
            if isinstance(a0, ast.Name) and a0.id == self.self_name:
                return self.f.cls
        return None

    def module_of_expr(self, e):
        dn = dotted(e)
        if not dn:
            return None
        head = dn.split(".")[0]
        i = self.imp(head)
        if i is None:
            return None
        if i[0] == "mod" and dn == head:
            return i[1]
        if i[0] == "pkg" and dn in DOTTED:
            return DOTTED[dn]
        return None

    def attr_vars(self, e):
        """(class-attr / module-global vars an Attribute node may denote, receiver kind)"""
        w = self.w
        recv = e.value
        m = self.module_of_expr(recv)
        if m is not None:
            vn = w.mod_globals[m].get(e.attr)
            if vn is None and m == NML:      # `neuroml.<name>`: the package's own names live in neuroml/__init__.py
                vn = w.mod_globals.get(PKG_INIT, {}).get(e.attr)
            if vn is None and isinstance(e.ctx, ast.Store):
                vn = w.add_var("%s::%s" % (m, e.attr), kind="modGlobal", mut="unk", mod=m, line=e.lineno)
                w.mod_globals[m][e.attr] = vn
            return ([vn] if vn else []), "G"
        ck = self.class_of_expr(recv)
        if ck is not None:
            attr = e.attr
            if attr.startswith("__") and not attr.endswith("__") and self.f.cls:
                attr = "_%s%s" % (self.f.cls[1].split(".")[-1].lstrip("_"), attr)     # private name mangling
            vn = find_attr(w, ck, attr) or find_attr(w, ck, e.attr)
            if vn is None and isinstance(e.ctx, ast.Store):
                # an attribute created on the class object at run time (e.g. a cache): a class-level variable
                vn = "%s::%s.%s" % (ck[0], ck[1], attr)
                w.add_var(vn, kind="classAttr", mut="unk", mod=ck[0], cls=ck, attr=attr, line=e.lineno, flat=False,
                          dynamic=True)
                w.classes[ck]["attrs"][attr] = vn
                w.attr_by_name.setdefault(attr, []).append(vn)
            return ([vn] if vn else []), "C"
        if isinstance(recv, ast.Name) and recv.id == self.self_name and self.f.cls and self.f.kind == "method":
            out = []
            vn = find_attr(w, self.f.cls, e.attr)
            if vn:
                out.append(vn)
            for sk in sorted(w.subclasses.get(self.f.cls, ())):
                v2 = w.classes[sk]["attrs"].get(e.attr)
                if v2 and v2 not in out:
                    out.append(v2)
            return out, "S"
        return list(w.attr_by_name.get(e.attr, [])), "O"     # unknown receiver: every class attribute of that name

    def region(self, e):
        """shared vars (and parameters) into whose object graph the VALUE of expression e may point"""
        if isinstance(e, ast.Name):
            if e.id in self.locals and e.id not in self.globals_declared:
                return set(self.alias.get(e.id, ()))
            vn = self.w.mod_globals[self.f.mod].get(e.id)
            if vn and self.w.vars[vn]["mut"] in ("mut", "unk"):
                return {(vn, "G", False)}
            return set()
        if isinstance(e, ast.Attribute):
            vs, rk = self.attr_vars(e)
            out = {(v, rk, False) for v in vs if self.w.vars[v]["mut"] in ("mut", "unk")}
            return out | deepen(self.region(e.value))
        if isinstance(e, ast.Subscript):
            return deepen(self.region(e.value))
        if isinstance(e, ast.Starred):
            return self.region(e.value)
        if isinstance(e, ast.IfExp):
            return self.region(e.body) | self.region(e.orelse)
        if isinstance(e, ast.BoolOp):
            out = set()
            for x in e.values:
                out |= self.region(x)
            return out
        if isinstance(e, ast.NamedExpr):
            return self.region(e.value)
        if isinstance(e, ast.Call):
            fn = e.func
            out = set()
            if isinstance(fn, ast.Attribute) and fn.attr in ("get", "pop", "setdefault", "values", "items", "keys",
                                                             "popitem", "__getitem__", "copy"):
                out |= deepen(self.region(fn.value))
            d = dotted(fn) or ""
            if d in ("getattr", "iter", "next", "reversed", "enumerate", "zip", "sorted", "list", "tuple", "dict",
                     "set", "filter", "map") and e.args:
                for a in e.args:     # elements of the copy are still the shared elements
                    out |= deepen(self.region(a))
            r = self.resolve(e)
            for t in r["targets"]:
                for (v, rk, dp) in self.w.returns.get(t, ()):
                    if is_pvar(v):
                        for a, key in self.call_args(e):
                            if self.param_of(t, key, r["bound"]) == v:
                                out |= (deepen(self.region(a)) if dp else self.region(a))
                    else:
                        out.add((v, rk if rk in ("G", "C", "D") else "O", dp))
            return out
        if isinstance(e, (ast.Tuple, ast.List, ast.Set)):
            out = set()
            for x in e.elts:
                out |= deepen(self.region(x))
            return out
        if isinstance(e, ast.Dict):
            out = set()
            for x in e.values:
                out |= deepen(self.region(x))
            return out
        return set()

    # ---------------------------------------------------------------- calls
    @staticmethod
    def call_args(e):
        out = [(a, ("*" if isinstance(a, ast.Starred) else i)) for i, a in enumerate(e.args)]
        out += [(k.value, (k.arg if k.arg is not None else "**")) for k in e.keywords]
        return out

    def param_of(self, t, key, bound):
        """pseudo variable of the parameter of function t that receives argument `key`, or None (unknown)"""
        ck = (t, key, bound)
        memo = self.w.param_memo
        if ck not in memo:
            memo[ck] = self.param_of_(t, key, bound)
        return memo[ck]

    def param_of_(self, t, key, bound):
        f = self.w.funcs.get(t)
        if f is None:
            return None
        pos, kwonly, vararg, kwarg = param_names(f.node)
        if isinstance(key, int):
            i = key + (1 if (bound and f.kind in ("method", "class")) else 0)
            if i < len(pos):
                return pvar(t, pos[i])
            return pvar(t, vararg.arg) if vararg else None
        if key in ("*", "**"):
            return None
        if key in pos or key in kwonly:
            return pvar(t, key)
        return pvar(t, kwarg.arg) if kwarg else None

    def resolve(self, e):
        """-> dict(targets, via_self, bound, pure): which scanned functions a Call may run"""
        w = self.w
        fn = e.func
        res = dict(targets=[], via_self=False, bound=False, pure=False, unknown_recv=False)
        d = dotted(fn)
        if d and (d in PURE_FUNCS or d.startswith(PURE_PREFIXES)):
            head = d.split(".")[0]
            if head not in self.locals or head in self.local_imports or head in PURE_LOCAL_OK:
                res["pure"] = True
                return res
        if isinstance(fn, ast.Name):
            nm = fn.id
            if nm in self.locals and nm not in self.local_imports:
                return res                     # local callable (parameter, nested def): unknown
            i = self.local_imports.get(nm) or w.imports[self.f.mod].get(nm)
            fid = None
            if nm in w.mod_funcs[self.f.mod] and nm not in self.local_imports:
                fid = w.mod_funcs[self.f.mod][nm]
            elif i and i[0] == "from":
                fid = w.mod_funcs.get(i[1], {}).get(i[2])
            if fid:
                res["targets"] = [fid]
                return res
            ck = self.class_of_expr(fn)
            if ck is not None:
                init = find_method(w, ck, "__init__")
                res["targets"] = [init] if init else []
                res["bound"] = True
                res["pure"] = init is None
            return res
        if isinstance(fn, ast.Attribute):
            m, recv = fn.attr, fn.value
            modp = self.module_of_expr(recv)
            ck = self.class_of_expr(recv)
            if modp is not None:
                if m in w.mod_funcs[modp]:
                    res["targets"] = [w.mod_funcs[modp][m]]
                elif modp == NML and m in w.mod_funcs.get(PKG_INIT, {}):
                    res["targets"] = [w.mod_funcs[PKG_INIT][m]]
                elif (modp, m) in w.classes:
                    init = find_method(w, (modp, m), "__init__")
                    res["targets"] = [init] if init else []
                    res["bound"] = True
                    res["pure"] = init is None
                return res
            if ck is not None:
                t = find_method(w, ck, m)
                if t:
                    res["targets"] = [t]
                    is_cls_recv = self.f.kind == "class" and isinstance(recv, ast.Name) and recv.id == self.self_name
                    explicit_self = bool(e.args) and isinstance(e.args[0], ast.Name) and e.args[0].id == self.self_name
                    res["via_self"] = is_cls_recv or explicit_self
                    res["bound"] = w.funcs[t].kind == "class" or is_cls_recv
                return res
            if isinstance(recv, ast.Name) and recv.id == self.self_name and self.f.cls and self.f.kind in ("method", "class"):
                res["via_self"] = res["bound"] = True
                t = find_method(w, self.f.cls, m)
                ts = [t] if t else []
                for sk in sorted(w.subclasses.get(self.f.cls, ())):
                    t2 = w.classes[sk]["methods"].get(m)
                    if t2 and t2 not in ts:
                        ts.append(t2)
                res["targets"] = ts
                return res
            if isinstance(recv, ast.Call) and isinstance(recv.func, ast.Name) and recv.func.id == "super" and self.f.cls:
                res["via_self"] = res["bound"] = True
                chain = mro(w, self.f.cls)[1:]
                if recv.args:        # super(X, self) / super(globals().get("X"), self) / super(self.__class__, self)
                    a0, start = recv.args[0], None
                    if isinstance(a0, ast.Name):
                        start = resolve_class(w, self.f.mod, a0.id)
                    elif isinstance(a0, ast.Call) and a0.args and isinstance(a0.args[0], ast.Constant):
                        start = resolve_class(w, self.f.mod, str(a0.args[0].value))
                    elif isinstance(a0, ast.Attribute) and a0.attr == "__class__":
                        start = self.f.cls
                    if start:
                        chain = mro(w, start)[1:]
                for k in chain:
                    if m in w.classes[k]["methods"]:
                        res["targets"] = [w.classes[k]["methods"][m]]
                        break
                return res
            # unknown receiver: every scanned method of that name (class-hierarchy analysis by name)
            res["unknown_recv"] = True
            res["bound"] = True
            res["targets"] = list(w.methods_by_name.get(m, []))
            if m in READERS and not res["targets"]:
                res["pure"] = True
            return res
        return res

    def external_state(self, e):
        """process-global state of another library touched by this call: a listed configuration call, or ANY call /
        store that goes through a private (`_name`) member of an imported external module -- its internals"""
        d = dotted(e.func) if isinstance(e, ast.Call) else dotted(e)
        if not d:
            return None
        head = d.split(".")[0]
        if head in self.locals and head not in self.local_imports:
            return None
        if head not in self.local_imports and ((self.f.mod, head) in self.w.classes or
                                               head in self.w.mod_funcs[self.f.mod] or
                                               head in self.w.mod_globals[self.f.mod]):
            return None                  # a name the module defines itself (also under an import fallback)
        if d in EXTERNAL_STATE:
            return EXTERNAL_STATE[d]
        imp = self.local_imports.get(head) or self.w.imports[self.f.mod].get(head)
        if imp and imp[0] in ("ext", "pkg") and not (imp[0] == "pkg" and head == "neuroml"):
            parts = d.split(".")
            for i, part in enumerate(parts[1:], 1):
                if part.startswith("_") and not (part.startswith("__") and part.endswith("__")):
                    return "ext:" + ".".join(parts[: i + 1])
        return None

    def call(self, e):
        w = self.w
        fn = e.func
        out = []
        ext = self.external_state(e)
        if ext is not None:
            if ext not in w.vars:
                w.vars[ext] = dict(kind="external", mut="unk", mod=self.f.mod, line=e.lineno)
            out.append(self.rw(ext))
        r = self.resolve(e)
        targets = r["targets"]
        if isinstance(fn, ast.Name):
            nm = fn.id
            if nm in ("exec", "eval", "__import__") and nm not in self.locals:
                out.append(self.rw(w.opaque(self.f.fid, "call:" + nm, e.lineno)))
            if nm == "setattr" and e.args and nm not in self.locals:
                a0 = e.args[0]
                if self.class_of_expr(a0) is not None or self.module_of_expr(a0) is not None:
                    out.append(self.rw(w.opaque(self.f.fid, "setattr-on-class-or-module", e.lineno)))
                out += self.mut(self.region(a0))
                if isinstance(a0, ast.Name) and a0.id == self.self_name:
                    self.f.mutates_self = True
                for a in e.args[2:]:
                    out += self.escape(self.region(a))
                r = dict(r, pure=True)
        elif isinstance(fn, ast.Attribute):
            out.append(self.expr(fn.value))
            m = fn.attr
            if r["unknown_recv"]:
                recv_region = self.region(fn.value)
                if m in MUTATORS:
                    out += self.mut(recv_region)
                    if self.root_name(fn.value) == self.self_name:
                        self.f.mutates_self = True
                elif r["pure"]:
                    pass
                elif recv_region:
                    if not targets:
                        # method of an external object reached from shared state, not known to be a reader
                        out += self.mut(recv_region)
                    else:
                        out.append(("selfmut", sorted(recv_region), sorted(targets)))
        else:
            out.append(self.expr(fn))
        for a in e.args:
            out.append(self.expr(a))
        for k in e.keywords:
            out.append(self.expr(k.value))
        # arguments that point into shared mutable state: the callee's parameter summary decides; unknown callees
        # that are not known to be pure let them escape
        if not r["pure"]:
            for a, key in self.call_args(e):
                reg = self.esc_filter(self.region(a))
                if not reg:
                    continue
                if not targets or key in ("*", "**"):
                    out += self.mut(reg)
                else:
                    out.append(("argpass", sorted(reg), sorted(set(targets)), key, r["bound"]))
        if targets:
            out.append(("call", sorted(set(targets)), r["via_self"]))
        return ("seq", out)

    # ---------------------------------------------------------------- statements
    def build(self):
        # alias fixpoint (flow-insensitive)
        for _ in range(5):
            before = {k: set(v) for k, v in self.alias.items()}
            for n in self.nodes:
                if isinstance(n, ast.Assign):
                    r = self.region(n.value)
                    if r:
                        for t in n.targets:
                            self.bind_alias(t, r)
                elif isinstance(n, (ast.AnnAssign, ast.NamedExpr)) and n.value is not None:
                    r = self.region(n.value)
                    if r:
                        self.bind_alias(n.target, r)
                elif isinstance(n, (ast.For, ast.AsyncFor, ast.comprehension)):
                    r = deepen(self.region(n.iter))
                    if r:
                        self.bind_alias(n.target, r)
                elif isinstance(n, (ast.With, ast.AsyncWith)):
                    for it in n.items:
                        if it.optional_vars is not None:
                            r = self.region(it.context_expr)
                            if r:
                                self.bind_alias(it.optional_vars, r)
            if before == self.alias:
                break
        body = self.stmts(self.f.node.body)
        return ("seq", self.pre + [body])

    def bind_alias(self, t, r):
        if isinstance(t, ast.Name):
            if t.id in self.locals and t.id not in self.globals_declared:
                self.alias.setdefault(t.id, set()).update(r)
        elif isinstance(t, (ast.Tuple, ast.List)):
            for x in t.elts:
                self.bind_alias(x, deepen(r))
        elif isinstance(t, ast.Starred):
            self.bind_alias(t.value, r)

    def stmts(self, body):
        return ("seq", [self.stmt(s) for s in body])

    def stmt(self, s):
        E = self.expr
        if isinstance(s, ast.Expr):
            return E(s.value)
        if isinstance(s, ast.Assign):
            out = [E(s.value)]
            esc = self.region(s.value)
            for t in s.targets:
                out.append(self.store(t, esc))
            return ("seq", out)
        if isinstance(s, ast.AnnAssign):
            if s.value is None:
                return ("seq", [])
            return ("seq", [E(s.value), self.store(s.target, self.region(s.value))])
        if isinstance(s, ast.AugAssign):
            t = s.target
            out = [E(s.value)]
            if isinstance(t, (ast.Name, ast.Attribute, ast.Subscript)):
                load = ast.copy_location(
                    type(t)(**{k: getattr(t, k) for k in t._fields if k != "ctx"}, ctx=ast.Load()), t)
                out.append(E(load))
                out += self.mut({x for x in self.region(load) if not x[2] or True})   # in-place operator
            out.append(self.store(t, deepen(self.region(s.value))))    # `x += v` takes v's elements, not v
            return ("seq", out)
        if isinstance(s, ast.Return):
            out = []
            if s.value is not None:
                out.append(E(s.value))
                self.returns |= self.region(s.value)
            out.append(("ret",))
            return ("seq", out)
        if isinstance(s, ast.Raise):
            out = [E(x) for x in (s.exc, s.cause) if x is not None]
            out.append(("raise",))
            return ("seq", out)
        if isinstance(s, ast.If):
            return ("seq", [E(s.test), ("alt", [self.stmts(s.body), self.stmts(s.orelse)])])
        if isinstance(s, (ast.For, ast.AsyncFor)):
            body = ("seq", [self.store(s.target, set()), self.stmts(s.body)])
            return ("seq", [E(s.iter), ("loop", body), ("alt", [self.stmts(s.orelse), ("seq", [])])])
        if isinstance(s, ast.While):
            body = ("seq", [self.stmts(s.body), E(s.test)])
            return ("seq", [E(s.test), ("loop", body), ("alt", [self.stmts(s.orelse), ("seq", [])])])
        if isinstance(s, ast.Try):
            body = self.stmts(s.body)
            normal = ("seq", [body, self.stmts(s.orelse)])
            if s.handlers:
                hs = ("alt", [self.stmts(h.body) for h in s.handlers])
                main = ("alt", [normal, ("seq", [("weak", body), hs])])
            else:
                main = normal
            return ("seq", [main, self.stmts(s.finalbody)])
        if isinstance(s, (ast.With, ast.AsyncWith)):
            out = []
            for it in s.items:
                out.append(E(it.context_expr))
                if it.optional_vars is not None:
                    out.append(self.store(it.optional_vars, set()))
            out.append(self.stmts(s.body))
            return ("seq", out)
        if isinstance(s, ast.Delete):
            return ("seq", [self.store(t, set(), delete=True) for t in s.targets])
        if isinstance(s, ast.Assert):
            return ("seq", [E(s.test)] + ([("alt", [E(s.msg), ("seq", [])])] if s.msg else []))
        if isinstance(s, (ast.FunctionDef, ast.AsyncFunctionDef)):
            # nested function: may run any number of times later in this call; analysed inline as a loop
            saved = self.returns
            sub = ("seq", [self.stmt(x) for x in s.body])
            self.returns = saved | self.returns
            return ("loop", strip_ret(sub))
        if isinstance(s, ast.ClassDef):
            return ("loop", strip_ret(("seq", [self.stmt(x) for x in s.body])))
        if isinstance(s, (ast.Global, ast.Nonlocal, ast.Pass, ast.Break, ast.Continue, ast.Import, ast.ImportFrom)):
            return ("seq", [])
        if isinstance(s, ast.Match):
            return ("seq", [E(s.subject), ("alt", [self.stmts(c.body) for c in s.cases] + [("seq", [])])])
        return self.rw(self.w.opaque(self.f.fid, "stmt:" + type(s).__name__, getattr(s, "lineno", 0)))

    def store(self, t, esc, delete=False):
        """effects of assigning (a value whose region is `esc`) to target t"""
        w = self.w
        if isinstance(t, ast.Name):
            if t.id in self.globals_declared:
                vn = w.mod_globals[self.f.mod].get(t.id)
                if vn is None:
                    vn = w.add_var("%s::%s" % (self.f.mod, t.id), kind="modGlobal", mut="unk", mod=self.f.mod,
                                   line=t.lineno)
                    w.mod_globals[self.f.mod][t.id] = vn
                return ("seq", [("ev", vn, "rebind", "G")] + self.escape(esc))   # the object is now also global
            return ("seq", [])
        if isinstance(t, (ast.Tuple, ast.List)):
            return ("seq", [self.store(x, deepen(esc), delete) for x in t.elts])
        if isinstance(t, ast.Starred):
            return self.store(t.value, esc, delete)
        if isinstance(t, ast.Attribute):
            out = [self.expr(t.value)]
            vs, rk = self.attr_vars(t)
            out += self.mut(self.region(t.value))     # storing INTO an object reached from a shared var
            for v in vs:
                if rk == "C":
                    out.append(("ev", v, "classwrite", "C"))
                elif rk == "G":
                    out.append(("ev", v, "rebind", "G"))
                elif rk == "S":
                    out.append(("ev", v, "shadow", "S"))
                # rk == "O": instance attribute of some other object: shadows there, nothing shared is written
            if isinstance(t.value, ast.Name) and t.value.id not in self.locals and t.value.id in w.mod_funcs[self.f.mod]:
                out.append(self.rw(w.opaque(self.f.fid, "function-attribute:%s.%s" % (t.value.id, t.attr), t.lineno)))
            if self.root_name(t.value) == self.self_name:
                self.f.mutates_self = True
            out += self.escape(esc)                   # a shared mutable stored in an attribute escapes
            return ("seq", out)
        if isinstance(t, ast.Subscript):
            out = [self.expr(t.value), self.expr(t.slice)]
            out += self.mut(self.region(t.value))
            d = dotted(t.value.func) if isinstance(t.value, ast.Call) else None
            if d == "globals":
                out.append(self.rw(w.opaque(self.f.fid, "globals()[..]=", t.lineno)))
            if d == "vars" and t.value.args:
                a0 = t.value.args[0]      # vars(obj)[name] = v  is  setattr(obj, name, v)
                if self.class_of_expr(a0) is not None or self.module_of_expr(a0) is not None:
                    out.append(self.rw(w.opaque(self.f.fid, "vars(class-or-module)[..]=", t.lineno)))
                out += self.mut(self.region(a0))
                if isinstance(a0, ast.Name) and a0.id == self.self_name:
                    self.f.mutates_self = True
            if isinstance(t.value, ast.Attribute) and t.value.attr == "__dict__" and \
                    (self.class_of_expr(t.value.value) or self.module_of_expr(t.value.value)):
                out.append(self.rw(w.opaque(self.f.fid, "class.__dict__[..]=", t.lineno)))
            if self.root_name(t.value) == self.self_name:
                self.f.mutates_self = True
            out += self.escape(esc)
            return ("seq", out)
        return self.rw(w.opaque(self.f.fid, "store:" + type(t).__name__, getattr(t, "lineno", 0)))

    # ---------------------------------------------------------------- expressions
    def expr(self, e):
        w = self.w
        if e is None or isinstance(e, ast.Constant):
            return ("seq", [])
        if isinstance(e, ast.Name):
            if isinstance(e.ctx, ast.Load):
                if e.id in self.default_vars:
                    return ("ev", self.default_vars[e.id], "read", "D")
                if e.id not in self.locals or e.id in self.globals_declared:
                    vn = w.mod_globals[self.f.mod].get(e.id)
                    if vn:
                        return ("ev", vn, "read", "G")
                    i = self.imp(e.id)
                    if i and i[0] == "from":
                        vn = w.mod_globals.get(i[1], {}).get(i[2])
                        if vn:      # `from m import X` copies the binding at import time
                            return ("ev", vn, "read", "G")
            return ("seq", [])
        if isinstance(e, ast.Attribute):
            out = [self.expr(e.value)]
            vs, rk = self.attr_vars(e)
            for v in vs:
                out.append(("ev", v, "read", rk))
            return ("seq", out)
        if isinstance(e, ast.Subscript):
            return ("seq", [self.expr(e.value), self.expr(e.slice)])
        if isinstance(e, ast.Call):
            return self.call(e)
        if isinstance(e, ast.BoolOp):
            first, rest = e.values[0], e.values[1:]
            return ("seq", [self.expr(first), ("alt", [("seq", [self.expr(x) for x in rest]), ("seq", [])])])
        if isinstance(e, ast.IfExp):
            return ("seq", [self.expr(e.test), ("alt", [self.expr(e.body), self.expr(e.orelse)])])
        if isinstance(e, ast.BinOp):
            return ("seq", [self.expr(e.left), self.expr(e.right)])
        if isinstance(e, ast.UnaryOp):
            return self.expr(e.operand)
        if isinstance(e, ast.Compare):
            return ("seq", [self.expr(e.left)] + [self.expr(x) for x in e.comparators])
        if isinstance(e, (ast.Tuple, ast.List, ast.Set)):
            return ("seq", [self.expr(x) for x in e.elts])
        if isinstance(e, ast.Dict):
            return ("seq", [self.expr(x) for x in list(e.keys) + list(e.values) if x is not None])
        if isinstance(e, (ast.ListComp, ast.SetComp, ast.GeneratorExp, ast.DictComp)):
            inner = [self.expr(e.key), self.expr(e.value)] if isinstance(e, ast.DictComp) else [self.expr(e.elt)]
            ir = ("seq", inner)
            for g in reversed(e.generators):
                ir = ("seq", [self.expr(g.iter), ("loop", ("seq", [self.store(g.target, set())] +
                                                           [self.expr(c) for c in g.ifs] + [ir]))])
            return ir
        if isinstance(e, ast.JoinedStr):
            return ("seq", [self.expr(x) for x in e.values])
        if isinstance(e, ast.FormattedValue):
            return self.expr(e.value)
        if isinstance(e, ast.Starred):
            return self.expr(e.value)
        if isinstance(e, ast.Lambda):
            return ("loop", self.expr(e.body))
        if isinstance(e, ast.Slice):
            return ("seq", [self.expr(x) for x in (e.lower, e.upper, e.step) if x is not None])
        if isinstance(e, ast.NamedExpr):
            return ("seq", [self.expr(e.value), self.store(e.target, self.region(e.value))])
        if isinstance(e, (ast.Yield, ast.YieldFrom, ast.Await)):
            out = [self.expr(e.value)] if e.value is not None else []
            if e.value is not None:
                self.returns |= self.region(e.value)
            return ("seq", out)
        return self.rw(w.opaque(self.f.fid, "expr:" + type(e).__name__, getattr(e, "lineno", 0)))


def strip_ret(ir):
    """remove ret/raise markers (used for inlined nested functions)"""
    if ir[0] in ("ret", "raise"):
        return ("seq", [])
    if ir[0] in ("seq", "alt"):
        return (ir[0], [strip_ret(x) for x in ir[1]])
    if ir[0] in ("loop", "weak"):
        return (ir[0], strip_ret(ir[1]))
    return ir


# ------------------------------------------------------------------------------------------- evaluation
# effect of one path on one var: (rfS, rfO, wS, wO, wA, kS, kG)
#   rfS/rfO  may read the value the var had on entry, through self / through anything else
#   wS/wO    may mutate in place the object the var held on entry (same receivers; masked by an earlier kill)
#   wA       may rebind the var itself (global rebinding, class-level assignment)
#   kS       every path has shadowed the var for `self` (instance store) -- later accesses through self are local
#   kG       every path has rebound the var itself -- later accesses do not see the incoming value
ID = (False,) * 7


def comp1(a, b):
    ms = a[5] or a[6]
    return (a[0] or (not ms and b[0]), a[1] or (not a[6] and b[1]),
            a[2] or (not ms and b[2]), a[3] or (not a[6] and b[3]), a[4] or b[4], a[5] or b[5], a[6] or b[6])


def join1(a, b):
    return (a[0] or b[0], a[1] or b[1], a[2] or b[2], a[3] or b[3], a[4] or b[4], a[5] and b[5], a[6] and b[6])


def comp(A, B):
    if A is None or B is None:
        return None
    out = dict(A)
    for v, b in B.items():
        out[v] = comp1(A.get(v, ID), b)
    return out


def join(A, B):
    if A is None:
        return B
    if B is None:
        return A
    out = {}
    for v in set(A) | set(B):
        out[v] = join1(A.get(v, ID), B.get(v, ID))
    return out


def weaken(A):
    return None if A is None else {v: e[:5] + (False, False) for v, e in A.items()}


def as_other(S):
    """callee summary seen through a receiver that is not the caller's self"""
    return {v: (False, e[0] or e[1], False, e[2] or e[3], e[4], False, e[6]) for v, e in S.items()}


def evt(kind, rk):
    s = rk == "S"
    if kind == "read":
        return (s, not s, False, False, False, False, False)
    if kind == "mutate":
        return (s, not s, s, not s, False, False, False)
    if kind in ("rebind", "classwrite"):
        return (False, False, False, False, True, False, True)
    if kind == "shadow":
        return (False, False, False, False, False, True, False) if s else ID
    raise ValueError(kind)


class Evaluator:
    def __init__(self, w, drop):
        self.w, self.drop = w, drop      # drop: initShadowed class attrs (accesses through instances are local)
        self.summ = {fid: {} for fid in w.funcs}
        self.cache = {}
        self.pb = next(iter(w.builders.values()))    # any Builder: param_of only needs the world
        # only variables that some scanned code may write can ever be violations; reads of the others are dropped
        self.track = w.track

    def ev(self, ir):
        """-> (falls, exits, raised): summaries of the paths that fall through / return / raise, or None"""
        k = ir[0]
        if k == "seq":
            falls, exits, raised = {}, None, None
            for x in ir[1]:
                if falls is None:
                    break
                f2, e2, r2 = self.ev(x)
                exits = join(exits, comp(falls, e2))
                raised = join(raised, comp(falls, r2))
                falls = comp(falls, f2)
            return falls, exits, raised
        if k == "alt":
            falls = exits = raised = None
            for x in ir[1]:
                f2, e2, r2 = self.ev(x)
                falls, exits, raised = join(falls, f2), join(exits, e2), join(raised, r2)
            return falls, exits, raised
        if k == "loop":
            f2, e2, r2 = self.ev(ir[1])
            once = weaken(join(join(f2, e2), r2)) or {}       # zero or more iterations: may-effects, no kills
            return once, (comp(once, e2) if e2 is not None else None), (comp(once, r2) if r2 is not None else None)
        if k == "weak":
            f2, e2, r2 = self.ev(ir[1])
            return (weaken(join(join(f2, e2), r2)) or {}), None, None
        if k == "ev":
            _, var, kind, rk = ir
            if var not in self.track or (var in self.drop and rk in ("S", "O")):
                return {}, None, None
            return {var: evt(kind, rk)}, None, None
        if k == "call":
            _, targets, via_self = ir
            ck = (tuple(targets), via_self)
            s = self.cache.get(ck)
            if s is None:
                for t in targets:
                    st = {v: e for v, e in self.summ.get(t, {}).items() if not is_pvar(v)}   # callee's parameters are its own
                    st = st if via_self else as_other(st)
                    s = dict(st) if s is None else join(s, st)
                self.cache[ck] = s
            return dict(s), None, None
        if k == "selfmut":
            _, reg, targets = ir
            if any(self.w.funcs[t].mutates_self for t in targets if t in self.w.funcs):
                return self.mutate_all(reg), None, None
            return {}, None, None
        if k == "argpass":
            _, reg, targets, key, bound = ir
            deep = False
            for t in targets:
                pv = self.pb.param_of(t, key, bound)
                st = self.summ.get(t, {})
                e = st.get(pv) if pv else None
                if pv is None or (e is not None and (e[2] or e[3] or e[4])):
                    return self.mutate_all(reg), None, None     # the object passed in is mutated / escapes
                e2 = st.get(pv + "[*]")
                deep = deep or (e2 is not None and (e2[2] or e2[3] or e2[4]))
            if deep:    # only things reached inside it are: harmless for flat literals (immutable elements)
                return self.mutate_all([(v, rk, True) for (v, rk, dp) in reg
                                        if not self.w.vars.get(v, {}).get("flat")]), None, None
            return {}, None, None
        if k == "ret":
            return None, {}, None
        if k == "raise":
            return None, None, {}
        raise ValueError(k)

    def mutate_all(self, reg):
        out = {}
        for (v, rk, dp) in reg:
            if not (v in self.drop and rk in ("S", "O")):
                tv = target_var(v, dp)
                e = evt("mutate", rk)
                out[tv] = tuple(x or y for x, y in zip(out[tv], e)) if tv in out else e
        return out

    def function_summary(self, fid):
        f2, e2, r2 = self.ev(self.w.funcs[fid].ir)
        normal = join(f2, e2)
        allp = join(normal, r2)
        if allp is None:
            return {}
        out = {}
        for v, e in allp.items():
            n = normal.get(v, ID) if normal is not None else (False,) * 5 + (True, True)
            out[v] = e[:5] + (n[5], n[6])
        return out

    def run(self, max_rounds=60):
        order = list(self.w.funcs)
        for rnd in range(max_rounds):
            self.cache = {}
            changed = False
            for fid in order:
                new = self.function_summary(fid)
                old = self.summ[fid]
                merged = {}
                for v in set(new) | set(old):
                    a, b = new.get(v, ID), old.get(v)
                    # may-bits accumulate over rounds, must-bits take the latest value (pessimistic start)
                    merged[v] = a if b is None else tuple(x or y for x, y in zip(a[:5], b[:5])) + (a[5], a[6])
                if merged != old:
                    self.summ[fid] = merged
                    changed = True
            if not changed:
                return rnd + 1
        return -1


def written_candidates(w):
    """variables (and parameters) for which some scanned code contains a possibly-writing construct"""
    out = set()

    def walk(ir):
        k = ir[0]
        if k == "ev":
            if ir[2] in ("mutate", "rebind", "classwrite"):
                out.add(ir[1])
        elif k in ("selfmut", "argpass"):
            out.update(target_var(v, dp) for (v, rk, dp) in ir[1])
            out.update(target_var(v, True) for (v, rk, dp) in ir[1])
        elif k in ("seq", "alt"):
            for x in ir[1]:
                walk(x)
        elif k in ("loop", "weak"):
            walk(ir[1])
    for f in w.funcs.values():
        walk(f.ir)
    return out


EMPTY = ("seq", [])


def prune(ir, track):
    """drop events on untracked variables and empty structure (pure speed-up: they evaluate to the identity)"""
    k = ir[0]
    if k == "ev":
        return ir if ir[1] in track else EMPTY
    if k == "seq":
        out = []
        for x in ir[1]:
            y = prune(x, track)
            if y[0] == "seq":
                out.extend(y[1])
            else:
                out.append(y)
        return ("seq", out) if out else EMPTY
    if k == "alt":
        bs = [prune(x, track) for x in ir[1]]
        if all(b == EMPTY for b in bs):
            return EMPTY
        return ("alt", bs)
    if k in ("loop", "weak"):
        y = prune(ir[1], track)
        return EMPTY if y == EMPTY else (k, y)
    return ir


def mutates_self_closure(w):
    """a method mutates its receiver if it stores into self or calls (through self) a method that does"""
    calls = {}
    for fid, f in w.funcs.items():
        cs = set()

        def walk(ir):
            if ir[0] == "call":
                if ir[2]:
                    cs.update(ir[1])
            elif ir[0] in ("seq", "alt"):
                for x in ir[1]:
                    walk(x)
            elif ir[0] in ("loop", "weak"):
                walk(ir[1])
        walk(f.ir)
        calls[fid] = cs
    changed = True
    while changed:
        changed = False
        for fid, f in w.funcs.items():
            if not f.mutates_self and any(w.funcs[c].mutates_self for c in calls[fid] if c in w.funcs):
                f.mutates_self = True
                changed = True


# ------------------------------------------------------------------------------------------- reach
def _module_file(repo, dotted_name):
    """repository-relative path of the module / package `dotted_name` if it lives in the repository"""
    rel = dotted_name.replace(".", "/")
    for cand in (rel + ".py", rel + "/__init__.py"):
        if os.path.isfile(os.path.join(repo, cand)):
            return cand
    return None


def import_closure(repo, roots=None):
    """every module of the repository that importing (and running) the ROOTS can import: all `import` / `from .. import`
    statements anywhere in the file (function-level lazy imports included, `if __name__ == "__main__"` blocks
    excluded), followed transitively; importing `a.b.c` also imports the packages `a` and `a.b`.
    -> (sorted list of repository-relative paths, list of unresolvable-in-repo dotted names that start with `neuroml`)"""
    seen, todo, dangling = [], list(roots or ROOTS), []
    while todo:
        mod = todo.pop()
        if mod in seen:
            continue
        path = os.path.join(repo, mod)
        if not os.path.isfile(path):
            dangling.append(mod)
            continue
        seen.append(mod)
        with open(path) as fh:
            tree = ast.parse(fh.read(), filename=path)
        pkg_parts = os.path.dirname(mod).split("/") if os.path.dirname(mod) else []

        def add(dn):
            parts = dn.split(".")
            if parts[0] != "neuroml":
                return False
            found = False
            for i in range(1, len(parts) + 1):
                f = _module_file(repo, ".".join(parts[:i]))
                if f:
                    found = found or i == len(parts)
                    if f not in seen:
                        todo.append(f)
            return found

        def visit(node):
            for ch in ast.iter_child_nodes(node):
                if is_main_guard(ch):
                    continue
                if isinstance(ch, ast.Import):
                    for a in ch.names:
                        if not add(a.name) and a.name.split(".")[0] == "neuroml":
                            dangling.append(a.name)
                elif isinstance(ch, ast.ImportFrom):
                    base = ch.module or ""
                    if ch.level:
                        up = pkg_parts[: len(pkg_parts) - (ch.level - 1)]
                        base = ".".join(up + ([base] if base else []))
                    if base:
                        ok = add(base)
                        for a in ch.names:       # `from pkg import submodule`
                            if a.name != "*":
                                add(base + "." + a.name)
                        if not ok and base.split(".")[0] == "neuroml":
                            dangling.append(base)
                visit(ch)
        visit(tree)
    return sorted(seen), sorted(set(dangling))


# ------------------------------------------------------------------------------------------- driver
NML_ENTRIES = {"parse", "parseString", "parseEtree", "parseLiteral"}


def analyse(repo):
    w = World()
    declare(w, repo)
    sys.setrecursionlimit(max(sys.getrecursionlimit(), 20000))
    # IR construction, iterated because the region of a call's value needs the callees' return regions
    rounds_b = 0
    for rounds_b in range(1, 5):
        w.builders = {}
        new_returns = {}
        nvars = len(w.vars) if rounds_b > 1 else -1
        for fid, f in w.funcs.items():
            f.mutates_self = False
            b = Builder(w, f)
            f.ir = b.build()
            w.builders[fid] = b
            new_returns[fid] = b.returns
        stable = new_returns == w.returns and nvars == len(w.vars)
        w.returns = new_returns
        if stable:
            break
    mutates_self_closure(w)
    w.track = written_candidates(w)
    for f in w.funcs.values():
        f.ir = prune(f.ir, w.track)
    # phase 1: nothing dropped -> which class attributes are assigned by every constructor before being read?
    ev1 = Evaluator(w, set())
    r1 = ev1.run()
    shadowed = set()
    for vn, v in w.vars.items():
        if v["kind"] != "classAttr":
            continue
        ok = True
        for k in [v["cls"]] + sorted(w.subclasses.get(v["cls"], ())):
            init = find_method(w, k, "__init__")
            if init is None:
                ok = False
                break
            e = ev1.summ[init].get(vn)
            if e is None or not e[5] or e[0] or e[2]:
                ok = False
                break
        if ok:
            shadowed.add(vn)
    ev2 = Evaluator(w, shadowed)
    r2 = ev2.run()
    for vn in w.vars:
        w.vars[vn]["initShadowed"] = vn in shadowed
        w.vars[vn]["candidate"] = vn in w.track
    # entries
    entries = []
    nml_union = None
    for fid, f in w.funcs.items():
        s = dict(ev2.summ[fid])
        public = not f.node.name.startswith("_") or (f.node.name.startswith("__") and f.node.name.endswith("__"))
        is_entry = f.mod in ENTRY_ALL or (f.mod in ENTRY_TOPLEVEL and f.cls is None and f.node.name in NML_ENTRIES)
        if is_entry:
            # a shared mutable object handed back to the caller escapes
            b = w.builders[fid]
            for (v, rk, dp) in b.esc_filter(b.returns):
                if not is_pvar(v) and not (v in shadowed and rk in ("S", "O")):
                    s[v] = comp1(s.get(v, ID), evt("mutate", rk))
            entries.append((fid, public, s))
        elif f.mod in OBJECT_METHOD_MODULES and f.cls is not None:
            nml_union = join(nml_union, weaken(s))
    if nml_union is not None:
        entries.append((NML_METHODS_ENTRY, False, nml_union))
    table = []
    for fid, public, s in sorted(entries):
        rbw = sorted(v for v, e in s.items() if (e[0] or e[1]) and not is_pvar(v))
        wr = sorted(v for v, e in s.items() if (e[2] or e[3] or e[4]) and not is_pvar(v))
        table.append(dict(name=fid, public=public, rbw=rbw, writes=wr))
    for e in table:
        e["env"] = e["name"].split("::")[0] in ENV_MODULES
    reach, dangling = import_closure(repo)
    w.reach, w.reach_dangling = reach, dangling
    for m in reach:
        if m not in MODULES:
            w.gaps.append("%s: module reachable from a loader entry point is not scanned" % m)
    for d in dangling:
        w.gaps.append("%s: import of a neuroml module that is not in the repository" % d)
    stats = dict(functions=len(w.funcs), classes=len(w.classes), vars=len(w.vars), entries=len(table),
                 rounds=[rounds_b, r1, r2], opaque=len(w.gaps), reach=len(reach), scanned=len(MODULES))
    return w, table, stats


KIND = {"modGlobal": "modGlobal", "classAttr": "classAttr", "mutDefault": "mutDefault", "opaque": "opaque",
        "external": "external"}


def lean_str(s):
    return '"' + s.replace("\\", "\\\\").replace('"', '\\"') + '"'


def emit(w, table, stats, out_lean, out_json=None):
    names, idx = [], {}

    def intern(s):
        if s not in idx:
            idx[s] = len(names)
            names.append(s)
        return idx[s]
    for vn in sorted(w.vars):
        intern(vn)
    for e in table:
        intern(e["name"])
    L = []
    L.append("/- GENERATED by translators/glue_extract.py from the repository's current working tree -- do not edit.")
    L.append("   %s -/" % json.dumps(stats))
    L.append("import NmlVerif.Model.Glue")
    L.append("namespace NmlVerif.Gen.Glue")
    L.append("open NmlVerif.Glue")
    L.append("")
    L.append("def names : Array String := #[")
    L.append(",\n".join("  " + lean_str(n) for n in names))
    L.append("]")
    L.append("")
    L.append("def vars : List SharedVar := [")
    rows = []
    for vn in sorted(w.vars):
        v = w.vars[vn]
        rows.append("  ⟨%d, .%s, %s, %s⟩" % (idx[vn], KIND[v["kind"]], "true" if v["mut"] in ("mut", "unk") else "false",
                                              "true" if v.get("initShadowed") else "false"))
    L.append(",\n".join(rows))
    L.append("]")
    L.append("")
    L.append("def entries : List EntrySummary := [")
    rows = []
    for e in table:
        rows.append("  ⟨%d, %s, [%s], [%s]⟩" % (idx[e["name"]], "true" if e["public"] else "false",
                                               ", ".join(str(idx[v]) for v in e["rbw"]),
                                               ", ".join(str(idx[v]) for v in e["writes"])))
    L.append(",\n".join(rows))
    L.append("]")
    L.append("")
    L.append("def table : Table := ⟨vars, entries⟩")
    L.append("")
    L.append("/-- names (ids) of the configuration entries: functions of the package's configuration API -/")
    L.append("def envEntries : List Nat := [%s]" % ", ".join(str(idx[e["name"]]) for e in table if e.get("env")))
    L.append("")
    L.append("/-- import closure of the modules holding loader entry points (every import statement, lazy ones included) -/")
    L.append("def reach : List String := [%s]" % ", ".join(lean_str(m) for m in w.reach))
    L.append("")
    L.append("/-- the modules whose module-level / class-level / default-argument state is in `vars` -/")
    L.append("def scanned : List String := [%s]" % ", ".join(lean_str(m) for m in MODULES))
    L.append("")
    L.append("end NmlVerif.Gen.Glue")
    text = "\n".join(L) + "\n"
    os.makedirs(os.path.dirname(out_lean), exist_ok=True)
    old = open(out_lean).read() if os.path.exists(out_lean) else None
    if old != text:
        with open(out_lean, "w") as fh:
            fh.write(text)
    side = dict(stats=stats, names=names,
                vars=[dict(name=vn, **{k: (list(x) if isinstance(x, tuple) else x) for k, x in w.vars[vn].items()})
                      for vn in sorted(w.vars)],
                entries=table, gaps=w.gaps, reach=w.reach, scanned=list(MODULES))
    if out_json:
        with open(out_json, "w") as fh:
            json.dump(side, fh, indent=1)
    return side


def violations(side):
    """python mirror of Table.violations (only used for messages; the obligation is checked in Lean)"""
    written = set()
    for e in side["entries"]:
        written |= set(e["writes"])
    out = []
    for e in side["entries"]:
        for v in e["rbw"]:
            if v in written:
                out.append((e["name"], v))
    return out


def main(argv):
    repo = argv[1] if len(argv) > 1 else os.environ.get("VERIF_REPO", "/repo")
    here = os.path.dirname(os.path.dirname(os.path.abspath(__file__)))
    out = argv[2] if len(argv) > 2 else os.path.join(here, "lean", "NmlVerif", "Gen", "Glue.lean")
    w, table, stats = analyse(repo)
    side = emit(w, table, stats, out, argv[3] if len(argv) > 3 else None)
    print(json.dumps(stats))
    vs = violations(side)
    for v in sorted({v for _, v in vs}):
        print("VIOLATING-VAR", v, "entries:", len([1 for e, x in vs if x == v]))
    for g in w.gaps:
        print("OPAQUE", g)


if __name__ == "__main__":
    main(sys.argv)
