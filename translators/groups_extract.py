"""groups_extract — translate the four segment-group methods of `Cell` into Lean, statement by statement.

Reads (with Python's `ast`; nothing is imported or executed) from the CURRENT working tree of the repository

    neuroml/nml/nml.py              class Cell
    neuroml/nml/helper_methods.py   the same methods inside the `MethodSpec(source=...)` string constants

the bodies of

    Cell.get_all_segments_in_group      Cell.get_segment_group
    Cell.optimise_segment_group         Cell.optimise_segment_groups

and writes `lean/NmlVerif/Gen/Groups.lean`: one Lean `do` block in the `Except Err` monad per method, one Lean
statement per Python statement (the Python statement is repeated above it as a comment).  `Props/C14.lean` proves
that each generated definition equals the hand model (`c14_gen_*`), for all inputs, so the C14 theorems are about what
the source says today.  Both files must give the same translation.

Representation of Python values (primitives in `lean/NmlVerif/Model/Groups.lean`)
  * segment ids and (interned) segment-group ids are `Nat`; `'all'` is `allId`, `''` is `emptyId`;
  * a `Member` / `Include` object is the id it carries: `m.segments` / `i.segment_groups` are the object itself.
    Sound because the methods never assign to an attribute of such an object and never compare two of them
    (both refused below), so only the carried id is observable;
  * a list or `set` of them is a `List Nat`.  Sound because (a) every list/set that is mutated in place
    (`append`, `add`, `update`) was created by the method itself (`[]`, `set()`) and has not been stored, returned,
    assigned to another name or iterated over at that point -- anything else is refused -- so no other object can see
    the mutation (in particular two groups sharing one `members` list object behave as if each had its own), and
    (b) a `set` is only ever tested for membership (refused otherwise);
  * `self` is a `Cell` value threaded through the statements of a method that assigns to a group
    (`let mut self`); a `SegmentGroup` that is assigned to is a reference = its position in
    `morphology.segment_groups` (`grp self k`, `setMembers self k l`, `setIncludes self k l`); a `SegmentGroup` that
    is only read (in a method that assigns to nothing and does not return it) is a `Group` value;
  * `segment_group: Union[str, SegmentGroup]` is `Arg`; `isinstance(x, str)` is `Arg.isStr`; `sg.id == x` is
    `Arg.eqId` (False when `x` holds an object: checked that `GeneratedsSuper.__eq__` compares the types first);
  * `raise` -> `throw Err.*` by (exception class, leading string constant of the message); `return e` -> `return e`;
    recursion -> the parameter `rec_`, the knot is tied with fuel (`RecursionError` = `Err.outOfFuel`);
  * `natsort.natsorted(l, key=lambda x: x.segment_groups)` -> `sortBy key l` (`key` = natural-sort key of the group id
    strings, a parameter), `key=lambda x: x.segments` -> `sortBy (fun x => x) l` (ints in numeric order).

Anything not listed in the rules below is a *gap*: reported (the check fails), never skipped.

Before translation each method is NORMALISED (section "normalisation of equivalent surface shapes", rules N1-N10 and
T1-T3): equivalent spellings of one statement are mapped to one canonical spelling, so that a behaviour-preserving
refactoring of the source gives byte-for-byte the same generated file and every proof still applies.
"""
import ast
import os
import sys

CLASS = "Cell"
TARGETS = ["get_all_segments_in_group", "get_segment_group", "optimise_segment_group", "optimise_segment_groups"]

# parameter and result types of the translated methods (checked against the annotations that exist)
SIGS = {
    "get_all_segments_in_group": {"params": [("segment_group", "arg"), ("assume_all_means_all", "bool")], "ret": "list:sid"},
    "get_segment_group": {"params": [("sg_id", "gid")], "ret": "gref"},
    "optimise_segment_group": {"params": [("seg_group_id", "gid")], "ret": "none"},
    "optimise_segment_groups": {"params": [], "ret": "none"},
}
# T2: annotations are not evaluated by the methods; the equivalent spellings of the same type are accepted
ANNOT_OK = {
    "arg": {"typing.Union[str, SegmentGroup]", "Union[str, SegmentGroup]", "str | SegmentGroup",
            "typing.Union[str, 'SegmentGroup']", "Union[str, 'SegmentGroup']", "'typing.Union[str, SegmentGroup]'",
            "'Union[str, SegmentGroup]'", "'str | SegmentGroup'"},
    "bool": {"bool"},
    "gid": {"str"},
}
RET_ANNOT_OK = {"list:sid": {"typing.List[int]", "List[int]", "list[int]", "'typing.List[int]'", "'List[int]'", "'list[int]'"},
                "gref": {"SegmentGroup", "'SegmentGroup'"}, "none": {"None"}}
LEAN_TY = {"arg": "Arg", "bool": "Bool", "gid": "Nat", "sid": "Nat"}
LEAN_RET = {"list:sid": "List Nat", "gref": "Nat", "none": "Cell"}
RAISES = {
    ("Exception", "No segment group "): "Err.unknownGroup",
    ("ValueError", "Segment group with id "): "Err.notFound",
}
LEAN_RESERVED = {"at", "from", "end", "fun", "do", "then", "else", "if", "let", "have", "show", "match", "with",
                 "in", "by", "where", "open", "def", "theorem", "structure", "class", "instance", "namespace",
                 "section", "variable", "universe", "import", "for", "return", "mut", "Type", "Prop", "Sort",
                 "include", "omit", "export", "private", "protected", "partial", "unsafe", "deriving", "extends",
                 "macro", "syntax", "notation", "infix", "prefix", "postfix", "attribute", "local", "scoped",
                 "rec_", "key", "fuel", "grp", "default"}


class Gap(Exception):
    pass


def lname(n):
    return n + "_" if n in LEAN_RESERVED else n


def where(node):
    return "line %s" % getattr(node, "lineno", "?")


def is_list(t):
    return t.startswith("list:")


def is_set(t):
    return t.startswith("set:")


def elt(t):
    return t.split(":", 1)[1]


def unify_elt(a, b, node):
    """element kinds of two collections; '?' is an empty literal not yet used"""
    if a == "?":
        return b
    if b == "?" or a == b:
        return a
    raise Gap("%s: collection of %s used with %s" % (where(node), a, b))


class Fn:
    """translation of one method"""

    def __init__(self, name, node, facts):
        self.name, self.node, self.facts = name, node, facts
        self.sig = SIGS[name]
        self.mutating = facts["mutating"][name]
        self.recursive = facts["recursive"][name]
        self.refs = self.mutating or self.sig["ret"] == "gref"      # iterate group references, not values
        self.lines = []
        self.env = {}            # python name -> {"ty":, "fresh": bool, "escaped": bool, "alive": bool, "loopvar": bool}
        self.scopes = [[]]
        self.iterating = []      # names of lists being iterated by enclosing loops
        self.assumptions = set()

    # ------------------------------------------------------------ environment
    def declare(self, name, ty, fresh=False, loopvar=False, surelist=False):
        self.env[name] = {"ty": ty, "fresh": fresh, "escaped": False, "alive": True, "loopvar": loopvar,
                          "surelist": surelist, "depth": len(self.scopes)}
        self.scopes[-1].append(name)

    # T3: which names certainly hold a real Python `list` (exact type) at this point of the method
    def sure_list(self, node):
        """the value of `node` is certainly a `list` object: built here by `[...]`, a list comprehension, `list(...)`
        or `natsort.natsorted(...)` (all return a new exact `list`), or a name that holds such a value"""
        if isinstance(node, (ast.List, ast.ListComp)):
            return True
        if isinstance(node, ast.Call) and isinstance(node.func, ast.Name) and node.func.id == "list":
            return True
        if isinstance(node, ast.Call) and self.attr_chain(node.func) == ["natsort", "natsorted"]:
            return True
        if isinstance(node, ast.Name):
            v = self.env.get(node.id)
            return bool(v and v["alive"] and v["surelist"])
        return False

    def canon_truth(self, node):
        """T3: in a condition, `l` for a name that certainly holds a list -> `len(l) > 0` (for an exact `list`,
        `bool(l)` IS `len(l) != 0`; `len` cannot raise on it). Only names of known lists: for any other value (`None`,
        an object with `__bool__`/`__len__`) the two differ, and those are left alone (the translator then refuses
        the truth value of a list-typed expression)."""
        if isinstance(node, ast.BoolOp):
            node.values = [self.canon_truth(v) for v in node.values]
            return node
        if isinstance(node, ast.UnaryOp) and isinstance(node.op, ast.Not):
            node.operand = self.canon_truth(node.operand)
            return node
        if isinstance(node, ast.Name) and self.sure_list(node) and is_list(self.env[node.id]["ty"]):
            call = ast.copy_location(ast.Call(ast.copy_location(ast.Name("len", ast.Load()), node),
                                              [ast.copy_location(ast.Name(node.id, ast.Load()), node)], []), node)
            return ast.copy_location(ast.Compare(call, [ast.Gt()], [ast.copy_location(ast.Constant(0), node)]), node)
        return node

    def push(self):
        self.scopes.append([])

    def pop(self):
        for n in self.scopes.pop():
            self.env[n]["alive"] = False

    def var(self, name, node):
        v = self.env.get(name)
        if v is None:
            raise Gap("%s: unknown name %s" % (where(node), name))
        if not v["alive"]:
            raise Gap("%s: %s is used outside the block that first assigned it" % (where(node), name))
        return v

    def emit(self, ind, text):
        self.lines.append("  " * ind + text)

    def comment(self, ind, node, head_only=False):
        src = ast.unparse(node)
        if head_only:
            src = src.split("\n")[0]
        for l in src.split("\n"):
            self.emit(ind, "-- " + l)

    # ------------------------------------------------------------ expressions
    def escape(self, node):
        """a bare collection name used as a whole value: it may now be reachable from elsewhere"""
        if isinstance(node, ast.Name) and node.id in self.env:
            self.env[node.id]["escaped"] = True

    def attr_chain(self, node):
        parts = []
        while isinstance(node, ast.Attribute):
            parts.append(node.attr)
            node = node.value
        if isinstance(node, ast.Name):
            parts.append(node.id)
            return list(reversed(parts))
        return None

    def expr(self, node, effects=True):
        """-> (lean text, type); `effects`: a raising call may be lifted here (never under and/or/not/compare)"""
        if isinstance(node, ast.Name):
            if node.id == "self":
                return "self", "cell"
            v = self.var(node.id, node)
            return lname(node.id), v["ty"]
        if isinstance(node, ast.Constant):
            if node.value is True:
                return "true", "bool"
            if node.value is False:
                return "false", "bool"
            if node.value == "all" and isinstance(node.value, str):
                return "allId", "gid"
            raise Gap("%s: constant %r" % (where(node), node.value))
        if isinstance(node, ast.List) and not node.elts:
            return "[]", "list:?"
        if isinstance(node, ast.Attribute):
            chain = self.attr_chain(node)
            if chain == ["self", "morphology", "segment_groups"]:
                return None, "grouplist"
            if chain is None or len(chain) != 2:
                raise Gap("%s: attribute expression %s" % (where(node), ast.unparse(node)))
            base, ty = self.expr(node.value, effects)
            a = node.attr
            if a == "id" and ty == "gval":
                return "%s.id" % base, "gid"
            if a == "id" and ty == "gref":
                return "(grp self %s).id" % base, "gid"
            if a in ("members", "includes"):
                k = "list:member" if a == "members" else "list:include"
                if ty == "gval":
                    return "%s.%s" % (base, a), k
                if ty == "gref":
                    return "(grp self %s).%s" % (base, a), k
                if ty == "arg":
                    if not effects:
                        raise Gap("%s: %s may raise inside a condition" % (where(node), ast.unparse(node)))
                    return "(← Arg.%s %s)" % (a, base), k
            if a == "segments" and ty == "member":
                return base, "sid"
            if a == "segment_groups" and ty == "include":
                return base, "gid"
            raise Gap("%s: attribute .%s of a value of kind %s" % (where(node), a, ty))
        if isinstance(node, ast.BoolOp):
            op = "&&" if isinstance(node.op, ast.And) else "||"
            parts = []
            for v in node.values:
                parts.append(self.cond(v, effects=False))
            return "(" + (" %s " % op).join(parts) + ")", "bool"
        if isinstance(node, ast.UnaryOp) and isinstance(node.op, ast.Not):
            return "!(%s)" % self.cond(node.operand, effects=False), "bool"
        if isinstance(node, ast.Compare):
            if len(node.ops) != 1:
                raise Gap("%s: chained comparison" % where(node))
            op, l, r = node.ops[0], node.left, node.comparators[0]
            if isinstance(op, (ast.In, ast.NotIn)):
                lt, lty = self.expr(l, False)
                rt, rty = self.expr(r, False)
                if lty not in ("sid", "gid") or not (is_list(rty) or is_set(rty)):
                    raise Gap("%s: membership test of a %s in a %s" % (where(node), lty, rty))
                unify_elt(elt(rty), lty, node)
                t = "%s.contains %s" % (rt, lt)
                return ("!(%s)" % t if isinstance(op, ast.NotIn) else t), "bool"
            if isinstance(op, ast.Eq):
                lt, lty = self.expr(l, False)
                rt, rty = self.expr(r, False)
                if lty == "gid" and rty == "arg":
                    return "Arg.eqId %s %s" % (lt, rt), "bool"
                if lty == "arg" and rty == "gid":
                    return "Arg.eqId %s %s" % (rt, lt), "bool"
                if lty == rty and lty in ("gid", "sid"):
                    return "%s == %s" % (lt, rt), "bool"
                raise Gap("%s: == between a %s and a %s" % (where(node), lty, rty))
            if isinstance(op, ast.Gt) and isinstance(r, ast.Constant) and r.value == 0 and type(r.value) is int \
                    and isinstance(l, ast.Call) and isinstance(l.func, ast.Name) and l.func.id == "len" \
                    and len(l.args) == 1 and not l.keywords:
                t, ty = self.expr(l.args[0], False)
                if not is_list(ty):
                    raise Gap("%s: len() of a %s" % (where(node), ty))
                return "decide (%s.length > 0)" % t, "bool"
            raise Gap("%s: comparison %s" % (where(node), ast.unparse(node)))
        if isinstance(node, ast.ListComp):
            return self.listcomp(node)
        if isinstance(node, ast.Call):
            return self.call(node, effects)
        raise Gap("%s: expression %s" % (where(node), ast.unparse(node)))

    def cond(self, node, effects=False):
        t, ty = self.expr(node, effects)
        if ty == "bool":
            return t
        if ty == "gid":                      # truth value of a string
            return "strTruthy %s" % t
        raise Gap("%s: truth value of a %s" % (where(node), ty))

    def listcomp(self, node):
        if len(node.generators) != 1 or node.generators[0].is_async:
            raise Gap("%s: comprehension with several generators" % where(node))
        g = node.generators[0]
        if not isinstance(g.target, ast.Name):
            raise Gap("%s: comprehension target" % where(node))
        v = g.target.id
        # [seg.id for seg in self.morphology.segments]
        if self.attr_chain(g.iter) == ["self", "morphology", "segments"] and not g.ifs \
                and isinstance(node.elt, ast.Attribute) and node.elt.attr == "id" \
                and isinstance(node.elt.value, ast.Name) and node.elt.value.id == v:
            return "self.segs", "list:sid"
        # [i for i in L if COND]
        if isinstance(node.elt, ast.Name) and node.elt.id == v and len(g.ifs) == 1:
            lt, lty = self.expr(g.iter, False)
            if not is_list(lty) or elt(lty) == "?":
                raise Gap("%s: comprehension over a %s" % (where(node), lty))
            self.push()
            self.declare(v, elt(lty), loopvar=True)
            c = self.cond(g.ifs[0], effects=False)
            self.pop()
            return "%s.filter (fun %s => %s)" % (lt, lname(v), c), lty
        raise Gap("%s: comprehension %s" % (where(node), ast.unparse(node)))

    def call(self, node, effects):
        f = node.func
        if isinstance(f, ast.Name):
            if f.id == "isinstance" and len(node.args) == 2 and not node.keywords \
                    and isinstance(node.args[1], ast.Name) and node.args[1].id == "str":
                t, ty = self.expr(node.args[0], False)
                if ty != "arg":
                    raise Gap("%s: isinstance(_, str) of a %s" % (where(node), ty))
                return "Arg.isStr %s" % t, "bool"
            if f.id == "set" and not node.args and not node.keywords:
                return "[]", "set:?"
            if f.id == "list" and len(node.args) == 1 and not node.keywords:
                t, ty = self.expr(node.args[0], effects)       # a copy: the argument does not escape
                if not is_list(ty):
                    raise Gap("%s: list() of a %s" % (where(node), ty))
                return t, ty
            raise Gap("%s: call of %s" % (where(node), f.id))
        chain = self.attr_chain(f)
        if chain == ["natsort", "natsorted"]:
            if len(node.args) != 1 or len(node.keywords) != 1 or node.keywords[0].arg != "key":
                raise Gap("%s: natsorted arguments" % where(node))
            lam = node.keywords[0].value
            if not (isinstance(lam, ast.Lambda) and len(lam.args.args) == 1 and isinstance(lam.body, ast.Attribute)
                    and isinstance(lam.body.value, ast.Name) and lam.body.value.id == lam.args.args[0].arg):
                raise Gap("%s: natsorted key %s" % (where(node), ast.unparse(lam)))
            t, ty = self.expr(node.args[0], effects)           # natsorted returns a new list
            if ty == "list:include" and lam.body.attr == "segment_groups":
                self.uses_key = True
                return "sortBy key %s" % t, ty
            if ty == "list:member" and lam.body.attr == "segments":
                return "sortBy (fun x => x) %s" % t, ty
            raise Gap("%s: natsorted of a %s by .%s" % (where(node), ty, lam.body.attr))
        if chain and len(chain) == 2 and chain[0] == "self" and chain[1] in TARGETS:
            m = chain[1]
            if not effects:
                raise Gap("%s: call of %s inside a condition" % (where(node), m))
            sig = SIGS[m]
            if node.keywords:
                raise Gap("%s: keyword arguments in a call of %s" % (where(node), m))
            args = []
            for k, (pn, pt) in enumerate(sig["params"]):
                if k < len(node.args):
                    t, ty = self.expr(node.args[k], effects)
                    if pt == "arg" and ty == "gid":
                        t = "(Arg.str %s)" % t
                    elif pt == "arg" and ty == "gval":
                        t = "(Arg.obj %s)" % t
                    elif pt != ty:
                        raise Gap("%s: argument %d of %s is a %s, expected %s" % (where(node), k, m, ty, pt))
                    args.append(t)
                else:
                    d = self.facts["defaults"][m].get(pn)
                    if d is None:
                        raise Gap("%s: missing argument %s of %s" % (where(node), pn, m))
                    args.append(d)
            if len(node.args) > len(sig["params"]):
                raise Gap("%s: too many arguments for %s" % (where(node), m))
            if m == self.name and self.recursive:
                head = "rec_ self"
            else:
                head = m
                if self.facts["uses_key"][m]:
                    head += " key"
                    self.uses_key = True
                if self.facts["uses_fuel"][m] or self.facts["recursive"][m]:
                    head += " fuel"
                head += " self"
            txt = (head + " " + " ".join(args)).rstrip()
            if self.facts["mutating"][m]:
                return txt, "newself"
            return "(← %s)" % txt, sig["ret"]
        raise Gap("%s: call %s" % (where(node), ast.unparse(f)))

    # ------------------------------------------------------------ statements
    def block(self, stmts, ind):
        """returns True when the block always ends in return/raise"""
        ended = False
        for k, st in enumerate(stmts):
            if ended:
                raise Gap("%s: statement after return/raise" % where(st))
            ended = self.stmt(st, ind)
        return ended

    def prescan_escapes(self, body):
        """inside a loop an escape later in the body precedes, on the next iteration, a mutation earlier in it"""
        for st in body:
            for n in ast.walk(st):
                vals = []
                if isinstance(n, ast.Assign):
                    vals.append(n.value)
                elif isinstance(n, ast.Return) and n.value is not None:
                    vals.append(n.value)
                elif isinstance(n, ast.Call):
                    recv_ok = isinstance(n.func, ast.Name) and n.func.id in ("len", "list", "isinstance")
                    if not recv_ok:
                        vals += list(n.args) + [k.value for k in n.keywords]
                for v in vals:
                    self.escape(v)

    def inplace(self, st, ind, call):
        """x.append(e) / s.add(e) / s.update(l) on a collection this method created and nobody else can see"""
        recv, meth = call.func.value, call.func.attr
        if not isinstance(recv, ast.Name) or len(call.args) != 1 or call.keywords:
            raise Gap("%s: in-place call %s" % (where(st), ast.unparse(call)))
        v = self.var(recv.id, st)
        if not v["fresh"] or v["escaped"]:
            raise Gap("%s: %s.%s(...) mutates a collection that was not created here or is visible elsewhere "
                      "(aliasing would matter)" % (where(st), recv.id, meth))
        if recv.id in self.iterating:
            raise Gap("%s: %s is mutated while it is iterated" % (where(st), recv.id))
        t, ty = self.expr(call.args[0])
        x = lname(recv.id)
        if meth == "append" and is_list(v["ty"]) and ty in ("sid", "gid", "member", "include"):
            v["ty"] = "list:" + unify_elt(elt(v["ty"]), ty, st)
            self.emit(ind, "%s := %s ++ [%s]" % (x, x, t))
        elif meth == "add" and is_set(v["ty"]) and ty in ("sid", "gid"):
            v["ty"] = "set:" + unify_elt(elt(v["ty"]), ty, st)
            self.emit(ind, "%s := %s ++ [%s]" % (x, x, t))
        elif meth == "update" and is_set(v["ty"]) and (is_list(ty) or is_set(ty)) and elt(ty) in ("sid", "gid", "?"):
            v["ty"] = "set:" + unify_elt(elt(v["ty"]), elt(ty), st)
            self.emit(ind, "%s := %s ++ %s" % (x, x, t))
        else:
            raise Gap("%s: %s.%s(%s) on a %s" % (where(st), recv.id, meth, ty, v["ty"]))

    def stmt(self, st, ind):
        if isinstance(st, ast.Expr) and isinstance(st.value, ast.Constant) and isinstance(st.value.value, str):
            return False                                           # docstring / string statement: no effect
        if isinstance(st, ast.Pass):
            return False
        if isinstance(st, ast.Expr) and isinstance(st.value, ast.Call):
            self.comment(ind, st)
            c = st.value
            if isinstance(c.func, ast.Attribute) and c.func.attr in ("append", "add", "update") \
                    and self.attr_chain(c.func) and self.attr_chain(c.func)[0] != "self":
                self.inplace(st, ind, c)
                return False
            t, ty = self.expr(c)
            if ty == "newself":
                self.emit(ind, "self ← %s" % t)
                return False
            raise Gap("%s: result of %s is dropped" % (where(st), ast.unparse(c.func)))
        if isinstance(st, ast.Assign):
            self.comment(ind, st)
            if len(st.targets) != 1:
                raise Gap("%s: multiple assignment" % where(st))
            tg = st.targets[0]
            if isinstance(tg, ast.Name):
                t, ty = self.expr(st.value)
                if ty in ("newself", "grouplist", "cell"):
                    raise Gap("%s: assignment of a %s" % (where(st), ty))
                fresh = isinstance(st.value, ast.ListComp) or ty in ("list:?", "set:?")
                sure = is_list(ty) and self.sure_list(st.value)
                if not fresh:
                    self.escape(st.value)
                name = tg.id
                old = self.env.get(name)
                if old is not None and old["alive"]:
                    if old["loopvar"]:
                        raise Gap("%s: loop variable %s is assigned" % (where(st), name))
                    oty = old["ty"]
                    if oty == "arg" and ty == "gval":
                        t = "Arg.obj %s" % t
                    elif (is_list(oty) and is_list(ty)) or (is_set(oty) and is_set(ty)):
                        old["ty"] = oty.split(":")[0] + ":" + unify_elt(elt(oty), elt(ty), st)
                    elif oty != ty:
                        raise Gap("%s: %s changes kind from %s to %s" % (where(st), name, oty, ty))
                    if name in self.iterating:
                        raise Gap("%s: %s is rebound while it is iterated" % (where(st), name))
                    old["fresh"], old["escaped"] = fresh, False
                    # same block as the first binding: straight-line code, the new value is the value from here on;
                    # in a nested block: after the block either value may be there
                    old["surelist"] = sure if len(self.scopes) == old["depth"] else (old["surelist"] and sure)
                    self.emit(ind, "%s := %s" % (lname(name), t))
                else:
                    self.declare(name, ty, fresh=fresh, surelist=sure)
                    ann = " : List Nat" if (is_list(ty) or is_set(ty)) else ""
                    self.emit(ind, "let mut %s%s := %s" % (lname(name), ann, t))
                return False
            if isinstance(tg, ast.Attribute) and tg.attr in ("members", "includes") and isinstance(tg.value, ast.Name):
                b, bty = self.expr(tg.value)
                if bty != "gref":
                    raise Gap("%s: assignment to .%s of a %s" % (where(st), tg.attr, bty))
                t, ty = self.expr(st.value)
                want = "list:member" if tg.attr == "members" else "list:include"
                if not is_list(ty) or unify_elt(elt(ty), elt(want), st) != elt(want):
                    raise Gap("%s: .%s = a %s" % (where(st), tg.attr, ty))
                self.escape(st.value)
                self.emit(ind, "self := %s self %s %s" % ("setMembers" if tg.attr == "members" else "setIncludes", b,
                                                           t if t.isidentifier() else "(%s)" % t))
                return False
            raise Gap("%s: assignment target %s" % (where(st), ast.unparse(tg)))
        if isinstance(st, ast.If):
            st.test = self.canon_truth(st.test)
            self.comment(ind, st, head_only=True)
            c = self.cond(st.test, effects=False)
            self.emit(ind, "if %s then" % c)
            self.push()
            e1 = self.block(st.body, ind + 1)
            self.pop()
            e2 = False
            if st.orelse:
                self.emit(ind, "else")
                self.push()
                e2 = self.block(st.orelse, ind + 1)
                self.pop()
            return e1 and e2
        if isinstance(st, ast.For):
            self.comment(ind, st, head_only=True)
            if st.orelse or not isinstance(st.target, ast.Name):
                raise Gap("%s: for/else or tuple target" % where(st))
            it, ity = self.expr(st.iter)
            itname = st.iter.id if isinstance(st.iter, ast.Name) else None
            if ity == "grouplist":
                if self.refs:
                    it, vty = "List.range self.groups.length", "gref"
                else:
                    it, vty = "self.groups", "gval"
            elif is_list(ity) and elt(ity) != "?":
                vty = elt(ity)
            else:
                raise Gap("%s: iteration over a %s" % (where(st), ity))
            self.prescan_escapes(st.body)
            for n in ast.walk(st):             # T3: a name rebound in the loop body may hold either value on entry
                if isinstance(n, ast.Name) and isinstance(n.ctx, ast.Store) and n.id in self.env:
                    self.env[n.id]["surelist"] = False
            self.emit(ind, "for %s in %s do" % (lname(st.target.id), it))
            self.push()
            self.declare(st.target.id, vty, loopvar=True)
            if itname:
                self.iterating.append(itname)
            self.block(st.body, ind + 1)
            if itname:
                self.iterating.pop()
            self.pop()
            return False
        if isinstance(st, ast.Return):
            self.comment(ind, st)
            if st.value is None or (isinstance(st.value, ast.Constant) and st.value.value is None):
                if self.sig["ret"] != "none":
                    raise Gap("%s: bare return in a method that returns a %s" % (where(st), self.sig["ret"]))
                self.emit(ind, "return self")
                return True
            t, ty = self.expr(st.value)
            self.escape(st.value)
            want = self.sig["ret"]
            if want == "list:sid" and is_list(ty) and elt(ty) in ("sid", "?"):
                pass
            elif want != ty:
                raise Gap("%s: returns a %s, expected %s" % (where(st), ty, want))
            self.emit(ind, "return %s" % t)
            return True
        if isinstance(st, ast.Raise):
            e = st.exc
            if st.cause is not None or not (isinstance(e, ast.Call) and isinstance(e.func, ast.Name) and len(e.args) == 1
                                            and not e.keywords):
                raise Gap("%s: raise %s" % (where(st), ast.unparse(st)))
            # T1: the message may be spelled as a `+` chain, an f-string or a `%`-format whose specs are all `%s`.
            # Only (exception class, leading constant text) is modelled; the operands must be values whose formatting
            # cannot itself raise (group ids, `self.id`, `str(...)`), so that the statement certainly raises `e.func`.
            parts, m = [], e.args[0]
            if isinstance(m, ast.JoinedStr):
                for v in m.values:
                    if isinstance(v, ast.Constant) and isinstance(v.value, str):
                        parts.append(v)
                    elif isinstance(v, ast.FormattedValue) and v.format_spec is None and v.conversion in (-1, 115):
                        parts.append(ast.copy_location(ast.Call(ast.Name("str", ast.Load()), [v.value], []), v))
                    else:
                        raise Gap("%s: f-string part %s" % (where(st), ast.unparse(v)))
                if not parts or not isinstance(parts[0], ast.Constant):
                    parts.insert(0, ast.Constant(""))
            elif isinstance(m, ast.BinOp) and isinstance(m.op, ast.Mod) and isinstance(m.left, ast.Constant) \
                    and isinstance(m.left.value, str):
                fmt = m.left.value
                ops = list(m.right.elts) if isinstance(m.right, ast.Tuple) else [m.right]
                pieces = fmt.split("%s")
                if "%" in "".join(pieces) or len(pieces) - 1 != len(ops) or any(isinstance(o, ast.Starred) for o in ops):
                    raise Gap("%s: %%-format %r with %d operands" % (where(st), fmt, len(ops)))
                parts.append(ast.Constant(pieces[0]))
                for o, piece in zip(ops, pieces[1:]):
                    if isinstance(o, (ast.Tuple, ast.Dict)):
                        raise Gap("%s: %%-format operand %s" % (where(st), ast.unparse(o)))
                    parts.append(ast.copy_location(ast.Call(ast.Name("str", ast.Load()), [o], []), st))
                    parts.append(ast.Constant(piece))
            else:
                while isinstance(m, ast.BinOp) and isinstance(m.op, ast.Add):
                    parts.append(m.right)
                    m = m.left
                parts.append(m)
                parts.reverse()
            lead0 = parts[0].value if isinstance(parts[0], ast.Constant) and isinstance(parts[0].value, str) else None
            # the comment shows what the translation depends on (class and leading text), whatever the spelling
            self.emit(ind, "-- raise %s(%r + ...)" % (e.func.id, lead0))
            for p in parts[1:]:        # the operands are evaluated: they must be strings, or the raise raises TypeError
                if isinstance(p, ast.Constant) and isinstance(p.value, str):
                    continue
                if isinstance(p, ast.Call) and isinstance(p.func, ast.Name) and p.func.id == "str" and len(p.args) == 1 \
                        and not p.keywords:
                    q = p.args[0]      # str(x): x must be a value the translator knows (str() of it cannot raise)
                    if self.attr_chain(q) == ["self", "id"] or \
                            (isinstance(q, ast.Name) and self.var(q.id, st)["ty"] in ("arg", "gid")):
                        continue
                    raise Gap("%s: operand %s of the exception message" % (where(st), ast.unparse(p)))
                if self.attr_chain(p) == ["self", "id"]:
                    self.assumptions.add("Cell.id is a str (it is concatenated into the exception message)")
                    continue
                if isinstance(p, ast.Name) and self.var(p.id, st)["ty"] in ("arg", "gid"):
                    continue           # a group id (str); an `arg` is only concatenated under isinstance(_, str)
                raise Gap("%s: operand %s of the exception message" % (where(st), ast.unparse(p)))
            lead = parts[0].value if isinstance(parts[0], ast.Constant) and isinstance(parts[0].value, str) else None
            err = RAISES.get((e.func.id, lead))
            if err is None:
                raise Gap("%s: raise %s(%r ...) is not in the table of modelled errors" % (where(st), e.func.id, lead))
            self.emit(ind, "throw %s" % err)
            return True
        raise Gap("%s: statement %s" % (where(st), type(st).__name__))

    # ------------------------------------------------------------ whole method
    def translate(self):
        fn = self.node
        a = fn.args
        if a.vararg or a.kwarg or a.kwonlyargs or a.posonlyargs or fn.decorator_list:
            raise Gap("signature / decorators of %s" % self.name)
        names = [x.arg for x in a.args]
        want = ["self"] + [p for p, _ in self.sig["params"]]
        if names != want:
            raise Gap("parameters of %s are %s, expected %s" % (self.name, names, want))
        for x, (pn, pt) in zip(a.args[1:], self.sig["params"]):
            if x.annotation is not None and ast.unparse(x.annotation) not in ANNOT_OK.get(pt, set()):
                raise Gap("annotation of %s.%s is %s" % (self.name, pn, ast.unparse(x.annotation)))
        if fn.returns is not None and ast.unparse(fn.returns) not in RET_ANNOT_OK[self.sig["ret"]]:
            raise Gap("return annotation of %s is %s" % (self.name, ast.unparse(fn.returns)))
        self.uses_key = False
        assigned = {t.id for n in ast.walk(fn) if isinstance(n, ast.Assign) for t in n.targets if isinstance(t, ast.Name)}
        for pn, pt in self.sig["params"]:
            self.declare(pn, pt)
        pre = []
        if self.mutating:
            pre.append("let mut self := self")
        for pn, pt in self.sig["params"]:
            if pn in assigned:
                pre.append("let mut %s := %s" % (lname(pn), lname(pn)))
        for l in pre:
            self.emit(1, l)
        ended = self.block(list(fn.body), 1)
        if not ended:
            if self.sig["ret"] != "none":
                raise Gap("%s can fall off its end (returns None)" % self.name)
            self.emit(1, "return self")
        params = "".join(" (%s : %s)" % (lname(pn), LEAN_TY[pt]) for pn, pt in self.sig["params"])
        ret = "Except Err (%s)" % LEAN_RET[self.sig["ret"]] if " " in LEAN_RET[self.sig["ret"]] else "Except Err " + LEAN_RET[self.sig["ret"]]
        if self.recursive:
            head = "def %s_body (rec_ : Cell → Arg → Bool → Except Err (List Nat))\n    (self : Cell)%s : %s := do" % (
                self.name, params, ret)
        else:
            pk = " (key : Nat → Nat)" if self.facts["uses_key"][self.name] else ""
            pf = " (fuel : Nat)" if self.facts["uses_fuel"][self.name] else ""
            head = "def %s%s%s (self : Cell)%s : %s := do" % (self.name, pk, pf, params, ret)
        text = "/-- `%s.%s` -/\n%s\n%s\n" % (CLASS, self.name, head, "\n".join(self.lines))
        if self.recursive:
            if self.sig["params"] != SIGS["get_all_segments_in_group"]["params"]:
                raise Gap("recursive method %s: no knot-tying rule" % self.name)
            text += ("\n/-- the recursion of `%s.%s`, `fuel` levels deep (`RecursionError` beyond) -/\n"
                     "def %s : Nat → Cell → Arg → Bool → Except Err (List Nat)\n"
                     "  | 0 => fun _ _ _ => .error Err.outOfFuel\n"
                     "  | fuel+1 => %s_body (%s fuel)\n" % (CLASS, self.name, self.name, self.name, self.name))
        return text


# ------------------------------------------------------------------ normalisation of equivalent surface shapes
#
# Runs on a deep copy of each method's AST BEFORE translation and maps equivalent spellings of the same statement to
# ONE canonical spelling, so that a behaviour-preserving refactoring of the source gives byte-for-byte the same
# `Gen/Groups.lean` (comments included: they are unparsed from the canonical AST) and no proof has to change.
# Every rule is an equivalence for ALL inputs (the reason is given at the rule); what no rule recognises is left as it
# is and the translator decides (it refuses what it does not know).  Nothing is ever dropped or guessed.
#
#   N1  `not (a in b)` -> `a not in b`,  `not (a not in b)` -> `a in b`   (language definition of `not in`)
#   N2  `a != b` -> `not a == b`   (str/int: `!=` is the negation of `==`; the translator accepts `==` only between
#       two ids of the same kind or a group id and the `segment_group` argument, and for the latter
#       `GeneratedsSuper.__ne__` is checked to be `not self.__eq__(other)`, see `env_checks(uses_ne=True)`)
#   N3  `list()` -> `[]`;  `x.extend([e])` / `x += [e]` -> `x.append(e)`   (`list.__iadd__` and `extend` append in
#       place; on anything that is not a list the translator refuses the `append`; the builtins are checked not to be
#       rebound, module level by `env_checks`, locally by N8)
#   N4  `if c: A(always returns/raises) else: B` -> `if c: A` followed by `B`; `elif` is the same thing
#   N5  in a `for` body: `if c: continue` followed by REST -> `if not c: REST`   (REST is the rest of the loop body)
#   N6  `X = []` followed by `for v in L: if C: X.append(v)` (X occurs neither in L nor in C) -> `X = [v for v in L if C]`
#       (same elements in the same order; C has no effect: the translator refuses effects inside conditions; the only
#       difference, `v` staying bound after the loop, is unobservable because the translator refuses any use of a
#       loop variable after its loop)
#   N7  a local that is bound exactly once, to `<loop variable>.segments` / `.segment_groups` / `.id`, and only used
#       later in the same block, is replaced by that expression   (a plain attribute read: no effect, cannot raise on
#       the values the translator types it for, `env_checks` refuses properties/`__getattr__`; the loop variable is
#       bound once and the translator refuses every store to these attributes, so each read gives the same object)
#   N9  `for v in self.<translated method>(...):` -> `t = self.<method>(...)` followed by `for v in t:`   (the iterable
#       of a `for` is evaluated once, before the loop; `t` is a new name, checked not to occur in the method)
#   N10 a `return` / `return None` in tail position of the method (after it, falling off the end follows anyway)
#       is removed   (both return `None`)
#   N8  alpha renaming.  First every binder (local, loop/comprehension variable, lambda parameter; scoping as the
#       translator has it: a name first bound in a block is dead after it, a loop variable must not shadow a live
#       local) gets a unique name, so that N7 can count binding sites per binder; at the end binder k gets the name
#       today's source uses for its k-th binder (`CANON_NAMES`) when the number of binders is the same and the
#       renamed method resolves every name to the same binder as before (checked: no capture); otherwise the
#       method's own names are restored (same check).  Lean is indifferent to bound names, so this only keeps the
#       generated text identical.
#   (docstrings, comments, blank lines, parenthesisation and string quotes do not reach the AST; the equivalent
#    spellings of the exception message, of the parameter annotations and of `if l:` for `if len(l) > 0:` need the
#    translator's types and are handled inside `Fn`: rules T1-T3 there.)

CANON_NAMES = {
    "get_all_segments_in_group": ["sg", "seg", "all_segs", "member", "include", "segs_here", "s"],
    "get_segment_group": ["sg"],
    "optimise_segment_group": ["seg_group", "members", "new_members", "seen_segments", "i", "includes", "new_includes",
                               "seen_groups", "i", "x", "included_segment_ids", "inc", "i", "x"],
    "optimise_segment_groups": ["seg_group"],
}
GLOBAL_NAMES = {"self", "isinstance", "str", "set", "list", "len", "natsort", "Exception", "ValueError"}
PURE_ATTRS = ("segments", "segment_groups", "id")


def _names(node):
    return {n.id for n in ast.walk(node) if isinstance(n, ast.Name)}


def _always_ends(stmts):
    if not stmts:
        return False
    last = stmts[-1]
    if isinstance(last, (ast.Return, ast.Raise)):
        return True
    if isinstance(last, ast.If):
        return _always_ends(last.body) and _always_ends(last.orelse)
    return False


class _ExprNorm(ast.NodeTransformer):
    """N1, N2, N3 (expression part)"""

    def __init__(self):
        self.uses_ne = False

    def visit_UnaryOp(self, node):
        self.generic_visit(node)
        if isinstance(node.op, ast.Not) and isinstance(node.operand, ast.Compare) and len(node.operand.ops) == 1:
            c = node.operand
            if isinstance(c.ops[0], ast.In):
                return ast.copy_location(ast.Compare(c.left, [ast.NotIn()], c.comparators), node)
            if isinstance(c.ops[0], ast.NotIn):
                return ast.copy_location(ast.Compare(c.left, [ast.In()], c.comparators), node)
        if isinstance(node.op, ast.Not) and isinstance(node.operand, ast.UnaryOp) and isinstance(node.operand.op, ast.Not) \
                and isinstance(node.operand.operand, ast.Compare):
            return node.operand.operand                      # not not (comparison): a comparison already is a bool
        return node

    def visit_Compare(self, node):
        self.generic_visit(node)
        if len(node.ops) == 1 and isinstance(node.ops[0], ast.NotEq):
            self.uses_ne = True
            eq = ast.copy_location(ast.Compare(node.left, [ast.Eq()], node.comparators), node)
            return ast.copy_location(ast.UnaryOp(ast.Not(), eq), node)
        return node

    def visit_Call(self, node):
        self.generic_visit(node)
        if isinstance(node.func, ast.Name) and node.func.id == "list" and not node.args and not node.keywords:
            return ast.copy_location(ast.List([], ast.Load()), node)
        if isinstance(node.func, ast.Attribute) and node.func.attr == "extend" and len(node.args) == 1 \
                and not node.keywords and isinstance(node.args[0], ast.List) and len(node.args[0].elts) == 1 \
                and not isinstance(node.args[0].elts[0], ast.Starred):
            f = ast.copy_location(ast.Attribute(node.func.value, "append", ast.Load()), node.func)
            return ast.copy_location(ast.Call(f, [node.args[0].elts[0]], []), node)
        return node


def _norm_block(stmts, in_loop):
    """N3 (statement part), N4, N5, N6 on one statement list; `in_loop`: the list is the whole body of a `for`"""
    out = []
    k = 0
    stmts = list(stmts)
    while k < len(stmts):
        st = stmts[k]
        rest = stmts[k + 1:]
        # N3: x += [e]  ->  x.append(e)
        if isinstance(st, ast.AugAssign) and isinstance(st.op, ast.Add) and isinstance(st.target, ast.Name) \
                and isinstance(st.value, ast.List) and len(st.value.elts) == 1 \
                and not isinstance(st.value.elts[0], ast.Starred):
            f = ast.copy_location(ast.Attribute(ast.copy_location(ast.Name(st.target.id, ast.Load()), st), "append", ast.Load()), st)
            st = ast.copy_location(ast.Expr(ast.copy_location(ast.Call(f, [st.value.elts[0]], []), st)), st)
        if isinstance(st, ast.If):
            # N5: guard clause with `continue` (only where REST is the rest of the loop body)
            if in_loop and len(st.body) == 1 and isinstance(st.body[0], ast.Continue) and not st.orelse and rest:
                neg = _ExprNorm().visit(ast.copy_location(ast.UnaryOp(ast.Not(), st.test), st.test))
                new = ast.copy_location(ast.If(neg, _norm_block(rest, True), []), st)
                out.append(new)
                return out
            st.body = _norm_block(st.body, False)
            st.orelse = _norm_block(st.orelse, False)
            # N4: no `else` after a branch that always returns/raises
            if st.orelse and _always_ends(st.body):
                tail = st.orelse
                st.orelse = []
                out.append(st)
                stmts = stmts[:k + 1] + tail + rest
                k += 1
                continue
        elif isinstance(st, ast.For):
            st.body = _norm_block(st.body, True)
            # N9: for v in self.<method>(...):  ->  t = self.<method>(...) ; for v in t:
            if isinstance(st.iter, ast.Call) and isinstance(st.iter.func, ast.Attribute) \
                    and isinstance(st.iter.func.value, ast.Name) and st.iter.func.value.id == "self" \
                    and st.iter.func.attr in TARGETS:
                _norm_block.fresh = getattr(_norm_block, "fresh", 0) + 1
                t = "iterated_%d_" % _norm_block.fresh
                out.append(ast.copy_location(ast.Assign([ast.copy_location(ast.Name(t, ast.Store()), st)], st.iter), st))
                st.iter = ast.copy_location(ast.Name(t, ast.Load()), st)
            # N6: X = [] ; for v in L: if C: X.append(v)   ->   X = [v for v in L if C]
            prev = out[-1] if out else None
            if prev is not None and isinstance(prev, ast.Assign) and len(prev.targets) == 1 \
                    and isinstance(prev.targets[0], ast.Name) and isinstance(prev.value, ast.List) and not prev.value.elts \
                    and isinstance(st.target, ast.Name) and not st.orelse and len(st.body) == 1 \
                    and isinstance(st.body[0], ast.If) and not st.body[0].orelse and len(st.body[0].body) == 1:
                x, v, inner = prev.targets[0].id, st.target.id, st.body[0].body[0]
                if isinstance(inner, ast.Expr) and isinstance(inner.value, ast.Call) and not inner.value.keywords \
                        and isinstance(inner.value.func, ast.Attribute) and inner.value.func.attr == "append" \
                        and isinstance(inner.value.func.value, ast.Name) and inner.value.func.value.id == x \
                        and len(inner.value.args) == 1 and isinstance(inner.value.args[0], ast.Name) \
                        and inner.value.args[0].id == v and x != v \
                        and x not in _names(st.iter) and x not in _names(st.body[0].test):
                    comp = ast.copy_location(ast.ListComp(
                        ast.copy_location(ast.Name(v, ast.Load()), st),
                        [ast.comprehension(ast.copy_location(ast.Name(v, ast.Store()), st), st.iter, [st.body[0].test], 0)]), st)
                    prev.value = comp
                    k += 1
                    continue
        out.append(st)
        k += 1
    return out


def _inline_projections(fn):
    """N7"""
    changed = True
    while changed:
        changed = False
        bound = {}                                   # name -> number of binding sites
        for n in ast.walk(fn):
            if isinstance(n, ast.Name) and isinstance(n.ctx, (ast.Store, ast.Del)):
                bound[n.id] = bound.get(n.id, 0) + 1
            elif isinstance(n, ast.arg):
                bound[n.arg] = bound.get(n.arg, 0) + 1
        loopvars = {n.target.id for n in ast.walk(fn) if isinstance(n, ast.For) and isinstance(n.target, ast.Name)}
        for loop in [n for n in ast.walk(fn) if isinstance(n, ast.For)]:
            blocks = [loop.body] + [b for n in ast.walk(loop) if isinstance(n, ast.If) for b in (n.body, n.orelse)]
            for blk in blocks:
                for k, st in enumerate(blk):
                    if not (isinstance(st, ast.Assign) and len(st.targets) == 1 and isinstance(st.targets[0], ast.Name)
                            and isinstance(st.value, ast.Attribute) and st.value.attr in PURE_ATTRS
                            and isinstance(st.value.value, ast.Name)):
                        continue
                    v, b = st.targets[0].id, st.value.value.id
                    if bound.get(v) != 1 or bound.get(b) != 1 or b not in loopvars or v == b:
                        continue
                    if not (isinstance(loop.target, ast.Name) and loop.target.id == b):
                        continue                     # the binding must be inside the loop that binds `b`
                    uses_all = [n for n in ast.walk(fn) if isinstance(n, ast.Name) and n.id == v and n is not st.targets[0]]
                    later = [n for s2 in blk[k + 1:] for n in ast.walk(s2) if isinstance(n, ast.Name) and n.id == v]
                    if len(uses_all) != len(later) or not later:
                        continue

                    class Sub(ast.NodeTransformer):
                        def visit_Name(self, node):
                            if node.id == v and isinstance(node.ctx, ast.Load):
                                return ast.copy_location(ast.Attribute(
                                    ast.copy_location(ast.Name(b, ast.Load()), node), st.value.attr, ast.Load()), node)
                            return node
                    new = [Sub().visit(s2) for s2 in blk[k + 1:]]
                    blk[k:] = new
                    changed = True
                    break
                if changed:
                    break
            if changed:
                break


class _Resolver:
    """resolve every name of a method to its binder, with the translator's block scoping; see N8"""

    def __init__(self, fn, params):
        self.binders = []                  # original names, in order of binding
        self.sites = []                    # (node, field, binder index): every occurrence that carries a binder's name
        self.free = set()
        self.scopes = [{}]
        self.params = set(params)
        self.problem = None
        self.block(fn.body, push=False)

    def lookup(self, name):
        for sc in reversed(self.scopes):
            if name in sc:
                return sc[name]
        return None

    def bind(self, name, node, field, always_new):
        if name in self.params or name in GLOBAL_NAMES:
            if always_new or name in GLOBAL_NAMES:
                self.problem = "line %s: %s is rebound" % (getattr(node, "lineno", "?"), name)
            return
        b = None if always_new else self.lookup(name)
        if always_new == "loop" and self.lookup(name) is not None:
            self.problem = "line %s: loop variable %s is already a live local" % (getattr(node, "lineno", "?"), name)
        if b is None:
            b = len(self.binders)
            self.binders.append(name)
            self.scopes[-1][name] = b
        self.sites.append((node, field, b))

    def block(self, stmts, push=True):
        if push:
            self.scopes.append({})
        for st in stmts:
            self.stmt(st)
        if push:
            self.scopes.pop()

    def stmt(self, st):
        if isinstance(st, ast.Assign):
            self.expr(st.value)
            for t in st.targets:
                self.target(t)
        elif isinstance(st, ast.AugAssign):
            self.expr(st.value)
            self.target(st.target)
        elif isinstance(st, ast.For):
            self.expr(st.iter)
            self.scopes.append({})
            if isinstance(st.target, ast.Name):
                self.bind(st.target.id, st.target, "id", "loop")
            else:
                self.problem = "line %s: loop target" % getattr(st, "lineno", "?")
            for s2 in st.body:
                self.stmt(s2)
            self.scopes.pop()
            self.block(st.orelse)
        elif isinstance(st, ast.If):
            self.expr(st.test)
            self.block(st.body)
            self.block(st.orelse)
        elif isinstance(st, (ast.Return, ast.Expr)):
            if st.value is not None:
                self.expr(st.value)
        elif isinstance(st, ast.Raise):
            for e in (st.exc, st.cause):
                if e is not None:
                    self.expr(e)
        elif isinstance(st, (ast.Pass, ast.Continue, ast.Break)):
            pass
        else:
            self.problem = "line %s: statement %s" % (getattr(st, "lineno", "?"), type(st).__name__)

    def target(self, t):
        if isinstance(t, ast.Name):
            self.bind(t.id, t, "id", False)
        elif isinstance(t, (ast.Attribute, ast.Subscript)):
            for ch in ast.iter_child_nodes(t):
                if not isinstance(ch, ast.expr_context):
                    self.expr(ch)
        else:
            self.problem = "line %s: assignment target" % getattr(t, "lineno", "?")

    def expr(self, e):
        if isinstance(e, ast.Name):
            b = self.lookup(e.id)
            if b is not None:
                self.sites.append((e, "id", b))
            elif e.id not in self.params:
                self.free.add(e.id)
        elif isinstance(e, ast.Lambda):
            a = e.args
            if a.vararg or a.kwarg or a.kwonlyargs or a.posonlyargs or a.defaults:
                self.problem = "line %s: lambda signature" % getattr(e, "lineno", "?")
            self.scopes.append({})
            for x in a.args:
                self.bind(x.arg, x, "arg", True)
            self.expr(e.body)
            self.scopes.pop()
        elif isinstance(e, (ast.ListComp, ast.SetComp, ast.GeneratorExp, ast.DictComp)):
            depth = 0
            for g in e.generators:
                self.expr(g.iter)
                self.scopes.append({})
                depth += 1
                if isinstance(g.target, ast.Name):
                    self.bind(g.target.id, g.target, "id", True)
                else:
                    self.problem = "line %s: comprehension target" % getattr(e, "lineno", "?")
                for c in g.ifs:
                    self.expr(c)
            for part in ((e.key, e.value) if isinstance(e, ast.DictComp) else (e.elt,)):
                self.expr(part)
            for _ in range(depth):
                self.scopes.pop()
        elif isinstance(e, ast.NamedExpr):
            self.problem = "line %s: assignment expression" % getattr(e, "lineno", "?")
        else:
            for ch in ast.iter_child_nodes(e):
                if isinstance(ch, (ast.expr, ast.keyword, ast.comprehension)) or isinstance(ch, ast.AST) and not isinstance(
                        ch, (ast.expr_context, ast.operator, ast.unaryop, ast.boolop, ast.cmpop)):
                    if isinstance(ch, ast.keyword):
                        self.expr(ch.value)
                    elif isinstance(ch, ast.expr):
                        self.expr(ch)
                    else:
                        self.problem = "line %s: expression part %s" % (getattr(e, "lineno", "?"), type(ch).__name__)


def _rename(fn, params, names):
    """give binder k the name names[k] everywhere; undone (returns False) unless every name still resolves to the
    same binder as before, i.e. nothing is captured"""
    r = _Resolver(fn, params)
    if r.problem or len(names) != len(r.binders):
        return False
    if set(names) & (r.free | set(params) | GLOBAL_NAMES):
        return False
    before = [(id(n), b) for n, _, b in r.sites]
    old = [(n, f, getattr(n, f)) for n, f, _ in r.sites]
    for n, f, b in r.sites:
        setattr(n, f, names[b])
    r2 = _Resolver(fn, params)
    if r2.problem or r2.binders != list(names) or [(id(n), b) for n, _, b in r2.sites] != before or r2.free != r.free:
        for n, f, v in old:
            setattr(n, f, v)
        return False
    return True


def _strip_tail_returns(stmts):
    """N10: `return` / `return None` where falling off the end of the method follows anyway"""
    while stmts and isinstance(stmts[-1], ast.Return) and (
            stmts[-1].value is None or (isinstance(stmts[-1].value, ast.Constant) and stmts[-1].value.value is None)):
        stmts.pop()
    if stmts and isinstance(stmts[-1], ast.If):
        _strip_tail_returns(stmts[-1].body)
        _strip_tail_returns(stmts[-1].orelse)
        if not stmts[-1].body:
            stmts[-1].body.append(ast.copy_location(ast.Pass(), stmts[-1]))


def normalise(name, fn, params):
    """-> (normalised deep copy of the method, uses `!=`, note)"""
    import copy
    fn = copy.deepcopy(fn)
    en = _ExprNorm()
    fn = en.visit(fn)
    _norm_block.fresh = 0
    used = _names(fn) | {a.arg for a in ast.walk(fn) if isinstance(a, ast.arg)}
    if any(n.startswith("iterated_") or "__b" in n for n in used):
        raise Gap("a name with `iterated_` / `__b` is used (reserved for the normaliser)")
    fn.body = _norm_block(fn.body, False)
    _strip_tail_returns(fn.body)
    # N8, first half: one name per binder, so that the rules below can count binding sites per binder
    r = _Resolver(fn, params)
    if r.problem:
        raise Gap(r.problem)
    unique = ["%s__b%d" % (b, k) for k, b in enumerate(r.binders)]
    if not _rename(fn, params, unique):
        raise Gap("binders could not be given unique names")
    _inline_projections(fn)
    # N8, second half: today's names; failing that the method's own names; failing that the unique ones
    left = _Resolver(fn, params).binders
    canon = CANON_NAMES.get(name, [])
    note = None
    if not _rename(fn, params, canon):
        own = [u.rsplit("__b", 1)[0] for u in left]
        note = "%d binders, today's source has %d (or a capture): the method's own names are kept" % (len(left), len(canon))
        if not _rename(fn, params, own):
            note += " (made unique)"
    ast.fix_missing_locations(fn)
    return fn, en.uses_ne, note


# ------------------------------------------------------------------ whole-program facts
def method_facts(funcs):
    """which methods assign to a group / call whom / use the sort key / need fuel; parameter defaults"""
    calls, stores, nats, defaults = {}, {}, {}, {}
    for name, fn in funcs.items():
        calls[name] = set()
        stores[name] = False
        nats[name] = False
        for n in ast.walk(fn):
            if isinstance(n, ast.Call) and isinstance(n.func, ast.Attribute):
                if isinstance(n.func.value, ast.Name) and n.func.value.id == "self" and n.func.attr in TARGETS:
                    calls[name].add(n.func.attr)
                if n.func.attr == "natsorted":
                    for k in n.keywords:
                        if k.arg == "key" and isinstance(k.value, ast.Lambda) and isinstance(k.value.body, ast.Attribute) \
                                and k.value.body.attr == "segment_groups":
                            nats[name] = True
            if isinstance(n, (ast.Assign, ast.AugAssign, ast.AnnAssign)):
                tgs = n.targets if isinstance(n, ast.Assign) else [n.target]
                for t in tgs:
                    if isinstance(t, (ast.Attribute, ast.Subscript)):
                        stores[name] = True
            if isinstance(n, ast.Delete):
                stores[name] = True
        d = {}
        a = fn.args
        for x, dv in zip(a.args[len(a.args) - len(a.defaults):], a.defaults):
            if isinstance(dv, ast.Constant) and dv.value is True:
                d[x.arg] = "true"
            elif isinstance(dv, ast.Constant) and dv.value is False:
                d[x.arg] = "false"
            else:
                d[x.arg] = None
        defaults[name] = d

    def closure(seed):
        out = dict(seed)
        changed = True
        while changed:
            changed = False
            for n in funcs:
                if not out[n] and any(out.get(m) for m in calls[n] if m in funcs):
                    out[n] = True
                    changed = True
        return out
    recursive = {n: n in calls[n] for n in funcs}
    for n in funcs:           # mutual recursion is not handled
        for m in calls[n]:
            if m != n and m in funcs and n in reach(calls, m):
                raise Gap("mutual recursion between %s and %s" % (n, m))
    mutating = closure(stores)
    uses_key = closure(nats)
    calls_rec = {n: any(recursive.get(m) for m in calls[n] if m != n) for n in funcs}
    uses_fuel = closure(calls_rec)
    return {"mutating": mutating, "recursive": recursive, "uses_key": uses_key, "uses_fuel": uses_fuel,
            "defaults": defaults, "calls": calls}


def reach(calls, start):
    seen, todo = set(), [start]
    while todo:
        x = todo.pop()
        for y in calls.get(x, ()):
            if y not in seen:
                seen.add(y)
                todo.append(y)
    return seen


# ------------------------------------------------------------------ source extraction
def find_in_nml(tree):
    out = {}
    for node in tree.body:
        if isinstance(node, ast.ClassDef) and node.name == CLASS:
            for it in node.body:
                if isinstance(it, ast.FunctionDef) and it.name in TARGETS:
                    out.setdefault(it.name, []).append(it)
    return out


def find_in_helpers(tree):
    """MethodSpec(name=, source='''...''', class_names=...) calls; the source is class-body text"""
    out, problems = {}, []
    for node in ast.walk(tree):
        if not (isinstance(node, ast.Call) and isinstance(node.func, ast.Name) and node.func.id == "MethodSpec"):
            continue
        kw = {k.arg: k.value for k in node.keywords}
        src, cn = kw.get("source"), kw.get("class_names")
        if not (isinstance(src, ast.Constant) and isinstance(src.value, str)):
            continue
        classes = []
        if isinstance(cn, ast.Constant) and isinstance(cn.value, str):
            classes = [cn.value]
        elif isinstance(cn, (ast.List, ast.Tuple)):
            classes = [e.value for e in cn.elts if isinstance(e, ast.Constant)]
        if CLASS not in classes:
            continue
        try:
            sub = ast.parse("class __Spec__:\n" + src.value + "\n    pass\n")
        except SyntaxError as e:
            problems.append("helper_methods.py: MethodSpec for %s does not parse: %s" % (classes, e))
            continue
        for it in sub.body[0].body:
            if isinstance(it, ast.FunctionDef) and it.name in TARGETS:
                out.setdefault(it.name, []).append(it)
    return out, problems


def env_checks(tree, uses_ne=False):
    """facts about the rest of nml.py that the translation rules rely on"""
    gaps = []
    has_natsort = False
    for node in tree.body:
        if isinstance(node, ast.Import):
            for al in node.names:
                if al.name == "natsort" and al.asname in (None, "natsort"):
                    has_natsort = True
        elif isinstance(node, (ast.FunctionDef, ast.ClassDef)) and node.name in ("natsort", "isinstance", "len", "list", "set", "str"):
            gaps.append("nml.py: module-level name %s is rebound" % node.name)
        elif isinstance(node, ast.Assign):
            for t in node.targets:
                if isinstance(t, ast.Name) and t.id in ("natsort", "isinstance", "len", "list", "set", "str"):
                    gaps.append("nml.py: module-level name %s is rebound" % t.id)
    if not has_natsort:
        gaps.append("nml.py: `import natsort` not found at module level")
    classes = {n.name: n for n in tree.body if isinstance(n, ast.ClassDef)}
    # `sg.id == segment_group` with a SegmentGroup on the right is False: GeneratedsSuper.__eq__ compares types first
    sup = None
    for n in ast.walk(tree):
        if isinstance(n, ast.ClassDef) and n.name == "GeneratedsSuper":
            sup = n
            break
    ok = False
    if sup is not None:
        for it in sup.body:
            if isinstance(it, ast.FunctionDef) and it.name == "__eq__":
                for st in it.body:
                    if isinstance(st, ast.If) and ast.unparse(st.test) == "type(self) != type(other)" \
                            and len(st.body) == 1 and ast.unparse(st.body[0]) == "return False":
                        ok = True
                    elif isinstance(st, (ast.Return, ast.For, ast.While)):
                        break
    if uses_ne:      # rule N2: `a != b` was read as `not a == b`
        ne_ok = False
        if sup is not None:
            for it in sup.body:
                if isinstance(it, ast.FunctionDef) and it.name == "__ne__" and len(it.body) == 1 \
                        and ast.unparse(it.body[0]) == "return not self.__eq__(other)":
                    ne_ok = True
        if not ne_ok:
            gaps.append("nml.py: GeneratedsSuper.__ne__ is not `return not self.__eq__(other)` (a `!=` in a translated "
                        "method cannot be read as `not ==`)")
    if not ok:
        gaps.append("nml.py: GeneratedsSuper.__eq__ does not start with `if type(self) != type(other): return False` "
                    "(the rule for `sg.id == segment_group` no longer applies)")
    for cname in ("SegmentGroup", "Base", "BaseWithoutId", "Member", "Include", "Cell", "Morphology"):
        c = classes.get(cname)
        if c is None:
            gaps.append("nml.py: class %s not found" % cname)
            continue
        for it in c.body:
            if isinstance(it, ast.FunctionDef) and it.name in ("__eq__", "__ne__", "__hash__", "__getattr__", "__getattribute__",
                                                               "__setattr__", "__iter__", "__contains__", "__bool__", "__len__"):
                gaps.append("nml.py: class %s defines %s" % (cname, it.name))
            if isinstance(it, ast.FunctionDef) and it.name in ("segments", "segment_groups", "members", "includes", "id", "morphology") \
                    and cname in ("SegmentGroup", "Member", "Include", "Cell", "Morphology"):
                gaps.append("nml.py: %s.%s is a method/property, not a plain attribute" % (cname, it.name))
    return gaps


HEADER = """\
/-
GENERATED by translators/groups_extract.py from neuroml/nml/nml.py and neuroml/nml/helper_methods.py
(both files gave this same text). Regenerated on every `bin/check C14`; do not edit.
Each Lean statement is the translation of the Python statement quoted in the comment above it.
-/
import NmlVerif.Model.Groups
set_option linter.unusedVariables false

namespace NmlVerif.Gen.Groups
open NmlVerif.Groups

"""
FOOTER = "end NmlVerif.Gen.Groups\n"
ORDER = ["get_all_segments_in_group", "get_segment_group", "optimise_segment_group", "optimise_segment_groups"]


def translate_funcs(label, funcs):
    """{name: text}, gaps, assumptions for one source file"""
    gaps, texts, assumptions = [], {}, set()
    for n in TARGETS:
        if len(funcs.get(n, [])) != 1:
            gaps.append("%s: %d definitions of %s.%s (expected 1)" % (label, len(funcs.get(n, [])), CLASS, n))
    if gaps:
        return texts, gaps, assumptions
    single, uses_ne = {}, False
    for n in TARGETS:
        try:
            single[n], ne, note = normalise(n, funcs[n][0], [pn for pn, _ in SIGS[n]["params"]])
            uses_ne = uses_ne or ne
            if note:
                assumptions.add("note: %s.%s: %s" % (CLASS, n, note))
        except Gap as g:
            gaps.append("%s: %s.%s: %s" % (label, CLASS, n, g))
    if gaps:
        return texts, gaps, assumptions
    translate_funcs.uses_ne = getattr(translate_funcs, "uses_ne", False) or uses_ne
    try:
        facts = method_facts(single)
    except Gap as g:
        return texts, ["%s: %s" % (label, g)], assumptions
    for n in ORDER:
        try:
            f = Fn(n, single[n], facts)
            texts[n] = f.translate()
            assumptions |= f.assumptions
        except Gap as g:
            gaps.append("%s: %s.%s: %s" % (label, CLASS, n, g))
        except RecursionError:
            gaps.append("%s: %s.%s: expression too deep" % (label, CLASS, n))
    return texts, gaps, assumptions


def translate_repo(repo):
    """returns (lean_text, gaps, assumptions)"""
    hp = os.path.join(repo, "neuroml", "nml", "helper_methods.py")
    np_ = os.path.join(repo, "neuroml", "nml", "nml.py")
    with open(hp, encoding="utf-8") as fh:
        htree = ast.parse(fh.read())
    with open(np_, encoding="utf-8") as fh:
        ntree = ast.parse(fh.read())
    hfun, problems = find_in_helpers(htree)
    nfun = find_in_nml(ntree)
    translate_funcs.uses_ne = False
    ntext, g1, a1 = translate_funcs("nml.py", nfun)
    htext, g2, a2 = translate_funcs("helper_methods.py", hfun)
    gaps = env_checks(ntree, uses_ne=translate_funcs.uses_ne)
    gaps += problems
    gaps += g1 + g2
    chunks = []
    for n in ORDER:
        if n in ntext and n in htext and ntext[n] != htext[n]:
            gaps.append("%s.%s: helper_methods.py and nml.py translate differently" % (CLASS, n))
        if n in ntext:
            chunks.append(ntext[n])
        elif n in htext:
            chunks.append(htext[n])
    return HEADER + "\n".join(chunks) + "\n" + FOOTER, gaps, sorted(a1 | a2)


def regenerate(repo, out_path):
    text, gaps, assumptions = translate_repo(repo)
    old = None
    if os.path.exists(out_path):
        with open(out_path, encoding="utf-8") as fh:
            old = fh.read()
    if old != text:
        os.makedirs(os.path.dirname(out_path), exist_ok=True)
        tmp = out_path + ".tmp%d" % os.getpid()
        with open(tmp, "w", encoding="utf-8") as fh:
            fh.write(text)
        os.replace(tmp, out_path)
    regenerate.assumptions = assumptions
    return gaps


if __name__ == "__main__":
    repo = sys.argv[1] if len(sys.argv) > 1 else os.environ.get("VERIF_REPO", "/repo")
    here = os.path.dirname(os.path.dirname(os.path.abspath(__file__)))
    out = sys.argv[2] if len(sys.argv) > 2 else os.path.join(here, "lean", "NmlVerif", "Gen", "Groups.lean")
    gs = regenerate(repo, out)
    for g in gs:
        print("GAP:", g)
    print("wrote", out, "gaps:", len(gs))
