"""groups_extract — translate the four segment-group methods of `Cell` into Lean, statement by statement.

Reads (with Python's `ast`; nothing is imported or executed) from the CURRENT working tree of the repository

    neuroml/nml/nml.py              class Cell
    neuroml/nml/helper_methods.py   the same methods inside the `MethodSpec(source=...)` string constants

the bodies of

    Cell.get_all_segments_in_group      Cell.get_segment_group
    Cell.optimise_segment_group         Cell.optimise_segment_groups

and writes `lean/NmlVerif/Gen/Groups.lean`: one Lean `do` block in the `Except Err` monad per method, one Lean
statement per Python statement (the Python statement is repeated above it as a comment).  `Props/C14.lean` proves
that each generated definition equals the hand model (`c14_gen_*`), for all inputs, so the C14 theorems are about what
the source says today.  Both files must give the same translation.

Representation of Python values (primitives in `lean/NmlVerif/Model/Groups.lean`)
  * segment ids and (interned) segment-group ids are `Nat`; `'all'` is `allId`, `''` is `emptyId`;
  * a `Member` / `Include` object is the id it carries: `m.segments` / `i.segment_groups` are the object itself.
    Sound because the methods never assign to an attribute of such an object and never compare two of them
    (both refused below), so only the carried id is observable;
  * a list or `set` of them is a `List Nat`.  Sound because (a) every list/set that is mutated in place
    (`append`, `add`, `update`) was created by the method itself (`[]`, `set()`) and has not been stored, returned,
    assigned to another name or iterated over at that point -- anything else is refused -- so no other object can see
    the mutation (in particular two groups sharing one `members` list object behave as if each had its own), and
    (b) a `set` is only ever tested for membership (refused otherwise);
  * `self` is a `Cell` value threaded through the statements of a method that assigns to a group
    (`let mut self`); a `SegmentGroup` that is assigned to is a reference = its position in
    `morphology.segment_groups` (`grp self k`, `setMembers self k l`, `setIncludes self k l`); a `SegmentGroup` that
    is only read (in a method that assigns to nothing and does not return it) is a `Group` value;
  * `segment_group: Union[str, SegmentGroup]` is `Arg`; `isinstance(x, str)` is `Arg.isStr`; `sg.id == x` is
    `Arg.eqId` (False when `x` holds an object: checked that `GeneratedsSuper.__eq__` compares the types first);
  * `raise` -> `throw Err.*` by (exception class, leading string constant of the message); `return e` -> `return e`;
    recursion -> the parameter `rec_`, the knot is tied with fuel (`RecursionError` = `Err.outOfFuel`);
  * `natsort.natsorted(l, key=lambda x: x.segment_groups)` -> `sortBy key l` (`key` = natural-sort key of the group id
    strings, a parameter), `key=lambda x: x.segments` -> `sortBy (fun x => x) l` (ints in numeric order).

Anything not listed in the rules below is a *gap*: reported (the check fails), never skipped.
"""
import ast
import os
import sys

CLASS = "Cell"
TARGETS = ["get_all_segments_in_group", "get_segment_group", "optimise_segment_group", "optimise_segment_groups"]

# parameter and result types of the translated methods (checked against the annotations that exist)
SIGS = {
    "get_all_segments_in_group": {"params": [("segment_group", "arg"), ("assume_all_means_all", "bool")], "ret": "list:sid"},
    "get_segment_group": {"params": [("sg_id", "gid")], "ret": "gref"},
    "optimise_segment_group": {"params": [("seg_group_id", "gid")], "ret": "none"},
    "optimise_segment_groups": {"params": [], "ret": "none"},
}
ANNOT_OK = {
    "arg": {"typing.Union[str, SegmentGroup]"},
    "bool": {"bool"},
    "gid": {"str"},
}
RET_ANNOT_OK = {"list:sid": {"typing.List[int]"}, "gref": {"SegmentGroup"}, "none": set()}
LEAN_TY = {"arg": "Arg", "bool": "Bool", "gid": "Nat", "sid": "Nat"}
LEAN_RET = {"list:sid": "List Nat", "gref": "Nat", "none": "Cell"}
RAISES = {
    ("Exception", "No segment group "): "Err.unknownGroup",
    ("ValueError", "Segment group with id "): "Err.notFound",
}
LEAN_RESERVED = {"at", "from", "end", "fun", "do", "then", "else", "if", "let", "have", "show", "match", "with",
                 "in", "by", "where", "open", "def", "theorem", "structure", "class", "instance", "namespace",
                 "section", "variable", "universe", "import", "for", "return", "mut", "Type", "Prop", "Sort",
                 "include", "omit", "export", "private", "protected", "partial", "unsafe", "deriving", "extends",
                 "macro", "syntax", "notation", "infix", "prefix", "postfix", "attribute", "local", "scoped",
                 "rec_", "key", "fuel", "grp", "default"}


class Gap(Exception):
    pass


def lname(n):
    return n + "_" if n in LEAN_RESERVED else n


def where(node):
    return "line %s" % getattr(node, "lineno", "?")


def is_list(t):
    return t.startswith("list:")


def is_set(t):
    return t.startswith("set:")


def elt(t):
    return t.split(":", 1)[1]


def unify_elt(a, b, node):
    """element kinds of two collections; '?' is an empty literal not yet used"""
    if a == "?":
        return b
    if b == "?" or a == b:
        return a
    raise Gap("%s: collection of %s used with %s" % (where(node), a, b))


class Fn:
    """translation of one method"""

    def __init__(self, name, node, facts):
        self.name, self.node, self.facts = name, node, facts
        self.sig = SIGS[name]
        self.mutating = facts["mutating"][name]
        self.recursive = facts["recursive"][name]
        self.refs = self.mutating or self.sig["ret"] == "gref"      # iterate group references, not values
        self.lines = []
        self.env = {}            # python name -> {"ty":, "fresh": bool, "escaped": bool, "alive": bool, "loopvar": bool}
        self.scopes = [[]]
        self.iterating = []      # names of lists being iterated by enclosing loops
        self.assumptions = set()

    # ------------------------------------------------------------ environment
    def declare(self, name, ty, fresh=False, loopvar=False):
        self.env[name] = {"ty": ty, "fresh": fresh, "escaped": False, "alive": True, "loopvar": loopvar}
        self.scopes[-1].append(name)

    def push(self):
        self.scopes.append([])

    def pop(self):
        for n in self.scopes.pop():
            self.env[n]["alive"] = False

    def var(self, name, node):
        v = self.env.get(name)
        if v is None:
            raise Gap("%s: unknown name %s" % (where(node), name))
        if not v["alive"]:
            raise Gap("%s: %s is used outside the block that first assigned it" % (where(node), name))
        return v

    def emit(self, ind, text):
        self.lines.append("  " * ind + text)

    def comment(self, ind, node, head_only=False):
        src = ast.unparse(node)
        if head_only:
            src = src.split("\n")[0]
        for l in src.split("\n"):
            self.emit(ind, "-- " + l)

    # ------------------------------------------------------------ expressions
    def escape(self, node):
        """a bare collection name used as a whole value: it may now be reachable from elsewhere"""
        if isinstance(node, ast.Name) and node.id in self.env:
            self.env[node.id]["escaped"] = True

    def attr_chain(self, node):
        parts = []
        while isinstance(node, ast.Attribute):
            parts.append(node.attr)
            node = node.value
        if isinstance(node, ast.Name):
            parts.append(node.id)
            return list(reversed(parts))
        return None

    def expr(self, node, effects=True):
        """-> (lean text, type); `effects`: a raising call may be lifted here (never under and/or/not/compare)"""
        if isinstance(node, ast.Name):
            if node.id == "self":
                return "self", "cell"
            v = self.var(node.id, node)
            return lname(node.id), v["ty"]
        if isinstance(node, ast.Constant):
            if node.value is True:
                return "true", "bool"
            if node.value is False:
                return "false", "bool"
            if node.value == "all" and isinstance(node.value, str):
                return "allId", "gid"
            raise Gap("%s: constant %r" % (where(node), node.value))
        if isinstance(node, ast.List) and not node.elts:
            return "[]", "list:?"
        if isinstance(node, ast.Attribute):
            chain = self.attr_chain(node)
            if chain == ["self", "morphology", "segment_groups"]:
                return None, "grouplist"
            if chain is None or len(chain) != 2:
                raise Gap("%s: attribute expression %s" % (where(node), ast.unparse(node)))
            base, ty = self.expr(node.value, effects)
            a = node.attr
            if a == "id" and ty == "gval":
                return "%s.id" % base, "gid"
            if a == "id" and ty == "gref":
                return "(grp self %s).id" % base, "gid"
            if a in ("members", "includes"):
                k = "list:member" if a == "members" else "list:include"
                if ty == "gval":
                    return "%s.%s" % (base, a), k
                if ty == "gref":
                    return "(grp self %s).%s" % (base, a), k
                if ty == "arg":
                    if not effects:
                        raise Gap("%s: %s may raise inside a condition" % (where(node), ast.unparse(node)))
                    return "(← Arg.%s %s)" % (a, base), k
            if a == "segments" and ty == "member":
                return base, "sid"
            if a == "segment_groups" and ty == "include":
                return base, "gid"
            raise Gap("%s: attribute .%s of a value of kind %s" % (where(node), a, ty))
        if isinstance(node, ast.BoolOp):
            op = "&&" if isinstance(node.op, ast.And) else "||"
            parts = []
            for v in node.values:
                parts.append(self.cond(v, effects=False))
            return "(" + (" %s " % op).join(parts) + ")", "bool"
        if isinstance(node, ast.UnaryOp) and isinstance(node.op, ast.Not):
            return "!(%s)" % self.cond(node.operand, effects=False), "bool"
        if isinstance(node, ast.Compare):
            if len(node.ops) != 1:
                raise Gap("%s: chained comparison" % where(node))
            op, l, r = node.ops[0], node.left, node.comparators[0]
            if isinstance(op, (ast.In, ast.NotIn)):
                lt, lty = self.expr(l, False)
                rt, rty = self.expr(r, False)
                if lty not in ("sid", "gid") or not (is_list(rty) or is_set(rty)):
                    raise Gap("%s: membership test of a %s in a %s" % (where(node), lty, rty))
                unify_elt(elt(rty), lty, node)
                t = "%s.contains %s" % (rt, lt)
                return ("!(%s)" % t if isinstance(op, ast.NotIn) else t), "bool"
            if isinstance(op, ast.Eq):
                lt, lty = self.expr(l, False)
                rt, rty = self.expr(r, False)
                if lty == "gid" and rty == "arg":
                    return "Arg.eqId %s %s" % (lt, rt), "bool"
                if lty == "arg" and rty == "gid":
                    return "Arg.eqId %s %s" % (rt, lt), "bool"
                if lty == rty and lty in ("gid", "sid"):
                    return "%s == %s" % (lt, rt), "bool"
                raise Gap("%s: == between a %s and a %s" % (where(node), lty, rty))
            if isinstance(op, ast.Gt) and isinstance(r, ast.Constant) and r.value == 0 and type(r.value) is int \
                    and isinstance(l, ast.Call) and isinstance(l.func, ast.Name) and l.func.id == "len" \
                    and len(l.args) == 1 and not l.keywords:
                t, ty = self.expr(l.args[0], False)
                if not is_list(ty):
                    raise Gap("%s: len() of a %s" % (where(node), ty))
                return "decide (%s.length > 0)" % t, "bool"
            raise Gap("%s: comparison %s" % (where(node), ast.unparse(node)))
        if isinstance(node, ast.ListComp):
            return self.listcomp(node)
        if isinstance(node, ast.Call):
            return self.call(node, effects)
        raise Gap("%s: expression %s" % (where(node), ast.unparse(node)))

    def cond(self, node, effects=False):
        t, ty = self.expr(node, effects)
        if ty == "bool":
            return t
        if ty == "gid":                      # truth value of a string
            return "strTruthy %s" % t
        raise Gap("%s: truth value of a %s" % (where(node), ty))

    def listcomp(self, node):
        if len(node.generators) != 1 or node.generators[0].is_async:
            raise Gap("%s: comprehension with several generators" % where(node))
        g = node.generators[0]
        if not isinstance(g.target, ast.Name):
            raise Gap("%s: comprehension target" % where(node))
        v = g.target.id
        # [seg.id for seg in self.morphology.segments]
        if self.attr_chain(g.iter) == ["self", "morphology", "segments"] and not g.ifs \
                and isinstance(node.elt, ast.Attribute) and node.elt.attr == "id" \
                and isinstance(node.elt.value, ast.Name) and node.elt.value.id == v:
            return "self.segs", "list:sid"
        # [i for i in L if COND]
        if isinstance(node.elt, ast.Name) and node.elt.id == v and len(g.ifs) == 1:
            lt, lty = self.expr(g.iter, False)
            if not is_list(lty) or elt(lty) == "?":
                raise Gap("%s: comprehension over a %s" % (where(node), lty))
            self.push()
            self.declare(v, elt(lty), loopvar=True)
            c = self.cond(g.ifs[0], effects=False)
            self.pop()
            return "%s.filter (fun %s => %s)" % (lt, lname(v), c), lty
        raise Gap("%s: comprehension %s" % (where(node), ast.unparse(node)))

    def call(self, node, effects):
        f = node.func
        if isinstance(f, ast.Name):
            if f.id == "isinstance" and len(node.args) == 2 and not node.keywords \
                    and isinstance(node.args[1], ast.Name) and node.args[1].id == "str":
                t, ty = self.expr(node.args[0], False)
                if ty != "arg":
                    raise Gap("%s: isinstance(_, str) of a %s" % (where(node), ty))
                return "Arg.isStr %s" % t, "bool"
            if f.id == "set" and not node.args and not node.keywords:
                return "[]", "set:?"
            if f.id == "list" and len(node.args) == 1 and not node.keywords:
                t, ty = self.expr(node.args[0], effects)       # a copy: the argument does not escape
                if not is_list(ty):
                    raise Gap("%s: list() of a %s" % (where(node), ty))
                return t, ty
            raise Gap("%s: call of %s" % (where(node), f.id))
        chain = self.attr_chain(f)
        if chain == ["natsort", "natsorted"]:
            if len(node.args) != 1 or len(node.keywords) != 1 or node.keywords[0].arg != "key":
                raise Gap("%s: natsorted arguments" % where(node))
            lam = node.keywords[0].value
            if not (isinstance(lam, ast.Lambda) and len(lam.args.args) == 1 and isinstance(lam.body, ast.Attribute)
                    and isinstance(lam.body.value, ast.Name) and lam.body.value.id == lam.args.args[0].arg):
                raise Gap("%s: natsorted key %s" % (where(node), ast.unparse(lam)))
            t, ty = self.expr(node.args[0], effects)           # natsorted returns a new list
            if ty == "list:include" and lam.body.attr == "segment_groups":
                self.uses_key = True
                return "sortBy key %s" % t, ty
            if ty == "list:member" and lam.body.attr == "segments":
                return "sortBy (fun x => x) %s" % t, ty
            raise Gap("%s: natsorted of a %s by .%s" % (where(node), ty, lam.body.attr))
        if chain and len(chain) == 2 and chain[0] == "self" and chain[1] in TARGETS:
            m = chain[1]
            if not effects:
                raise Gap("%s: call of %s inside a condition" % (where(node), m))
            sig = SIGS[m]
            if node.keywords:
                raise Gap("%s: keyword arguments in a call of %s" % (where(node), m))
            args = []
            for k, (pn, pt) in enumerate(sig["params"]):
                if k < len(node.args):
                    t, ty = self.expr(node.args[k], effects)
                    if pt == "arg" and ty == "gid":
                        t = "(Arg.str %s)" % t
                    elif pt == "arg" and ty == "gval":
                        t = "(Arg.obj %s)" % t
                    elif pt != ty:
                        raise Gap("%s: argument %d of %s is a %s, expected %s" % (where(node), k, m, ty, pt))
                    args.append(t)
                else:
                    d = self.facts["defaults"][m].get(pn)
                    if d is None:
                        raise Gap("%s: missing argument %s of %s" % (where(node), pn, m))
                    args.append(d)
            if len(node.args) > len(sig["params"]):
                raise Gap("%s: too many arguments for %s" % (where(node), m))
            if m == self.name and self.recursive:
                head = "rec_ self"
            else:
                head = m
                if self.facts["uses_key"][m]:
                    head += " key"
                    self.uses_key = True
                if self.facts["uses_fuel"][m] or self.facts["recursive"][m]:
                    head += " fuel"
                head += " self"
            txt = (head + " " + " ".join(args)).rstrip()
            if self.facts["mutating"][m]:
                return txt, "newself"
            return "(← %s)" % txt, sig["ret"]
        raise Gap("%s: call %s" % (where(node), ast.unparse(f)))

    # ------------------------------------------------------------ statements
    def block(self, stmts, ind):
        """returns True when the block always ends in return/raise"""
        ended = False
        for k, st in enumerate(stmts):
            if ended:
                raise Gap("%s: statement after return/raise" % where(st))
            ended = self.stmt(st, ind)
        return ended

    def prescan_escapes(self, body):
        """inside a loop an escape later in the body precedes, on the next iteration, a mutation earlier in it"""
        for st in body:
            for n in ast.walk(st):
                vals = []
                if isinstance(n, ast.Assign):
                    vals.append(n.value)
                elif isinstance(n, ast.Return) and n.value is not None:
                    vals.append(n.value)
                elif isinstance(n, ast.Call):
                    recv_ok = isinstance(n.func, ast.Name) and n.func.id in ("len", "list", "isinstance")
                    if not recv_ok:
                        vals += list(n.args) + [k.value for k in n.keywords]
                for v in vals:
                    self.escape(v)

    def inplace(self, st, ind, call):
        """x.append(e) / s.add(e) / s.update(l) on a collection this method created and nobody else can see"""
        recv, meth = call.func.value, call.func.attr
        if not isinstance(recv, ast.Name) or len(call.args) != 1 or call.keywords:
            raise Gap("%s: in-place call %s" % (where(st), ast.unparse(call)))
        v = self.var(recv.id, st)
        if not v["fresh"] or v["escaped"]:
            raise Gap("%s: %s.%s(...) mutates a collection that was not created here or is visible elsewhere "
                      "(aliasing would matter)" % (where(st), recv.id, meth))
        if recv.id in self.iterating:
            raise Gap("%s: %s is mutated while it is iterated" % (where(st), recv.id))
        t, ty = self.expr(call.args[0])
        x = lname(recv.id)
        if meth == "append" and is_list(v["ty"]) and ty in ("sid", "gid", "member", "include"):
            v["ty"] = "list:" + unify_elt(elt(v["ty"]), ty, st)
            self.emit(ind, "%s := %s ++ [%s]" % (x, x, t))
        elif meth == "add" and is_set(v["ty"]) and ty in ("sid", "gid"):
            v["ty"] = "set:" + unify_elt(elt(v["ty"]), ty, st)
            self.emit(ind, "%s := %s ++ [%s]" % (x, x, t))
        elif meth == "update" and is_set(v["ty"]) and (is_list(ty) or is_set(ty)) and elt(ty) in ("sid", "gid", "?"):
            v["ty"] = "set:" + unify_elt(elt(v["ty"]), elt(ty), st)
            self.emit(ind, "%s := %s ++ %s" % (x, x, t))
        else:
            raise Gap("%s: %s.%s(%s) on a %s" % (where(st), recv.id, meth, ty, v["ty"]))

    def stmt(self, st, ind):
        if isinstance(st, ast.Expr) and isinstance(st.value, ast.Constant) and isinstance(st.value.value, str):
            return False                                           # docstring / string statement: no effect
        if isinstance(st, ast.Pass):
            return False
        if isinstance(st, ast.Expr) and isinstance(st.value, ast.Call):
            self.comment(ind, st)
            c = st.value
            if isinstance(c.func, ast.Attribute) and c.func.attr in ("append", "add", "update") \
                    and self.attr_chain(c.func) and self.attr_chain(c.func)[0] != "self":
                self.inplace(st, ind, c)
                return False
            t, ty = self.expr(c)
            if ty == "newself":
                self.emit(ind, "self ← %s" % t)
                return False
            raise Gap("%s: result of %s is dropped" % (where(st), ast.unparse(c.func)))
        if isinstance(st, ast.Assign):
            self.comment(ind, st)
            if len(st.targets) != 1:
                raise Gap("%s: multiple assignment" % where(st))
            tg = st.targets[0]
            if isinstance(tg, ast.Name):
                t, ty = self.expr(st.value)
                if ty in ("newself", "grouplist", "cell"):
                    raise Gap("%s: assignment of a %s" % (where(st), ty))
                fresh = isinstance(st.value, ast.ListComp) or ty in ("list:?", "set:?")
                if not fresh:
                    self.escape(st.value)
                name = tg.id
                old = self.env.get(name)
                if old is not None and old["alive"]:
                    if old["loopvar"]:
                        raise Gap("%s: loop variable %s is assigned" % (where(st), name))
                    oty = old["ty"]
                    if oty == "arg" and ty == "gval":
                        t = "Arg.obj %s" % t
                    elif (is_list(oty) and is_list(ty)) or (is_set(oty) and is_set(ty)):
                        old["ty"] = oty.split(":")[0] + ":" + unify_elt(elt(oty), elt(ty), st)
                    elif oty != ty:
                        raise Gap("%s: %s changes kind from %s to %s" % (where(st), name, oty, ty))
                    if name in self.iterating:
                        raise Gap("%s: %s is rebound while it is iterated" % (where(st), name))
                    old["fresh"], old["escaped"] = fresh, False
                    self.emit(ind, "%s := %s" % (lname(name), t))
                else:
                    self.declare(name, ty, fresh=fresh)
                    ann = " : List Nat" if (is_list(ty) or is_set(ty)) else ""
                    self.emit(ind, "let mut %s%s := %s" % (lname(name), ann, t))
                return False
            if isinstance(tg, ast.Attribute) and tg.attr in ("members", "includes") and isinstance(tg.value, ast.Name):
                b, bty = self.expr(tg.value)
                if bty != "gref":
                    raise Gap("%s: assignment to .%s of a %s" % (where(st), tg.attr, bty))
                t, ty = self.expr(st.value)
                want = "list:member" if tg.attr == "members" else "list:include"
                if not is_list(ty) or unify_elt(elt(ty), elt(want), st) != elt(want):
                    raise Gap("%s: .%s = a %s" % (where(st), tg.attr, ty))
                self.escape(st.value)
                self.emit(ind, "self := %s self %s %s" % ("setMembers" if tg.attr == "members" else "setIncludes", b,
                                                           t if t.isidentifier() else "(%s)" % t))
                return False
            raise Gap("%s: assignment target %s" % (where(st), ast.unparse(tg)))
        if isinstance(st, ast.If):
            self.comment(ind, st, head_only=True)
            c = self.cond(st.test, effects=False)
            self.emit(ind, "if %s then" % c)
            self.push()
            e1 = self.block(st.body, ind + 1)
            self.pop()
            e2 = False
            if st.orelse:
                self.emit(ind, "else")
                self.push()
                e2 = self.block(st.orelse, ind + 1)
                self.pop()
            return e1 and e2
        if isinstance(st, ast.For):
            self.comment(ind, st, head_only=True)
            if st.orelse or not isinstance(st.target, ast.Name):
                raise Gap("%s: for/else or tuple target" % where(st))
            it, ity = self.expr(st.iter)
            itname = st.iter.id if isinstance(st.iter, ast.Name) else None
            if ity == "grouplist":
                if self.refs:
                    it, vty = "List.range self.groups.length", "gref"
                else:
                    it, vty = "self.groups", "gval"
            elif is_list(ity) and elt(ity) != "?":
                vty = elt(ity)
            else:
                raise Gap("%s: iteration over a %s" % (where(st), ity))
            self.prescan_escapes(st.body)
            self.emit(ind, "for %s in %s do" % (lname(st.target.id), it))
            self.push()
            self.declare(st.target.id, vty, loopvar=True)
            if itname:
                self.iterating.append(itname)
            self.block(st.body, ind + 1)
            if itname:
                self.iterating.pop()
            self.pop()
            return False
        if isinstance(st, ast.Return):
            self.comment(ind, st)
            if st.value is None or (isinstance(st.value, ast.Constant) and st.value.value is None):
                if self.sig["ret"] != "none":
                    raise Gap("%s: bare return in a method that returns a %s" % (where(st), self.sig["ret"]))
                self.emit(ind, "return self")
                return True
            t, ty = self.expr(st.value)
            self.escape(st.value)
            want = self.sig["ret"]
            if want == "list:sid" and is_list(ty) and elt(ty) in ("sid", "?"):
                pass
            elif want != ty:
                raise Gap("%s: returns a %s, expected %s" % (where(st), ty, want))
            self.emit(ind, "return %s" % t)
            return True
        if isinstance(st, ast.Raise):
            self.comment(ind, st)
            e = st.exc
            if st.cause is not None or not (isinstance(e, ast.Call) and isinstance(e.func, ast.Name) and len(e.args) == 1):
                raise Gap("%s: raise %s" % (where(st), ast.unparse(st)))
            parts, m = [], e.args[0]
            while isinstance(m, ast.BinOp) and isinstance(m.op, ast.Add):
                parts.append(m.right)
                m = m.left
            parts.append(m)
            parts.reverse()
            for p in parts[1:]:        # the operands are evaluated: they must be strings, or the raise raises TypeError
                if isinstance(p, ast.Constant) and isinstance(p.value, str):
                    continue
                if isinstance(p, ast.Call) and isinstance(p.func, ast.Name) and p.func.id == "str" and len(p.args) == 1:
                    continue
                if self.attr_chain(p) == ["self", "id"]:
                    self.assumptions.add("Cell.id is a str (it is concatenated into the exception message)")
                    continue
                if isinstance(p, ast.Name) and self.var(p.id, st)["ty"] in ("arg", "gid"):
                    continue           # a group id (str); an `arg` is only concatenated under isinstance(_, str)
                raise Gap("%s: operand %s of the exception message" % (where(st), ast.unparse(p)))
            lead = parts[0].value if isinstance(parts[0], ast.Constant) and isinstance(parts[0].value, str) else None
            err = RAISES.get((e.func.id, lead))
            if err is None:
                raise Gap("%s: raise %s(%r ...) is not in the table of modelled errors" % (where(st), e.func.id, lead))
            self.emit(ind, "throw %s" % err)
            return True
        raise Gap("%s: statement %s" % (where(st), type(st).__name__))

    # ------------------------------------------------------------ whole method
    def translate(self):
        fn = self.node
        a = fn.args
        if a.vararg or a.kwarg or a.kwonlyargs or a.posonlyargs or fn.decorator_list:
            raise Gap("signature / decorators of %s" % self.name)
        names = [x.arg for x in a.args]
        want = ["self"] + [p for p, _ in self.sig["params"]]
        if names != want:
            raise Gap("parameters of %s are %s, expected %s" % (self.name, names, want))
        for x, (pn, pt) in zip(a.args[1:], self.sig["params"]):
            if x.annotation is not None and ast.unparse(x.annotation) not in ANNOT_OK.get(pt, set()):
                raise Gap("annotation of %s.%s is %s" % (self.name, pn, ast.unparse(x.annotation)))
        if fn.returns is not None and ast.unparse(fn.returns) not in RET_ANNOT_OK[self.sig["ret"]]:
            raise Gap("return annotation of %s is %s" % (self.name, ast.unparse(fn.returns)))
        self.uses_key = False
        assigned = {t.id for n in ast.walk(fn) if isinstance(n, ast.Assign) for t in n.targets if isinstance(t, ast.Name)}
        for pn, pt in self.sig["params"]:
            self.declare(pn, pt)
        pre = []
        if self.mutating:
            pre.append("let mut self := self")
        for pn, pt in self.sig["params"]:
            if pn in assigned:
                pre.append("let mut %s := %s" % (lname(pn), lname(pn)))
        for l in pre:
            self.emit(1, l)
        ended = self.block(list(fn.body), 1)
        if not ended:
            if self.sig["ret"] != "none":
                raise Gap("%s can fall off its end (returns None)" % self.name)
            self.emit(1, "return self")
        params = "".join(" (%s : %s)" % (lname(pn), LEAN_TY[pt]) for pn, pt in self.sig["params"])
        ret = "Except Err (%s)" % LEAN_RET[self.sig["ret"]] if " " in LEAN_RET[self.sig["ret"]] else "Except Err " + LEAN_RET[self.sig["ret"]]
        if self.recursive:
            head = "def %s_body (rec_ : Cell → Arg → Bool → Except Err (List Nat))\n    (self : Cell)%s : %s := do" % (
                self.name, params, ret)
        else:
            pk = " (key : Nat → Nat)" if self.facts["uses_key"][self.name] else ""
            pf = " (fuel : Nat)" if self.facts["uses_fuel"][self.name] else ""
            head = "def %s%s%s (self : Cell)%s : %s := do" % (self.name, pk, pf, params, ret)
        text = "/-- `%s.%s` -/\n%s\n%s\n" % (CLASS, self.name, head, "\n".join(self.lines))
        if self.recursive:
            if self.sig["params"] != SIGS["get_all_segments_in_group"]["params"]:
                raise Gap("recursive method %s: no knot-tying rule" % self.name)
            text += ("\n/-- the recursion of `%s.%s`, `fuel` levels deep (`RecursionError` beyond) -/\n"
                     "def %s : Nat → Cell → Arg → Bool → Except Err (List Nat)\n"
                     "  | 0 => fun _ _ _ => .error Err.outOfFuel\n"
                     "  | fuel+1 => %s_body (%s fuel)\n" % (CLASS, self.name, self.name, self.name, self.name))
        return text


# ------------------------------------------------------------------ whole-program facts
def method_facts(funcs):
    """which methods assign to a group / call whom / use the sort key / need fuel; parameter defaults"""
    calls, stores, nats, defaults = {}, {}, {}, {}
    for name, fn in funcs.items():
        calls[name] = set()
        stores[name] = False
        nats[name] = False
        for n in ast.walk(fn):
            if isinstance(n, ast.Call) and isinstance(n.func, ast.Attribute):
                if isinstance(n.func.value, ast.Name) and n.func.value.id == "self" and n.func.attr in TARGETS:
                    calls[name].add(n.func.attr)
                if n.func.attr == "natsorted":
                    for k in n.keywords:
                        if k.arg == "key" and isinstance(k.value, ast.Lambda) and isinstance(k.value.body, ast.Attribute) \
                                and k.value.body.attr == "segment_groups":
                            nats[name] = True
            if isinstance(n, (ast.Assign, ast.AugAssign, ast.AnnAssign)):
                tgs = n.targets if isinstance(n, ast.Assign) else [n.target]
                for t in tgs:
                    if isinstance(t, (ast.Attribute, ast.Subscript)):
                        stores[name] = True
            if isinstance(n, ast.Delete):
                stores[name] = True
        d = {}
        a = fn.args
        for x, dv in zip(a.args[len(a.args) - len(a.defaults):], a.defaults):
            if isinstance(dv, ast.Constant) and dv.value is True:
                d[x.arg] = "true"
            elif isinstance(dv, ast.Constant) and dv.value is False:
                d[x.arg] = "false"
            else:
                d[x.arg] = None
        defaults[name] = d

    def closure(seed):
        out = dict(seed)
        changed = True
        while changed:
            changed = False
            for n in funcs:
                if not out[n] and any(out.get(m) for m in calls[n] if m in funcs):
                    out[n] = True
                    changed = True
        return out
    recursive = {n: n in calls[n] for n in funcs}
    for n in funcs:           # mutual recursion is not handled
        for m in calls[n]:
            if m != n and m in funcs and n in reach(calls, m):
                raise Gap("mutual recursion between %s and %s" % (n, m))
    mutating = closure(stores)
    uses_key = closure(nats)
    calls_rec = {n: any(recursive.get(m) for m in calls[n] if m != n) for n in funcs}
    uses_fuel = closure(calls_rec)
    return {"mutating": mutating, "recursive": recursive, "uses_key": uses_key, "uses_fuel": uses_fuel,
            "defaults": defaults, "calls": calls}


def reach(calls, start):
    seen, todo = set(), [start]
    while todo:
        x = todo.pop()
        for y in calls.get(x, ()):
            if y not in seen:
                seen.add(y)
                todo.append(y)
    return seen


# ------------------------------------------------------------------ source extraction
def find_in_nml(tree):
    out = {}
    for node in tree.body:
        if isinstance(node, ast.ClassDef) and node.name == CLASS:
            for it in node.body:
                if isinstance(it, ast.FunctionDef) and it.name in TARGETS:
                    out.setdefault(it.name, []).append(it)
    return out


def find_in_helpers(tree):
    """MethodSpec(name=, source='''...''', class_names=...) calls; the source is class-body text"""
    out, problems = {}, []
    for node in ast.walk(tree):
        if not (isinstance(node, ast.Call) and isinstance(node.func, ast.Name) and node.func.id == "MethodSpec"):
            continue
        kw = {k.arg: k.value for k in node.keywords}
        src, cn = kw.get("source"), kw.get("class_names")
        if not (isinstance(src, ast.Constant) and isinstance(src.value, str)):
            continue
        classes = []
        if isinstance(cn, ast.Constant) and isinstance(cn.value, str):
            classes = [cn.value]
        elif isinstance(cn, (ast.List, ast.Tuple)):
            classes = [e.value for e in cn.elts if isinstance(e, ast.Constant)]
        if CLASS not in classes:
            continue
        try:
            sub = ast.parse("class __Spec__:\n" + src.value + "\n    pass\n")
        except SyntaxError as e:
            problems.append("helper_methods.py: MethodSpec for %s does not parse: %s" % (classes, e))
            continue
        for it in sub.body[0].body:
            if isinstance(it, ast.FunctionDef) and it.name in TARGETS:
                out.setdefault(it.name, []).append(it)
    return out, problems


def env_checks(tree):
    """facts about the rest of nml.py that the translation rules rely on"""
    gaps = []
    has_natsort = False
    for node in tree.body:
        if isinstance(node, ast.Import):
            for al in node.names:
                if al.name == "natsort" and al.asname in (None, "natsort"):
                    has_natsort = True
        elif isinstance(node, (ast.FunctionDef, ast.ClassDef)) and node.name in ("natsort", "isinstance", "len", "list", "set", "str"):
            gaps.append("nml.py: module-level name %s is rebound" % node.name)
        elif isinstance(node, ast.Assign):
            for t in node.targets:
                if isinstance(t, ast.Name) and t.id in ("natsort", "isinstance", "len", "list", "set", "str"):
                    gaps.append("nml.py: module-level name %s is rebound" % t.id)
    if not has_natsort:
        gaps.append("nml.py: `import natsort` not found at module level")
    classes = {n.name: n for n in tree.body if isinstance(n, ast.ClassDef)}
    # `sg.id == segment_group` with a SegmentGroup on the right is False: GeneratedsSuper.__eq__ compares types first
    sup = None
    for n in ast.walk(tree):
        if isinstance(n, ast.ClassDef) and n.name == "GeneratedsSuper":
            sup = n
            break
    ok = False
    if sup is not None:
        for it in sup.body:
            if isinstance(it, ast.FunctionDef) and it.name == "__eq__":
                for st in it.body:
                    if isinstance(st, ast.If) and ast.unparse(st.test) == "type(self) != type(other)" \
                            and len(st.body) == 1 and ast.unparse(st.body[0]) == "return False":
                        ok = True
                    elif isinstance(st, (ast.Return, ast.For, ast.While)):
                        break
    if not ok:
        gaps.append("nml.py: GeneratedsSuper.__eq__ does not start with `if type(self) != type(other): return False` "
                    "(the rule for `sg.id == segment_group` no longer applies)")
    for cname in ("SegmentGroup", "Base", "BaseWithoutId", "Member", "Include", "Cell", "Morphology"):
        c = classes.get(cname)
        if c is None:
            gaps.append("nml.py: class %s not found" % cname)
            continue
        for it in c.body:
            if isinstance(it, ast.FunctionDef) and it.name in ("__eq__", "__ne__", "__hash__", "__getattr__", "__getattribute__",
                                                               "__setattr__", "__iter__", "__contains__", "__bool__", "__len__"):
                gaps.append("nml.py: class %s defines %s" % (cname, it.name))
            if isinstance(it, ast.FunctionDef) and it.name in ("segments", "segment_groups", "members", "includes", "id", "morphology") \
                    and cname in ("SegmentGroup", "Member", "Include", "Cell", "Morphology"):
                gaps.append("nml.py: %s.%s is a method/property, not a plain attribute" % (cname, it.name))
    return gaps


HEADER = """\
/-
GENERATED by translators/groups_extract.py from neuroml/nml/nml.py and neuroml/nml/helper_methods.py
(both files gave this same text). Regenerated on every `bin/check C14`; do not edit.
Each Lean statement is the translation of the Python statement quoted in the comment above it.
-/
import NmlVerif.Model.Groups
set_option linter.unusedVariables false

namespace NmlVerif.Gen.Groups
open NmlVerif.Groups

"""
FOOTER = "end NmlVerif.Gen.Groups\n"
ORDER = ["get_all_segments_in_group", "get_segment_group", "optimise_segment_group", "optimise_segment_groups"]


def translate_funcs(label, funcs):
    """{name: text}, gaps, assumptions for one source file"""
    gaps, texts, assumptions = [], {}, set()
    for n in TARGETS:
        if len(funcs.get(n, [])) != 1:
            gaps.append("%s: %d definitions of %s.%s (expected 1)" % (label, len(funcs.get(n, [])), CLASS, n))
    if gaps:
        return texts, gaps, assumptions
    single = {n: funcs[n][0] for n in TARGETS}
    try:
        facts = method_facts(single)
    except Gap as g:
        return texts, ["%s: %s" % (label, g)], assumptions
    for n in ORDER:
        try:
            f = Fn(n, single[n], facts)
            texts[n] = f.translate()
            assumptions |= f.assumptions
        except Gap as g:
            gaps.append("%s: %s.%s: %s" % (label, CLASS, n, g))
        except RecursionError:
            gaps.append("%s: %s.%s: expression too deep" % (label, CLASS, n))
    return texts, gaps, assumptions


def translate_repo(repo):
    """returns (lean_text, gaps, assumptions)"""
    hp = os.path.join(repo, "neuroml", "nml", "helper_methods.py")
    np_ = os.path.join(repo, "neuroml", "nml", "nml.py")
    with open(hp, encoding="utf-8") as fh:
        htree = ast.parse(fh.read())
    with open(np_, encoding="utf-8") as fh:
        ntree = ast.parse(fh.read())
    gaps = env_checks(ntree)
    hfun, problems = find_in_helpers(htree)
    gaps += problems
    nfun = find_in_nml(ntree)
    ntext, g1, a1 = translate_funcs("nml.py", nfun)
    htext, g2, a2 = translate_funcs("helper_methods.py", hfun)
    gaps += g1 + g2
    chunks = []
    for n in ORDER:
        if n in ntext and n in htext and ntext[n] != htext[n]:
            gaps.append("%s.%s: helper_methods.py and nml.py translate differently" % (CLASS, n))
        if n in ntext:
            chunks.append(ntext[n])
        elif n in htext:
            chunks.append(htext[n])
    return HEADER + "\n".join(chunks) + "\n" + FOOTER, gaps, sorted(a1 | a2)


def regenerate(repo, out_path):
    text, gaps, assumptions = translate_repo(repo)
    old = None
    if os.path.exists(out_path):
        with open(out_path, encoding="utf-8") as fh:
            old = fh.read()
    if old != text:
        os.makedirs(os.path.dirname(out_path), exist_ok=True)
        tmp = out_path + ".tmp%d" % os.getpid()
        with open(tmp, "w", encoding="utf-8") as fh:
            fh.write(text)
        os.replace(tmp, out_path)
    regenerate.assumptions = assumptions
    return gaps


if __name__ == "__main__":
    repo = sys.argv[1] if len(sys.argv) > 1 else os.environ.get("VERIF_REPO", "/repo")
    here = os.path.dirname(os.path.dirname(os.path.abspath(__file__)))
    out = sys.argv[2] if len(sys.argv) > 2 else os.path.join(here, "lean", "NmlVerif", "Gen", "Groups.lean")
    gs = regenerate(repo, out)
    for g in gs:
        print("GAP:", g)
    print("wrote", out, "gaps:", len(gs))
