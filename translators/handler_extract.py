#!/venv/bin/python
"""handler_extract.py -- per-OBJECT state of the network builder and the two parsers (property C07, second pass).

Reads `neuroml/hdf5/NetworkBuilder.py`, `DefaultNetworkHandler.py`, `NeuroMLHdf5Parser.py`, `NeuroMLXMLParser.py` of the
CURRENT working tree with `ast` only and emits `lean/NmlVerif/Gen/Handlers.lean`:

  attrs / touch   for `NetworkBuilder`: every attribute reached through `self` (where it is created: class body with a
                  mutable / immutable value, `__init__` on every path, or lazily by a handler) and, per handler
                  method, the attributes it reads / stores into (`self.T = ..`, `self.T[k] = ..`, `self.T.append(..)`) /
                  mutates deeper (`self.T[k].x.append(..)`, also through a local alias `p = self.T[k]`).
                  Lean obligation (`c07_handlers_private`): no attribute a handler touches is a class-level mutable that
                  `__init__` does not replace;  `cfg` (which of the model's seven tables are class-level) must be
                  `Cfg.allPrivate`;  `use` (handler -> tables read / stored / mutated deeper) must equal the hand model's
                  table `NetBuilder.modelUse`.
  reuseTable      a `Glue.Table` whose variables are the INSTANCE attributes of the three classes and whose entries are
                  what a user does with ONE object: `NeuroMLHdf5Parser.parse; get_nml_doc`, `NeuroMLXMLParser.parse`,
                  and a whole document build on one `NetworkBuilder` (`handle_document_start` followed by any handler
                  calls).  rbw = attributes possibly read before the entry itself has assigned them on every path;
                  writes = attributes possibly assigned / mutated.  A violation = the n-th use of a REUSED object may
                  see what an earlier use left behind.
  builderResets / parserResets   does `handle_document_start` / `parse` assign, on every path and before reading, every
                  attribute that later steps read (the proposed repair does; today's code does not).

The interpreter is a small may-read-first / may-write / must-assign analysis over `self.<attr>` (sequence, branch,
loop, try, return/raise paths, calls through `self` by fixpoint).  It REFUSES (reports a gap for) every statement or
expression kind it does not know, nested functions/classes/lambdas, `global`, `setattr(self, ..)`, `vars(self)`,
`self.__dict__`, and `self` escaping as a plain value.
"""
import ast
import json
import os
import sys

sys.path.insert(0, os.path.dirname(os.path.abspath(__file__)))
from glue_extract import MUTATORS, mutability  # noqa: E402

NB = "neuroml/hdf5/NetworkBuilder.py"
DH = "neuroml/hdf5/DefaultNetworkHandler.py"
H5 = "neuroml/hdf5/NeuroMLHdf5Parser.py"
XP = "neuroml/hdf5/NeuroMLXMLParser.py"
CLASSES = [("NetworkBuilder", NB, [("DefaultNetworkHandler", DH)]), ("NeuroMLHdf5Parser", H5, []),
           ("NeuroMLXMLParser", XP, [])]
# the model's seven tables, in the order of `NetBuilder.Cfg` / `NetBuilder.Tables`
TABLES = ["populations", "projections", "input_lists", "projection_syns", "projection_types", "projection_syns_pre",
          "weightDelays"]
HANDLERS = ["handle_document_start", "handle_network", "handle_population", "handle_location", "handle_projection",
            "finalise_projection", "handle_connection", "handle_input_list", "handle_single_input",
            "finalise_input_source"]
# functions that neither keep nor mutate their arguments
PURE = {"len", "str", "int", "float", "bool", "isinstance", "hasattr", "print", "range", "type", "repr", "exit",
        "inspect.getfullargspec", "inspect.getargspec", "np.array", "get_str_attribute_group", "os.path.dirname",
        "os.path.abspath", "tables.open_file", "Exception", "getattr"}
# methods of attribute objects that only read
READ_METHODS = {"debug", "info", "warning", "error", "get_by_id", "count", "startswith", "endswith", "split", "replace",
                "strip", "decode", "get", "keys", "values", "items", "close", "__getattr__", "get_nml_doc",
                "get_pre_cell_id", "get_post_cell_id", "get_weight", "get_target_cell_id", "get_segment_id",
                "get_fraction_along"}

ID = (False, False, False)       # (may read the incoming value, may write, must assign)


def comp1(a, b):
    return (a[0] or (not a[2] and b[0]), a[1] or b[1], a[2] or b[2])


def join1(a, b):
    return (a[0] or b[0], a[1] or b[1], a[2] and b[2])


def comp(A, B):
    if A is None or B is None:
        return None
    out = dict(A)
    for v, b in B.items():
        out[v] = comp1(A.get(v, ID), b)
    return out


def join(A, B):
    if A is None:
        return B
    if B is None:
        return A
    return {v: join1(A.get(v, ID), B.get(v, ID)) for v in set(A) | set(B)}


def weaken(A):
    return None if A is None else {v: (e[0], e[1], False) for v, e in A.items()}


def dotted(e):
    if isinstance(e, ast.Name):
        return e.id
    if isinstance(e, ast.Attribute):
        b = dotted(e.value)
        return None if b is None else b + "." + e.attr
    return None


class Method:
    def __init__(self, cls, name, node):
        self.cls, self.name, self.node = cls, name, node
        self.reads, self.stores, self.deep, self.delegates, self.calls = set(), set(), set(), set(), set()


class Analysis:
    def __init__(self, cname, methods, gaps):
        self.cname, self.methods, self.gaps = cname, methods, gaps
        self.summ = {m: {} for m in methods}

    def gap(self, m, node, what):
        g = "%s.%s (line %s): %s" % (self.cname, m.name, getattr(node, "lineno", "?"), what)
        if g not in self.gaps:
            self.gaps.append(g)

    # ---------------------------------------------------------------- expressions
    def root(self, m, e, alias):
        """(attr, depth) if the value of `e` is reached from self.<attr> (depth 0 = the attribute's own object)"""
        depth = 0
        while True:
            if isinstance(e, ast.Attribute):
                if isinstance(e.value, ast.Name) and e.value.id == m.selfname:
                    return e.attr, depth
                e, depth = e.value, depth + 1
            elif isinstance(e, ast.Subscript):
                e, depth = e.value, depth + 1
            elif isinstance(e, ast.Call) and isinstance(e.func, ast.Attribute) and e.func.attr in ("get", "__getitem__"):
                e, depth = e.func.value, depth + 1
            elif isinstance(e, ast.Name):
                if e.id in alias:
                    a, d = alias[e.id]
                    return a, d + depth
                return None
            else:
                return None

    def expr(self, m, e, alias):
        """summary of evaluating expression e (reads, calls); order inside one expression is left to right"""
        out = {}

        def rd(a):
            m.reads.add(a)
            return {a: (True, False, False)}

        def wr(a, deep):
            (m.deep if deep else m.stores).add(a)
            return {a: (True, True, False)}

        def go(e):
            nonlocal out
            if e is None or isinstance(e, ast.Constant):
                return
            if isinstance(e, ast.Name):
                if e.id == m.selfname:
                    self.gap(m, e, "`self` used as a plain value")
                elif e.id in alias:
                    out = comp(out, rd(alias[e.id][0]))
                return
            if isinstance(e, ast.Attribute):
                if isinstance(e.value, ast.Name) and e.value.id == m.selfname:
                    if e.attr in ("__dict__", "__class__"):
                        self.gap(m, e, "self.%s" % e.attr)
                    if e.attr in self.methods:      # bound method taken as a value (`self.netHandler.x = self.y` idiom)
                        m.calls.add(e.attr)
                        out = comp(out, weaken(self.normal(e.attr)) or {})
                    else:
                        out = comp(out, rd(e.attr))
                else:
                    go(e.value)
                return
            if isinstance(e, ast.Subscript):
                go(e.value)
                go(e.slice)
                return
            if isinstance(e, ast.Call):
                fn = e.func
                d = dotted(fn)
                if isinstance(fn, ast.Attribute) and isinstance(fn.value, ast.Name) and fn.value.id == m.selfname \
                        and fn.attr in self.methods:
                    for a in list(e.args) + [k.value for k in e.keywords]:
                        go(a)
                        ra = self.root(m, a, alias)
                        if ra is not None:       # an object reached from an attribute handed to a method of ours:
                            out = comp(out, wr(ra[0], True))     # parameters are not tracked, so it counts as mutated
                    m.calls.add(fn.attr)
                    out = comp(out, self.normal(fn.attr))
                    return
                if d in ("setattr", "vars", "delattr") and e.args and isinstance(e.args[0], ast.Name) and \
                        e.args[0].id == m.selfname:
                    self.gap(m, e, "%s(self, ..)" % d)
                    return
                if d in ("setattr", "delattr") and e.args:
                    r = self.root(m, e.args[0], alias)
                    for a in e.args:
                        go(a)
                    if r:
                        out = comp(out, wr(r[0], True))
                    return
                if isinstance(fn, ast.Attribute):
                    go(fn.value)
                    r = self.root(m, fn.value, alias)
                    for a in list(e.args) + [k.value for k in e.keywords]:
                        go(a)
                    if r is not None:
                        if fn.attr in MUTATORS:
                            out = comp(out, wr(r[0], r[1] > 0))
                        elif fn.attr in READ_METHODS:
                            pass
                        else:
                            m.delegates.add("%s.%s" % (r[0], fn.attr))
                    # arguments handed to a method of some object: the object may keep them
                    ctor = bool(d) and d.startswith("neuroml.") and d.count(".") == 1 and fn.attr[:1].isupper()
                    if not (d and d in PURE) and fn.attr not in READ_METHODS and not ctor:
                        for a in list(e.args) + [k.value for k in e.keywords]:
                            ra = self.root(m, a, alias)
                            if ra is not None and not isinstance(a, ast.Constant):
                                out = comp(out, wr(ra[0], True))
                    return
                if isinstance(fn, ast.Name):
                    for a in list(e.args) + [k.value for k in e.keywords]:
                        go(a)
                    if fn.id not in PURE:
                        for a in list(e.args) + [k.value for k in e.keywords]:
                            ra = self.root(m, a, alias)
                            if ra is not None:
                                out = comp(out, wr(ra[0], True))    # handed to a function we do not know
                    return
                self.gap(m, e, "call of a computed function")
                return
            if isinstance(e, ast.BoolOp):
                go(e.values[0])
                saved = out
                out = {}
                for x in e.values[1:]:
                    go(x)
                out = comp(saved, weaken(out) or {})
                return
            if isinstance(e, ast.IfExp):
                go(e.test)
                saved = out
                out = {}
                go(e.body)
                b1, out = out, {}
                go(e.orelse)
                out = comp(saved, join(b1, out))
                return
            if isinstance(e, (ast.BinOp,)):
                go(e.left)
                go(e.right)
                return
            if isinstance(e, ast.UnaryOp):
                go(e.operand)
                return
            if isinstance(e, ast.Compare):
                go(e.left)
                for x in e.comparators:
                    go(x)
                return
            if isinstance(e, (ast.Tuple, ast.List, ast.Set)):
                for x in e.elts:
                    go(x)
                return
            if isinstance(e, ast.Dict):
                for x in list(e.keys) + list(e.values):
                    go(x)
                return
            if isinstance(e, ast.JoinedStr):
                for x in e.values:
                    go(x)
                return
            if isinstance(e, ast.FormattedValue):
                go(e.value)
                return
            if isinstance(e, ast.Slice):
                for x in (e.lower, e.upper, e.step):
                    go(x)
                return
            if isinstance(e, ast.Starred):
                go(e.value)
                return
            self.gap(m, e, "expression kind %s" % type(e).__name__)
        go(e)
        return out

    def normal(self, name):
        return dict(self.summ.get(name, {}))

    # ---------------------------------------------------------------- statements
    def store(self, m, t, value, alias):
        """summary of assigning to target t (after the value has been evaluated)"""
        if isinstance(t, ast.Name):
            r = self.root(m, value, alias) if value is not None else None
            if r is not None:
                alias[t.id] = (r[0], r[1])
            else:
                alias.pop(t.id, None)
            return {}
        if isinstance(t, (ast.Tuple, ast.List)):
            out = {}
            for x in t.elts:
                out = comp(out, self.store(m, x, None, alias))
            return out
        if isinstance(t, ast.Attribute) and isinstance(t.value, ast.Name) and t.value.id == m.selfname:
            m.stores.add(t.attr)
            return {t.attr: (False, True, True)}
        if isinstance(t, (ast.Attribute, ast.Subscript)):
            own = isinstance(t.value, ast.Attribute) and isinstance(t.value.value, ast.Name) and \
                t.value.value.id == m.selfname      # `self.T[k] = v`: T's content is not looked up
            out = {} if own else self.expr(m, t.value, alias)
            if isinstance(t, ast.Subscript):
                out = comp(out, self.expr(m, t.slice, alias))
            r = self.root(m, t.value, alias)
            if r is not None:
                direct = r[1] == 0 and isinstance(t, ast.Subscript)
                (m.stores if direct else m.deep).add(r[0])
                out = comp(out, {r[0]: (True, True, False)})
            return out
        self.gap(m, t, "assignment target %s" % type(t).__name__)
        return {}

    def block(self, m, body, alias):
        falls, exits, raised = {}, None, None
        for s in body:
            if falls is None:
                break
            f2, e2, r2 = self.stmt(m, s, alias)
            exits = join(exits, comp(falls, e2))
            raised = join(raised, comp(falls, r2))
            falls = comp(falls, f2)
        return falls, exits, raised

    def stmt(self, m, s, alias):
        E = lambda e: self.expr(m, e, alias)   # noqa: E731
        if isinstance(s, ast.Expr):
            return E(s.value), None, None
        if isinstance(s, ast.Assign):
            out = E(s.value)
            # a shared object stored in a second place: `self.a = <something reached from self.b>`
            for t in s.targets:
                out = comp(out, self.store(m, t, s.value, alias))
            return out, None, None
        if isinstance(s, ast.AnnAssign):
            if s.value is None:
                return {}, None, None
            return comp(E(s.value), self.store(m, s.target, s.value, alias)), None, None
        if isinstance(s, ast.AugAssign):
            out = E(s.value)
            t = s.target
            if isinstance(t, ast.Name):
                return out, None, None
            r = self.root(m, t, alias)
            out = comp(out, E(t) if not (isinstance(t, ast.Attribute) and isinstance(t.value, ast.Name)
                                         and t.value.id == m.selfname) else {})
            if r is not None:
                (m.stores if r[1] == 0 else m.deep).add(r[0])
                out = comp(out, {r[0]: (True, True, False)})
            return out, None, None
        if isinstance(s, ast.Return):
            out = E(s.value) if s.value is not None else {}
            return None, out, None
        if isinstance(s, ast.Raise):
            out = {}
            for x in (s.exc, s.cause):
                if x is not None:
                    out = comp(out, E(x))
            return None, None, out
        if isinstance(s, ast.If):
            t = E(s.test)
            a1, a2 = dict(alias), dict(alias)
            f1, e1, r1 = self.block(m, s.body, a1)
            f2, e2, r2 = self.block(m, s.orelse, a2)
            for k in set(a1) | set(a2):       # aliases after the branch: keep what either side bound
                if k in a1 or k in a2:
                    alias[k] = a1.get(k) or a2.get(k)
            f, e, r = join(f1, f2), join(e1, e2), join(r1, r2)
            return (comp(t, f) if f is not None else None), (comp(t, e) if e is not None else None), \
                   (comp(t, r) if r is not None else None)
        if isinstance(s, (ast.For, ast.While)):
            head = E(s.iter if isinstance(s, ast.For) else s.test)
            if isinstance(s, ast.For):
                r = self.root(m, s.iter, alias)
                self.bind_loop_target(s.target, r, alias)
            f, e, r = self.block(m, s.body, alias)
            f2, e2, r2 = self.block(m, s.orelse, alias)
            once = weaken(join(join(f, e), r)) or {}
            if isinstance(s, ast.While):
                once = comp(once, weaken(head))
            fall = comp(comp(head, once), weaken(f2) or {})
            ex = join(e, e2)
            ra = join(r, r2)
            return fall, (comp(comp(head, once), ex) if ex is not None else None), \
                (comp(comp(head, once), ra) if ra is not None else None)
        if isinstance(s, ast.Try):
            f, e, r = self.block(m, s.body, alias)
            fo, eo, ro = self.block(m, s.orelse, alias)
            normal_f = comp(f, fo) if f is not None else None
            exits = join(e, comp(f, eo) if f is not None and eo is not None else None)
            raised = join(r, comp(f, ro) if f is not None and ro is not None else None)
            if s.handlers:
                weak = weaken(join(join(f, e), r)) or {}
                hf = he = hr = None
                for h in s.handlers:
                    f3, e3, r3 = self.block(m, h.body, alias)
                    hf, he, hr = join(hf, f3), join(he, e3), join(hr, r3)
                normal_f = join(normal_f, comp(weak, hf) if hf is not None else None)
                exits = join(exits, comp(weak, he) if he is not None else None)
                raised = comp(weak, hr) if hr is not None else None     # the handlers catch what the body raises
                if any(h.type is not None for h in s.handlers):          # .. unless it is of another type
                    raised = join(raised, r)
            ff, ef, rf_ = self.block(m, s.finalbody, alias)
            fin = ff if ff is not None else {}
            return (comp(normal_f, fin) if normal_f is not None else None), \
                   (comp(exits, fin) if exits is not None else None), \
                   (comp(raised, fin) if raised is not None else None)
        if isinstance(s, ast.With):
            out = {}
            for it in s.items:
                out = comp(out, E(it.context_expr))
                if it.optional_vars is not None:
                    out = comp(out, self.store(m, it.optional_vars, it.context_expr, alias))
            f, e, r = self.block(m, s.body, alias)
            return (comp(out, f) if f is not None else None), (comp(out, e) if e is not None else None), \
                   (comp(out, r) if r is not None else None)
        if isinstance(s, ast.Assert):
            return E(s.test), None, None
        if isinstance(s, ast.Delete):
            out = {}
            for t in s.targets:
                out = comp(out, self.store(m, t, None, alias))
            return out, None, None
        if isinstance(s, (ast.Pass, ast.Break, ast.Continue, ast.Import, ast.ImportFrom)):
            return {}, None, None
        self.gap(m, s, "statement kind %s" % type(s).__name__)
        return {}, None, None

    def bind_loop_target(self, t, r, alias):
        if isinstance(t, ast.Name):
            if r is not None:
                alias[t.id] = (r[0], r[1] + 1)
            else:
                alias.pop(t.id, None)
        elif isinstance(t, (ast.Tuple, ast.List)):
            for x in t.elts:
                self.bind_loop_target(x, r, alias)

    def method_summary(self, m):
        m.reads, m.stores, m.deep, m.delegates, m.calls = set(), set(), set(), set(), set()
        f, e, r = self.block(m, m.node.body, {})
        normal = join(f, e)
        allp = join(normal, r)
        if allp is None:
            return {}
        return {v: (x[0], x[1], (normal or {}).get(v, ID)[2] if normal is not None else True) for v, x in allp.items()}

    def run(self):
        for rnd in range(40):
            changed = False
            for name, m in self.methods.items():
                new = self.method_summary(m)
                old = self.summ[name]
                merged = {}
                for v in set(new) | set(old):
                    a, b = new.get(v, ID), old.get(v)
                    merged[v] = a if b is None else (a[0] or b[0], a[1] or b[1], a[2])
                if merged != old:
                    self.summ[name] = merged
                    changed = True
            if not changed:
                return rnd + 1
        self.gaps.append("%s: summaries do not stabilise" % self.cname)
        return -1

    def closure(self, name, what):
        """transitive (through self-calls) use set of a method"""
        seen, todo, out = set(), [name], set()
        while todo:
            n = todo.pop()
            if n in seen or n not in self.methods:
                continue
            seen.add(n)
            out |= getattr(self.methods[n], what)
            todo += list(self.methods[n].calls)
        return out


def load_class(repo, path, cname, gaps):
    with open(os.path.join(repo, path)) as fh:
        tree = ast.parse(fh.read())
    for n in tree.body:
        if isinstance(n, ast.ClassDef) and n.name == cname:
            return n
    gaps.append("%s: class %s not found" % (path, cname))
    return None


def analyse(repo):
    gaps = []
    out = {"classes": {}}
    for cname, path, bases in CLASSES:
        chain = [(cname, path)] + bases
        methods, classattrs = {}, {}
        for (cn, p) in reversed(chain):          # base first, the class itself overrides
            node = load_class(repo, p, cn, gaps)
            if node is None:
                continue
            for s in node.body:
                if isinstance(s, (ast.FunctionDef,)):
                    for sub in ast.walk(s):
                        if sub is not s and isinstance(sub, (ast.FunctionDef, ast.AsyncFunctionDef, ast.ClassDef,
                                                             ast.Lambda, ast.Global, ast.Nonlocal, ast.Yield,
                                                             ast.YieldFrom, ast.Await, ast.ListComp, ast.SetComp,
                                                             ast.DictComp, ast.GeneratorExp, ast.NamedExpr)):
                            gaps.append("%s.%s (line %s): %s inside a method" % (cn, s.name, sub.lineno,
                                                                                 type(sub).__name__))
                    if s.decorator_list:
                        gaps.append("%s.%s: decorated method" % (cn, s.name))
                    mm = Method(cn, s.name, s)
                    mm.selfname = s.args.args[0].arg if s.args.args else None
                    for d in s.args.defaults + [k for k in s.args.kw_defaults if k is not None]:
                        if mutability(d) in ("mut", "unk"):
                            mm.mutable_default = True
                    methods[s.name] = mm
                elif isinstance(s, (ast.Assign, ast.AnnAssign)):
                    targets = s.targets if isinstance(s, ast.Assign) else [s.target]
                    for t in targets:
                        if isinstance(t, ast.Name):
                            classattrs[t.id] = dict(mut=mutability(s.value), line=s.lineno, cls=cn)
                        else:
                            gaps.append("%s (line %s): class-body assignment to %s" % (cn, s.lineno, type(t).__name__))
                elif isinstance(s, ast.Expr) and isinstance(s.value, ast.Constant):
                    pass
                else:
                    gaps.append("%s (line %s): class-body statement %s" % (cn, s.lineno, type(s).__name__))
        an = Analysis(cname, methods, gaps)
        rounds = an.run()
        attrs = set(classattrs)
        for mm in methods.values():
            attrs |= mm.reads | mm.stores | mm.deep
        init = an.summ.get("__init__", {})
        info = {}
        for a in sorted(attrs):
            ca = classattrs.get(a)
            info[a] = dict(classLevel=ca is not None, mutableVal=bool(ca and ca["mut"] in ("mut", "unk")),
                           initAssigned=bool(init.get(a, ID)[2]),
                           writtenOutsideInit=any(an.summ[n].get(a, ID)[1] for n in methods if n != "__init__"))
        out["classes"][cname] = dict(path=path, rounds=rounds, attrs=info, an=an, methods=methods)
    out["gaps"] = gaps
    return out


def entry_of(an, seq):
    """summary of running the IR `seq` = list of ("call", name) | ("star", [names]) in order"""
    cur = {}
    for step in seq:
        if step[0] == "call":
            s = an.normal(step[1])
        else:
            s = None
            for n in step[1]:
                s = join(s, an.normal(n))
            s = weaken(s) or {}
        cur = comp(cur, s)
    return cur


def lean_str(s):
    return '"' + s.replace("\\", "\\\\").replace('"', '\\"') + '"'


def emit(res, out_lean, out_json=None):
    gaps = res["gaps"]
    names, idx = [], {}

    def intern(s):
        if s not in idx:
            idx[s] = len(names)
            names.append(s)
        return idx[s]
    cls = res["classes"]
    # ---- reuse table
    rvars, rentries = [], []
    for cname in ("NeuroMLHdf5Parser", "NeuroMLXMLParser", "NetworkBuilder"):
        c = cls[cname]
        for a, i in c["attrs"].items():
            rvars.append((intern("%s.%s" % (cname, a)), i))
    entries_spec = []
    h5 = cls["NeuroMLHdf5Parser"]
    for need in ("parse", "get_nml_doc"):
        if need not in h5["methods"]:
            gaps.append("NeuroMLHdf5Parser.%s not found" % need)
    entries_spec.append(("NeuroMLHdf5Parser", "NeuroMLHdf5Parser.parse;get_nml_doc",
                         [("call", "parse"), ("star", ["get_nml_doc"])]))
    if "parse" not in cls["NeuroMLXMLParser"]["methods"]:
        gaps.append("NeuroMLXMLParser.parse not found")
    entries_spec.append(("NeuroMLXMLParser", "NeuroMLXMLParser.parse", [("call", "parse")]))
    nb = cls["NetworkBuilder"]
    for hname in HANDLERS:
        if hname not in nb["methods"]:
            gaps.append("NetworkBuilder.%s not found" % hname)
    others = [hname for hname in HANDLERS[1:] if hname in nb["methods"]] + (
        ["get_nml_doc"] if "get_nml_doc" in nb["methods"] else [])
    entries_spec.append(("NetworkBuilder", "NetworkBuilder.<document build>",
                         [("call", "handle_document_start"), ("star", others)]))
    side_entries = []
    for cname, ename, seq in entries_spec:
        s = entry_of(cls[cname]["an"], seq)
        rbw = sorted(a for a, e in s.items() if e[0])
        wr = sorted(a for a, e in s.items() if e[1])
        rentries.append((intern(ename), [idx["%s.%s" % (cname, a)] for a in rbw], [idx["%s.%s" % (cname, a)] for a in wr]))
        side_entries.append(dict(name=ename, rbw=["%s.%s" % (cname, a) for a in rbw],
                                 writes=["%s.%s" % (cname, a) for a in wr]))
    # ---- does the first step of an entry assign everything the later steps read?
    def resets(cname, first, later_reads):
        s = cls[cname]["an"].normal(first)
        return sorted(a for a in later_reads if not s.get(a, ID)[2] and cls[cname]["attrs"][a]["writtenOutsideInit"])
    nb_an = nb["an"]
    later = set()
    for hname in others:
        later |= {a for a, e in nb_an.normal(hname).items() if e[0]}
    builder_stale = resets("NetworkBuilder", "handle_document_start", later) if "handle_document_start" in nb["methods"] else ["?"]
    h5_an = h5["an"]
    parse_s = h5_an.normal("parse")
    parser_stale = sorted(a for a, e in entry_of(h5_an, entries_spec[0][2]).items()
                          if e[0] and h5["attrs"][a]["writtenOutsideInit"])
    # ---- NetworkBuilder attribute table
    for t in TABLES:
        if t not in nb["attrs"]:
            gaps.append("NetworkBuilder.%s: the model's table attribute does not exist in the source" % t)
    battr = []
    for a, i in nb["attrs"].items():
        battr.append((intern("NetworkBuilder.%s" % a), i))
    touch, use = [], []
    for hname in HANDLERS + ["get_nml_doc"]:
        if hname not in nb["methods"]:
            continue
        r = nb_an.closure(hname, "reads")
        st = nb_an.closure(hname, "stores")
        dp = nb_an.closure(hname, "deep")
        touch.append((hname, sorted(r), sorted(st), sorted(dp)))
        if hname in HANDLERS:
            use.append((hname, [TABLES.index(a) for a in sorted(r, key=lambda x: TABLES.index(x) if x in TABLES else 99)
                                if a in TABLES],
                        [TABLES.index(a) for a in sorted(st, key=lambda x: TABLES.index(x) if x in TABLES else 99)
                         if a in TABLES],
                        [TABLES.index(a) for a in sorted(dp, key=lambda x: TABLES.index(x) if x in TABLES else 99)
                         if a in TABLES]))
    mutable_defaults = sorted("%s.%s" % (cn, mn) for cn in cls for mn, mm in cls[cn]["methods"].items()
                              if getattr(mm, "mutable_default", False))
    B = lambda b: "true" if b else "false"    # noqa: E731
    L = ["/- GENERATED by translators/handler_extract.py from the repository's current working tree -- do not edit. -/",
         "import NmlVerif.Model.NetBuilder", "namespace NmlVerif.Gen.Handlers", "open NmlVerif.Glue NmlVerif.NetBuilder", "",
         "def names : Array String := #[", ",\n".join("  " + lean_str(n) for n in names), "]", "",
         "/-- instance attributes of the two parsers and of the builder (state of ONE object) -/",
         "def reuseVars : List SharedVar := [",
         ",\n".join("  ⟨%d, .%s, %s, %s⟩" % (i, "classAttr" if a["classLevel"] else "instAttr", B(a["mutableVal"]),
                                            B(a["initAssigned"])) for i, a in rvars), "]", "",
         "/-- what a user does with one object: rbw = attributes possibly read before this use has assigned them -/",
         "def reuseEntries : List EntrySummary := [",
         ",\n".join("  ⟨%d, true, [%s], [%s]⟩" % (n, ", ".join(map(str, r)), ", ".join(map(str, w_)))
                    for n, r, w_ in rentries), "]", "",
         "def reuseTable : Table := ⟨reuseVars, reuseEntries⟩", "",
         "/-- `NetworkBuilder`: attribute, declared in a class body, with a mutable value, assigned by `__init__` on every path -/",
         "def builderAttrs : List AttrInfo := [",
         ",\n".join("  ⟨%d, %s, %s, %s⟩" % (i, B(a["classLevel"]), B(a["mutableVal"]), B(a["initAssigned"]))
                    for i, a in battr), "]", "",
         "/-- per handler method (self-calls followed): attributes read / stored into / mutated deeper -/",
         "def touch : List HandlerTouch := [",
         ",\n".join("  ⟨%s, [%s], [%s], [%s]⟩" % (lean_str(h_), ", ".join(str(idx["NetworkBuilder." + a]) for a in r),
                                                   ", ".join(str(idx["NetworkBuilder." + a]) for a in s_),
                                                   ", ".join(str(idx["NetworkBuilder." + a]) for a in d))
                    for h_, r, s_, d in touch), "]", "",
         "/-- ids of the model's seven tables (populations, projections, input_lists, projection_syns, projection_types,",
         "    projection_syns_pre, weightDelays); `names.size` stands for a table that no longer exists -/",
         "def tableIds : List Nat := [%s]" % ", ".join(str(idx.get("NetworkBuilder." + t, len(names))) for t in TABLES), "",
         "/-- handler -> the model's tables (0..6) it reads / stores into / mutates deeper -/",
         "def use : List (String × List Nat × List Nat × List Nat) := [",
         ",\n".join("  (%s, [%s], [%s], [%s])" % (lean_str(h_), ", ".join(map(str, r)), ", ".join(map(str, s_)),
                                                   ", ".join(map(str, d))) for h_, r, s_, d in use), "]", "",
         "/-- `handle_document_start` assigns (on every path) every attribute that later handler calls read -/",
         "def builderResets : Bool := %s" % B(not builder_stale), "",
         "/-- `parse` assigns, before reading it, every attribute that `parse; get_nml_doc` reads and a parse writes -/",
         "def parserResets : Bool := %s" % B(not parser_stale), "",
         "end NmlVerif.Gen.Handlers", ""]
    text = "\n".join(L)
    os.makedirs(os.path.dirname(out_lean), exist_ok=True)
    old = open(out_lean).read() if os.path.exists(out_lean) else None
    if old != text:
        with open(out_lean, "w") as fh:
            fh.write(text)
    side = dict(names=names, reuse_entries=side_entries, builder_stale=builder_stale, parser_stale=parser_stale,
                builder_attrs={a: i for a, i in nb["attrs"].items()},
                attrs={cn: cls[cn]["attrs"] for cn in cls},
                touch=[dict(handler=h_, reads=r, stores=s_, deep=d) for h_, r, s_, d in touch],
                use=[dict(handler=h_, reads=r, stores=s_, deep=d) for h_, r, s_, d in use],
                delegates={cn: sorted(set().union(*[mm.delegates for mm in cls[cn]["methods"].values()]))
                           for cn in cls},
                mutable_defaults=mutable_defaults,
                shared_tables=[t for t in TABLES if t in nb["attrs"] and nb["attrs"][t]["classLevel"]
                               and nb["attrs"][t]["mutableVal"] and not nb["attrs"][t]["initAssigned"]],
                gaps=gaps)
    written = set()
    for e in side_entries:
        written |= set(e["writes"])
    side["violating"] = sorted({v for e in side_entries for v in e["rbw"] if v in written})
    if out_json:
        with open(out_json, "w") as fh:
            json.dump(side, fh, indent=1)
    return side


def main(argv):
    repo = argv[1] if len(argv) > 1 else os.environ.get("VERIF_REPO", "/repo")
    here = os.path.dirname(os.path.dirname(os.path.abspath(__file__)))
    out = argv[2] if len(argv) > 2 else os.path.join(here, "lean", "NmlVerif", "Gen", "Handlers.lean")
    side = emit(analyse(repo), out, argv[3] if len(argv) > 3 else None)
    for k in ("violating", "builder_stale", "parser_stale", "shared_tables", "mutable_defaults", "delegates", "gaps"):
        print(k, side[k])
    for u in side["use"]:
        print(u)


if __name__ == "__main__":
    main(sys.argv)
