"""hdf5_layout_extract — the table layout of the HDF5 serialisation, read from the source on every run.

Reads with Python's `ast` (nothing is imported or executed) from the CURRENT working tree of the repository

  neuroml/nml/nml.py               exportHdf5 of Network, Population, Projection, ElectricalProjection,
                                   ContinuousProjection, InputList  +  `member_data_items_` of the network subtree
  neuroml/nml/helper_methods.py    the same six bodies inside the `inserts[...]` string constants (must give the
                                   same extraction)
  neuroml/hdf5/NeuroMLHdf5Parser.py  parse_group / start_group / end_group (name tests, attributes read) and the three
                                   branches of parse_dataset (column lookup, defaults, conversion, handler argument)
  neuroml/hdf5/NetworkBuilder.py   parameter names of handle_location / handle_connection / handle_single_input

and writes lean/NmlVerif/Gen/Hdf5Layout.lean:

  writer   group name prefix, group attributes (name, guard), `column_N` headers and the cells written in every row
           loop as a function of the layout guards (a small symbolic execution of the `cols` / `extra_cols` /
           `a[count, k] = …` bookkeeping, one run per guard assignment)
  reader   name tests, attributes read, per column: name, conversion (int / float / none), default (required / row
           number / constant) and the handler parameter the value is passed to
  members  (class, member) for every class of the network subtree.

`Props/C05Gen.lean` proves, per run: generated writer layout = hand model's (`projCols`, `gCols`, `ilCols`, `locCols`,
the row functions), generated reader table = hand model's reader table (which `decodeConnRow` / `decodeInpRow` /
`decodeLocRow` are proved to interpret), every written column is looked for by the reader under the same name, every
required column is always written, group prefixes agree, every declared member is classified.

A statement that is not understood is a *gap* (the check fails); nothing is skipped.
"""
import ast
import itertools
import os
import re

WRITER_CLASSES = ["Network", "Population", "Projection", "ElectricalProjection", "ContinuousProjection", "InputList"]
MEMBER_CLASSES = ["NeuroMLDocument", "Network", "Population", "Property", "Instance", "Location", "Projection", "Connection",
                  "ConnectionWD", "ElectricalProjection", "ElectricalConnection", "ElectricalConnectionInstance",
                  "ElectricalConnectionInstanceW", "ContinuousProjection", "ContinuousConnection",
                  "ContinuousConnectionInstance", "ContinuousConnectionInstanceW", "InputList", "Input", "InputW"]
# NeuroMLDocument: only the members that are not lists of top-level components (those travel as embedded XML)
DOC_KEEP = {"id", "metaid", "notes", "annotation", "networks"}


class Gap(Exception):
    pass


def src(node):
    return ast.unparse(node)


def const_str(node):
    if isinstance(node, ast.Constant) and isinstance(node.value, str):
        return node.value
    return None


# ------------------------------------------------------------------------------------------------ writer side
GUARDS = [
    (r"^self\.notes is not None$", "notesSet"),
    (r"^self\.temperature$", "temperatureTruthy"),
    (r"^len\(self\.instances\) > 0$", "hasInstances"),
    (r"^include_segment_fraction$", "sf"),
    (r"^connection_wds$", "wd"),
    (r"^len\(self\.electrical_connection_instance_ws\) > 0$", "w"),
    (r"^len\(self\.continuous_connection_instance_ws\) > 0$", "w"),
    (r"^len\(self\.input_ws\) > 0$", "w"),
    (r"^len\(a\) > 0$", "rowsNonEmpty"),
]
LOCAL_BOOL = {
    "connection_wds": r"^len\(self\.connection_wds\) > 0$",
    "include_segment_fraction": r"^neuroml\.utils\.has_segment_fraction_info\(self\.connections\) or "
                                r"neuroml\.utils\.has_segment_fraction_info\(self\.connection_wds\)$",
}
IGNORED_ASSIGN = {"num_tot", "count", "syn", "pre_comp", "post_comp", "delay", "colCount"}


class Run:
    """one symbolic execution of an exportHdf5 body under a guard assignment"""

    def __init__(self, cls, guards):
        self.cls, self.guards, self.used = cls, dict(guards), []
        self.group = None            # (prefix constant, plus_id: bool)
        self.attrs = []              # (name, source expr, guard path)
        self.cols = None             # int
        self.extra = []              # (col index, name)
        self.header = []             # (col index, name)
        self.init = []               # (col index, constant)
        self.cells = {}              # loop list name -> [(col, source)]
        self.array = False
        self.refusals = []           # (condition source, message)
        self.children = []           # lists whose items are exported, in order
        self.delay_rule = []
        self.path = []
        self.zeros_cols = None

    def guard(self, test):
        s = src(test)
        for rx, name in GUARDS:
            if re.match(rx, s):
                if name not in self.guards:
                    raise NeedGuard(name)
                if name not in self.used:
                    self.used.append(name)
                return name, self.guards[name]
        return None, None

    def intval(self, node):
        """value of an integer expression over `cols`"""
        if isinstance(node, ast.Constant) and isinstance(node.value, int):
            return node.value
        if isinstance(node, ast.Name) and node.id == "cols":
            if self.cols is None:
                raise Gap("%s: `cols` used before assignment" % self.cls)
            return self.cols
        if isinstance(node, ast.Name) and node.id == "colCount":
            return self.colcount
        if isinstance(node, ast.BinOp) and isinstance(node.op, (ast.Add, ast.Sub)):
            a, b = self.intval(node.left), self.intval(node.right)
            return a + b if isinstance(node.op, ast.Add) else a - b
        raise Gap("%s: integer expression not understood: %s" % (self.cls, src(node)))

    def colkey(self, node):
        """`"column_" + str(<int expr>)` or the constant "column_N" -> N"""
        s = const_str(node)
        if s is not None and re.fullmatch(r"column_\d+", s):
            return int(s[len("column_"):])
        if isinstance(node, ast.BinOp) and isinstance(node.op, ast.Add) and const_str(node.left) == "column_" \
                and isinstance(node.right, ast.Call) and src(node.right.func) == "str" and len(node.right.args) == 1:
            return self.intval(node.right.args[0])
        raise Gap("%s: column key not understood: %s" % (self.cls, src(node)))


class NeedGuard(Exception):
    def __init__(self, name):
        self.name = name


def exec_block(run, stmts, loop=None):
    for st in stmts:
        exec_stmt(run, st, loop)


def exec_stmt(run, st, loop):
    cls = run.cls
    if isinstance(st, ast.Expr) and isinstance(st.value, ast.Constant):
        return                                                            # docstring
    if isinstance(st, ast.Raise):
        msg = ""
        if isinstance(st.exc, ast.Call) and st.exc.args and const_str(st.exc.args[0]) is not None:
            msg = const_str(st.exc.args[0])
        run.refusals.append((" and ".join(run.path), src(st.exc.func) if isinstance(st.exc, ast.Call) else src(st.exc), msg))
        return
    if isinstance(st, ast.If):
        s = src(st.test)
        # refusal guards of Network / mixed synapse checks: record, do not fork
        if all(isinstance(x, ast.Raise) for x in st.body) and not st.orelse:
            run.path.append(s)
            exec_block(run, st.body, loop)
            run.path.pop()
            return
        if loop is not None and re.match(r"^'ms' in connection\.delay$", s):
            run.delay_rule = delay_chain(cls, st)
            return
        name, val = run.guard(st.test)
        if name is None:
            raise Gap("%s: condition not understood: %s" % (cls, s))
        exec_block(run, st.body if val else st.orelse, loop)
        return
    if isinstance(st, ast.For):
        it = src(st.iter)
        m = re.fullmatch(r"self\.(\w+)", it)
        if m and loop is None:
            lst = m.group(1)
            # children export / property attributes / row loops
            if len(st.body) == 1 and isinstance(st.body[0], ast.Expr) and isinstance(st.body[0].value, ast.Call) \
                    and src(st.body[0].value.func).endswith(".exportHdf5"):
                run.children.append(lst)
                return
            if lst == "properties":
                exec_block(run, st.body, loop=None)
                return
            run.cells[lst] = []
            exec_block(run, st.body, loop=lst)
            return
        if re.fullmatch(r"extra_cols(\.keys\(\))?", it) and isinstance(st.target, ast.Name):
            v = st.target.id
            if len(st.body) == 1 and src(st.body[0]) == "array._f_setattr(%s, extra_cols[%s])" % (v, v):
                if not run.array:
                    raise Gap("%s: column attributes set before the array exists" % cls)
                run.header += run.extra
                return
        # the mixed-synapse refusal: `for connection in A + B + C: if …: raise`
        if all(isinstance(x, ast.If) and all(isinstance(y, ast.Raise) for y in x.body) and not x.orelse for x in st.body):
            run.path.append("for %s in %s" % (src(st.target), it))
            exec_block(run, st.body, loop)
            run.path.pop()
            return
        raise Gap("%s: loop not understood: for %s in %s" % (cls, src(st.target), it))
    if isinstance(st, ast.AugAssign):
        t = src(st.target)
        if t == "cols" and isinstance(st.op, ast.Add):
            run.cols += run.intval(st.value)
            return
        if t == "count" and isinstance(st.op, ast.Add) and src(st.value) == "1":
            return
        raise Gap("%s: augmented assignment not understood: %s" % (cls, src(st)))
    if isinstance(st, ast.Assign) and len(st.targets) == 1:
        tgt, val = st.targets[0], st.value
        t = src(tgt)
        if isinstance(tgt, ast.Name):
            if t == "cols":
                run.cols = run.intval(val)
                return
            if t == "colCount":
                run.colcount = run.intval(val)
                return
            if t == "extra_cols" and src(val) == "{}":
                run.extra = []
                return
            if t in LOCAL_BOOL:
                if not re.match(LOCAL_BOOL[t], src(val)):
                    raise Gap("%s: definition of `%s` changed: %s" % (cls, t, src(val)))
                return
            if t == "a" and isinstance(val, ast.Call) and src(val.func) == "numpy.zeros":
                shape = val.args[0]
                if not (isinstance(shape, ast.List) and len(shape.elts) == 2 and src(val.args[1]) == "numpy.float32"):
                    raise Gap("%s: array creation not understood: %s" % (cls, src(val)))
                run.zeros_cols = run.intval(shape.elts[1])
                run.zeros_rows = src(shape.elts[0])
                return
            if t == "array" and isinstance(val, ast.Call) and src(val.func) == "h5file.create_carray":
                if not (len(val.args) == 2 and src(val.args[1]) == "self.id" and
                        any(k.arg == "obj" and src(k.value) == "a" for k in val.keywords)):
                    raise Gap("%s: create_carray call not understood: %s" % (cls, src(val)))
                if src(val.args[0]) != run.groupvar:
                    raise Gap("%s: array created in another group: %s" % (cls, src(val)))
                run.array = True
                return
            if isinstance(val, ast.Call) and src(val.func) == "h5file.create_group":
                nm = val.args[1]
                if const_str(nm) is not None:
                    run.group = (const_str(nm), False)
                elif isinstance(nm, ast.BinOp) and isinstance(nm.op, ast.Add) and const_str(nm.left) is not None \
                        and src(nm.right) == "self.id":
                    run.group = (const_str(nm.left), True)
                else:
                    raise Gap("%s: group name not understood: %s" % (cls, src(nm)))
                if src(val.args[0]) != "h5Group":
                    raise Gap("%s: group created elsewhere: %s" % (cls, src(val)))
                run.groupvar = t
                return
            if t in IGNORED_ASSIGN:
                if t in ("syn", "pre_comp", "post_comp"):
                    run.first_of = getattr(run, "first_of", {})
                    run.first_of[t] = src(val)
                return
            raise Gap("%s: assignment not understood: %s" % (cls, src(st)))
        if isinstance(tgt, ast.Subscript):
            base = src(tgt.value)
            if base == "extra_cols":
                name = const_str(val)
                if name is None:
                    raise Gap("%s: column name is not a constant: %s" % (cls, src(st)))
                run.extra.append((run.colkey(tgt.slice), name))
                return
            if base == "a" and isinstance(tgt.slice, ast.Tuple) and len(tgt.slice.elts) == 2:
                r, c = tgt.slice.elts
                col = run.intval(c)
                if isinstance(r, ast.Slice) and r.lower is None and r.upper is None and loop is None:
                    if not (isinstance(val, ast.Constant) and isinstance(val.value, int)):
                        raise Gap("%s: column initialiser not a constant: %s" % (cls, src(st)))
                    run.init.append((col, val.value))
                    return
                if src(r) == "count" and loop is not None:
                    run.cells[loop].append((col, src(val)))
                    return
            raise Gap("%s: subscript assignment not understood: %s" % (cls, src(st)))
    if isinstance(st, ast.Expr) and isinstance(st.value, ast.Call):
        c = st.value
        f = src(c.func)
        if f.endswith("._f_setattr") and len(c.args) == 2:
            who = f[:-len("._f_setattr")]
            if who == "array":
                name = const_str(c.args[1])
                if name is None or not run.array:
                    raise Gap("%s: column attribute not understood: %s" % (cls, src(st)))
                run.header.append((run.colkey(c.args[0]), name))
                return
            if who == getattr(run, "groupvar", None):
                k = c.args[0]
                nm = const_str(k)
                if nm is None:
                    if isinstance(k, ast.BinOp) and const_str(k.left) is not None:
                        nm = const_str(k.left) + "<" + src(k.right) + ">"
                    else:
                        raise Gap("%s: attribute name not understood: %s" % (cls, src(k)))
                run.attrs.append((nm, src(c.args[1]), "&".join("%s=%s" % (g, int(run.guards[g])) for g in run.used)))
                return
    raise Gap("%s: statement not understood: %s" % (cls, src(st)[:120]))


def delay_chain(cls, st):
    """the `'ms' in connection.delay … elif 's' … elif 'us'` cascade -> [(unit, cut, factor source)]"""
    out = []
    node = st
    while True:
        m = re.fullmatch(r"'(\w+)' in connection\.delay", src(node.test))
        if not m or len(node.body) != 1:
            raise Gap("%s: delay cascade not understood: %s" % (cls, src(node.test)))
        b = src(node.body[0])
        m2 = re.fullmatch(r"delay = float\(connection\.delay\[:(-\d)\]\.strip\(\)\)(?: ([*/]) ([0-9.e]+))?", b)
        if not m2:
            raise Gap("%s: delay conversion not understood: %s" % (cls, b))
        out.append((m.group(1), int(m2.group(1)), (m2.group(2) or "*"), (m2.group(3) or "1")))
        if len(node.orelse) == 1 and isinstance(node.orelse[0], ast.If):
            node = node.orelse[0]
        elif not node.orelse:
            break
        else:
            raise Gap("%s: delay cascade has an else branch" % cls)
    return out


def run_all(cls, fn):
    """all runs of one exportHdf5 body: one per assignment of the guards that are met"""
    results, todo = [], [{}]
    while todo:
        g = todo.pop()
        r = Run(cls, g)
        try:
            exec_block(r, fn.body)
        except NeedGuard as ng:
            for v in (False, True):
                todo.append({**g, ng.name: v})
            continue
        if r.array and r.zeros_cols is not None:
            hdr = sorted(r.header)
            if [k for k, _ in hdr] != list(range(r.zeros_cols)):
                raise Gap("%s: %s: header columns %s do not cover the %d columns of the array" %
                          (cls, g, [k for k, _ in hdr], r.zeros_cols))
        results.append(r)
    results.sort(key=lambda r: sorted(r.guards.items()))
    return results


def writer_functions(tree_classes):
    out = {}
    for cls in WRITER_CLASSES:
        fn = tree_classes.get(cls)
        if fn is None:
            raise Gap("no exportHdf5 found for %s" % cls)
        if [a.arg for a in fn.args.args] != ["self", "h5file", "h5Group"]:
            raise Gap("%s.exportHdf5: signature changed" % cls)
        out[cls] = run_all(cls, fn)
    return out


def nml_export_fns(path):
    tree = ast.parse(open(path).read())
    out = {}
    for node in tree.body:
        if isinstance(node, ast.ClassDef) and node.name in WRITER_CLASSES:
            for ch in node.body:
                if isinstance(ch, ast.FunctionDef) and ch.name == "exportHdf5":
                    out[node.name] = ch
    return out, tree


def helper_export_fns(path):
    tree = ast.parse(open(path).read())
    out = {}
    for node in tree.body:
        if isinstance(node, ast.Assign) and len(node.targets) == 1 and isinstance(node.targets[0], ast.Subscript) \
                and src(node.targets[0].value) == "inserts":
            cls = const_str(node.targets[0].slice)
            body = const_str(node.value)
            if cls in WRITER_CLASSES and body is not None:
                text = "class X:\n    def exportHdf5(self, h5file, h5Group):\n        pass\n" + body
                sub = ast.parse(text)
                fn = sub.body[0].body[0]
                fn.body = [s for s in fn.body if not isinstance(s, ast.Pass)]
                out[cls] = fn
    return out


def canon_runs(runs):
    return {cls: [(sorted(r.guards.items()), r.group, r.attrs, sorted(r.header), sorted(r.init),
                   {k: v for k, v in r.cells.items()}, r.array, r.refusals, r.children, r.delay_rule,
                   getattr(r, "first_of", {})) for r in rs] for cls, rs in runs.items()}


# ------------------------------------------------------------------------------------------------ members
def members_of(tree):
    classes = {n.name: n for n in tree.body if isinstance(n, ast.ClassDef)}
    out = []

    def own(cn):
        node = classes[cn]
        res, sup = [], None
        for ch in node.body:
            if isinstance(ch, ast.Assign) and len(ch.targets) == 1 and isinstance(ch.targets[0], ast.Name):
                if ch.targets[0].id == "member_data_items_":
                    if not isinstance(ch.value, ast.List):
                        raise Gap("%s.member_data_items_ is not a list literal" % cn)
                    for e in ch.value.elts:
                        if not (isinstance(e, ast.Call) and src(e.func) == "MemberSpec_" and const_str(e.args[0])):
                            raise Gap("%s: member spec not understood: %s" % (cn, src(e)[:80]))
                        res.append(const_str(e.args[0]))
                if ch.targets[0].id == "superclass":
                    sup = None if src(ch.value) == "None" else src(ch.value)
        return res, sup
    for cn in MEMBER_CLASSES:
        if cn not in classes:
            raise Gap("class %s not found in nml.py" % cn)
        chain, c = [], cn
        while c is not None:
            ms, sup = own(c)
            chain.append(ms)
            c = sup
        names = [m for ms in reversed(chain) for m in ms]
        if cn == "NeuroMLDocument":
            names = [m for m in names if m in DOC_KEEP]
        out += [(cn, m) for m in names]
    return out


# ------------------------------------------------------------------------------------------------ reader side
def reader_extract(parser_path, builder_path):
    tree = ast.parse(open(parser_path).read())
    cls = [n for n in tree.body if isinstance(n, ast.ClassDef) and n.name == "NeuroMLHdf5Parser"]
    if not cls:
        raise Gap("class NeuroMLHdf5Parser not found")
    fns = {f.name: f for f in cls[0].body if isinstance(f, ast.FunctionDef)}
    btree = ast.parse(open(builder_path).read())
    bcls = [n for n in btree.body if isinstance(n, ast.ClassDef) and n.name == "NetworkBuilder"][0]
    bfns = {f.name: f for f in bcls.body if isinstance(f, ast.FunctionDef)}

    # --- name tests
    tests = {}

    def name_tests(fn, var):
        found = []
        for node in ast.walk(fn):
            if isinstance(node, ast.Call) and isinstance(node.func, ast.Attribute) and src(node.func.value) == var + "._v_name" \
                    and node.args and const_str(node.args[0]) is not None:
                found.append((node.func.attr, const_str(node.args[0])))
            if isinstance(node, ast.Compare) and src(node.left) == var + "._v_name" and len(node.comparators) == 1 \
                    and const_str(node.comparators[0]) is not None:
                found.append(("==", const_str(node.comparators[0])))
        return found
    for f, var in (("parse_group", "node"), ("start_group", "g"), ("end_group", "g")):
        if f not in fns:
            raise Gap("NeuroMLHdf5Parser.%s not found" % f)
        tests[f] = name_tests(fns[f], var)
    allt = sorted({t for f in tests for t in tests[f] if t[0] != "=="})
    modes = {m for m, _ in allt}
    if len(modes) != 1:
        raise Gap("name tests use different methods: %s" % sorted(allt))
    mode = modes.pop()
    if mode not in ("startswith", "count"):
        raise Gap("name test method not understood: %s" % mode)
    prefixes = sorted({p for _, p in allt})
    for f in ("start_group", "end_group"):
        if sorted({p for m, p in tests[f] if m != "=="}) != prefixes:
            raise Gap("%s tests %s, not %s" % (f, sorted({p for m, p in tests[f] if m != '=='}), prefixes))
    if sorted({p for m, p in tests["parse_group"]}) != ["population_"]:
        raise Gap("parse_group orders groups by %s" % tests["parse_group"])

    # --- attributes read in start_group, by branch
    sg = fns["start_group"]
    rattrs = {}

    def branch_key(test):
        s = src(test)
        m = re.findall(r"g\._v_name\.(?:startswith|count)\('(\w+)'\)", s)
        if m:
            return m[0]
        m = re.fullmatch(r"g\._v_name == '(\w+)'", s)
        return m.group(1) if m else None
    for st in sg.body:
        if isinstance(st, ast.If):
            k = branch_key(st.test)
            if k is None:
                raise Gap("start_group: branch not understood: %s" % src(st.test))
            names = []
            for node in ast.walk(st):
                if isinstance(node, ast.Call) and src(node.func) == "get_str_attribute_group" and len(node.args) == 2:
                    nm = const_str(node.args[1])
                    names.append(nm if nm is not None else "<" + src(node.args[1]) + ">")
                if isinstance(node, ast.Attribute) and src(node.value) == "g._v_attrs" and node.attr == "size":
                    names.append("size")
                if isinstance(node, ast.Call) and src(node.func) == "self._get_node_size":
                    names.append("size")
            rattrs[k] = sorted(set(names))

    # --- parse_dataset
    pd = fns["parse_dataset"]
    branches = {}
    for st in pd.body:
        if isinstance(st, ast.If):
            node = st
            while True:
                s = src(node.test)
                m = re.fullmatch(r"self\.(currPopulation|currentProjectionId|currInputList) != ''", s)
                if not m:
                    raise Gap("parse_dataset: branch not understood: %s" % s)
                inner = [x for x in node.body if isinstance(x, ast.If)]
                if len(inner) != 1 or src(inner[0].test) != "not self.optimized":
                    raise Gap("parse_dataset: `if not self.optimized` not found in branch %s" % m.group(1))
                branches[m.group(1)] = inner[0].body
                if len(node.orelse) == 1 and isinstance(node.orelse[0], ast.If):
                    node = node.orelse[0]
                else:
                    if node.orelse:
                        raise Gap("parse_dataset: else branch")
                    break
    want = {"currPopulation": "handle_location", "currentProjectionId": "handle_connection",
            "currInputList": "handle_single_input"}
    if set(branches) != set(want):
        raise Gap("parse_dataset branches: %s" % sorted(branches))
    specs, fallbacks, extra = {}, [], {}
    for bk, handler in want.items():
        specs[bk], fb, ex = reader_branch(bk, branches[bk], handler, bfns)
        fallbacks += fb
        extra[bk] = ex
    return {"mode": mode, "prefixes": prefixes, "attrs": rattrs, "specs": specs, "fallbacks": fallbacks, "extra": extra}


def reader_branch(bk, body, handler, bfns):
    """-> [(column name, conv, default, handler parameter)]"""
    idx_init, var_init, name_to_idx = {}, {}, {}
    var_from = {}        # value variable -> (index var, conv, dflt, guard op)
    call = None
    fallbacks = []
    extra = {}
    rowvar = None

    def read_expr(e):
        """int(row[ix]) | float(d[i, ix]) | row[ix]  ->  (ix, conv)"""
        conv = "raw"
        if isinstance(e, ast.Call) and src(e.func) in ("int", "float") and len(e.args) == 1:
            conv = src(e.func)
            e = e.args[0]
        if isinstance(e, ast.Subscript):
            b = src(e.value)
            if b == rowvar and isinstance(e.slice, ast.Name):
                return e.slice.id, conv
            if b == "d" and isinstance(e.slice, ast.Tuple) and len(e.slice.elts) == 2 and src(e.slice.elts[0]) == "i" \
                    and isinstance(e.slice.elts[1], ast.Name):
                return e.slice.elts[1].id, conv
        return None, None

    def walk_row(stmts):
        nonlocal call, rowvar
        for st in stmts:
            s = src(st)
            if isinstance(st, ast.Assign) and len(st.targets) == 1 and isinstance(st.targets[0], ast.Name):
                t, v = st.targets[0].id, st.value
                if s == "row = d[i, :]":
                    rowvar = "row"
                    continue
                if isinstance(v, ast.IfExp):
                    ix, conv = read_expr(v.body)
                    m = re.fullmatch(r"(\w+) (>=|>) 0", src(v.test))
                    if ix and m and m.group(1) == ix and src(v.orelse) == "i":
                        var_from[t] = (ix, conv, "rowIndex", m.group(2))
                        continue
                ix, conv = read_expr(v)
                if ix:
                    var_from[t] = (ix, conv, "required", None)
                    continue
                raise Gap("parse_dataset/%s: row statement not understood: %s" % (bk, s))
            if isinstance(st, ast.If):
                m = re.fullmatch(r"(\w+) (>=|>) 0", src(st.test))
                if m and len(st.body) == 1 and isinstance(st.body[0], ast.Assign):
                    t = src(st.body[0].targets[0])
                    ix, conv = read_expr(st.body[0].value)
                    if ix == m.group(1):
                        if st.orelse:
                            if len(st.orelse) == 1 and isinstance(st.orelse[0], ast.Assign) and src(st.orelse[0].targets[0]) == t:
                                dfl = src(st.orelse[0].value)
                                if dfl == "i":
                                    dfl = "rowIndex"
                            else:
                                raise Gap("parse_dataset/%s: else branch not understood: %s" % (bk, src(st)))
                        elif t in var_init:
                            dfl = var_init[t]
                        else:
                            raise Gap("parse_dataset/%s: no default for %s" % (bk, t))
                        var_from[t] = (ix, conv, dfl, m.group(2))
                        continue
                raise Gap("parse_dataset/%s: row condition not understood: %s" % (bk, src(st.test)))
            if isinstance(st, ast.Expr) and isinstance(st.value, ast.Call):
                f = src(st.value.func)
                if f.startswith("self.log."):
                    continue
                if f == "self.netHandler." + handler:
                    call = st.value
                    continue
            raise Gap("parse_dataset/%s: row statement not understood: %s" % (bk, s[:100]))

    for st in body:
        s = src(st)
        if isinstance(st, ast.Assign) and len(st.targets) == 1 and isinstance(st.targets[0], ast.Name):
            t, v = st.targets[0].id, src(st.value)
            if t.startswith("index") and v == "-1":
                idx_init[t] = -1
                continue
            if re.fullmatch(r"-?[0-9.]+", v):
                var_init[t] = v
                continue
            if t == "type" or (t == "extraParamIndices" and v == "{}"):
                continue
            raise Gap("parse_dataset/%s: assignment not understood: %s" % (bk, s))
        if isinstance(st, ast.For) and src(st.iter) == "d.attrs._v_attrnames":
            for node in ast.walk(st):
                if isinstance(node, ast.If):
                    m = re.fullmatch(r"val == '(\w+)' or val\[0\] == '(\w+)'", src(node.test))
                    if m:
                        if m.group(1) != m.group(2) or len(node.body) != 1:
                            raise Gap("parse_dataset/%s: column test not understood: %s" % (bk, src(node.test)))
                        b = src(node.body[0])
                        m2 = re.fullmatch(r"(\w+) = int\(attrName\[len\('column_'\):\]\)", b)
                        if not m2:
                            raise Gap("parse_dataset/%s: column index assignment not understood: %s" % (bk, b))
                        if m.group(1) in name_to_idx:
                            raise Gap("parse_dataset/%s: column %s tested twice" % (bk, m.group(1)))
                        name_to_idx[m.group(1)] = m2.group(1)
            continue
        if isinstance(st, ast.For) and re.fullmatch(r"range\((0, )?d\.shape\[0\]\)", src(st.iter)):   # range(0, n) = range(n)
            rowvar = rowvar or "row"
            # the location branch calls the handler with the reads inline
            if bk == "currPopulation":
                if len(st.body) != 1:
                    raise Gap("parse_dataset/currPopulation: row loop not understood")
                call = st.body[0].value
            else:
                walk_row(st.body)
            continue
        if isinstance(st, ast.If) and not st.orelse and isinstance(st.test, ast.BoolOp) and isinstance(st.test.op, ast.And) \
                and len(st.test.values) == 2 and re.fullmatch(r"(index\w+) < 0", src(st.test.values[0])):
            # `if A and B: S` (no else) is `if A: if B: S`: `and` evaluates B only when A holds, exactly like the nesting
            st = ast.If(test=st.test.values[0], body=[ast.If(test=st.test.values[1], body=st.body, orelse=[])], orelse=[])
        if isinstance(st, ast.If):
            m = re.fullmatch(r"(index\w+) < 0", src(st.test))
            if m and bk == "currPopulation":
                for inner in st.body:
                    m2 = re.fullmatch(r"len\(d\[0\]\) == (\d)", src(inner.test)) if isinstance(inner, ast.If) else None
                    if not m2 or len(inner.body) != 1:
                        raise Gap("parse_dataset/currPopulation: fallback not understood: %s" % src(inner)[:80])
                    m3 = re.fullmatch(r"(index\w+) = (\d)", src(inner.body[0]))
                    if not m3:
                        raise Gap("parse_dataset/currPopulation: fallback assignment not understood")
                    fallbacks.append((m.group(1), int(m2.group(1)), m3.group(1), int(m3.group(2))))
                continue
            if src(st.test) == "self.nml_doc_extra_elements":
                continue
        if isinstance(st, ast.Expr) and isinstance(st.value, ast.Call):
            f = src(st.value.func)
            if f.startswith("self.log."):
                continue
            if f == "self.netHandler.handle_projection":
                for k in st.value.keywords:
                    if k.arg in ("hasWeights", "hasDelays"):
                        extra[k.arg] = src(k.value)
                continue
            if f == "self.netHandler.finalise_input_source":
                continue
        raise Gap("parse_dataset/%s: statement not understood: %s" % (bk, s[:100]))
    if call is None:
        raise Gap("parse_dataset/%s: call of %s not found" % (bk, handler))
    params = [a.arg for a in bfns[handler].args.args][1:]
    binding = {}
    for k, a in enumerate(call.args):
        binding[params[k]] = a
    for kw in call.keywords:
        binding[kw.arg] = kw.value
    idx_to_name = {v: k for k, v in name_to_idx.items()}
    out = []
    for prm in params:
        if prm not in binding:
            continue
        a = binding[prm]
        if bk == "currPopulation":
            rowvar_local = None
            if isinstance(a, ast.IfExp):
                ix, conv = None, None
                e = a.body
                if isinstance(e, ast.Call) and src(e.func) in ("int", "float"):
                    conv, e = src(e.func), e.args[0]
                if isinstance(e, ast.Subscript) and src(e.value) == "d" and isinstance(e.slice, ast.Tuple):
                    ix = src(e.slice.elts[1])
                m = re.fullmatch(r"(\w+) (>=|>) 0", src(a.test))
                if ix and m and m.group(1) == ix and src(a.orelse) == "i":
                    out.append((idx_to_name.get(ix, "?" + ix), conv, "rowIndex", prm, m.group(2)))
                    continue
            e, conv = a, "raw"
            if isinstance(e, ast.Call) and src(e.func) in ("int", "float"):
                conv, e = src(e.func), e.args[0]
            if isinstance(e, ast.Subscript) and src(e.value) == "d" and isinstance(e.slice, ast.Tuple):
                ix = src(e.slice.elts[1])
                out.append((idx_to_name.get(ix, "?" + ix), conv, "required", prm, ""))
                continue
            if isinstance(a, ast.Attribute):
                continue                                   # self.currPopulation, self.currentComponent
            raise Gap("parse_dataset/currPopulation: handler argument not understood: %s" % src(a))
        if isinstance(a, ast.Name) and a.id in var_from:
            ix, conv, dfl, op = var_from[a.id]
            if ix not in idx_to_name:
                raise Gap("parse_dataset/%s: index variable %s is never set from a column name" % (bk, ix))
            out.append((idx_to_name[ix], conv, dfl, prm, op or ""))
            continue
        if isinstance(a, ast.Attribute) and src(a).startswith("self.curr"):
            continue
        raise Gap("parse_dataset/%s: handler argument not understood: %s" % (bk, src(a)))
    used = {o[0] for o in out}
    for nm in name_to_idx:
        if nm not in used:
            raise Gap("parse_dataset/%s: column %s is looked up but never used" % (bk, nm))
    return out, fallbacks, extra


# ------------------------------------------------------------------------------------------------ emit
def lstr(s):
    return '"' + s.replace("\\", "\\\\").replace('"', '\\"') + '"'


def llist(items, per_line=4, indent="  "):
    if not items:
        return "[]"
    lines, cur = [], []
    for it in items:
        cur.append(it)
        if len(cur) == per_line:
            lines.append(", ".join(cur))
            cur = []
    if cur:
        lines.append(", ".join(cur))
    return "[\n" + indent + (",\n" + indent).join(lines) + "]"


def rat_of(v):
    from fractions import Fraction
    f = Fraction(v)
    return "(%d : Rat)" % f.numerator if f.denominator == 1 else "((%d : Rat) / %d)" % (f.numerator, f.denominator)


LOOPS = {"Population": ["instances"], "Projection": ["connections", "connection_wds"],
         "ElectricalProjection": ["electrical_connections", "electrical_connection_instances",
                                  "electrical_connection_instance_ws"],
         "ContinuousProjection": ["continuous_connections", "continuous_connection_instances",
                                  "continuous_connection_instance_ws"],
         "InputList": ["input", "input_ws"]}
GUARD_ORDER = {"Network": ["notesSet", "temperatureTruthy"], "Population": ["hasInstances"], "Projection": ["sf", "wd"],
               "ElectricalProjection": ["w"], "ContinuousProjection": ["w"], "InputList": ["w"]}


def emit(runs, reader, members):
    o = []
    o.append("/-! GENERATED by translators/hdf5_layout_extract.py from neuroml/nml/nml.py (= helper_methods.py), "
             "neuroml/hdf5/NeuroMLHdf5Parser.py, neuroml/hdf5/NetworkBuilder.py — do not edit. -/")
    o.append("namespace NmlVerif.Gen.Hdf5Layout\n")
    # prefixes
    o.append("/-- writer: (class, group name prefix, followed by the id?) -/")
    o.append("def wGroup : List (String × String × Bool) := " + llist(
        ["(%s, %s, %s)" % (lstr(c), lstr(runs[c][0].group[0]), "true" if runs[c][0].group[1] else "false")
         for c in WRITER_CLASSES], 3))
    o.append("\n/-- reader: how a group name is tested (`startswith` / `count`), and for which words -/")
    o.append("def rNameTest : String := %s" % lstr(reader["mode"]))
    o.append("def rPrefixes : List String := " + llist([lstr(p) for p in reader["prefixes"]]))
    o.append("\n/-- order in which `Network.exportHdf5` writes its children -/")
    o.append("def wChildren : List String := " + llist([lstr(c) for c in runs["Network"][0].children], 3))
    o.append("\n/-- refusals: (class, condition, exception, message) -/")
    ref = []
    for c in WRITER_CLASSES:
        for (cond, exc, msg) in runs[c][-1].refusals:
            ref.append("(%s, %s, %s, %s)" % (lstr(c), lstr(cond), lstr(exc), lstr(msg)))
    o.append("def wRefusals : List (String × String × String × String) := " + llist(ref, 1))
    # per class
    for c in WRITER_CLASSES:
        gs = GUARD_ORDER[c]
        rs = runs[c]
        met = sorted({g for r in rs for g in r.guards})
        if sorted(met) != sorted(g for g in gs) and not set(met) <= set(gs + ["rowsNonEmpty"]):
            raise Gap("%s: guards met %s, expected %s" % (c, met, gs))
        params = " ".join("(%s : Bool)" % g for g in gs)

        def table(fn):
            """match over the guards"""
            if not gs:
                return fn(rs[0])
            lines = ["match %s with" % ", ".join(gs)]
            for vals in itertools.product([False, True], repeat=len(gs)):
                cand = [r for r in rs if all(r.guards.get(g, v) == v for g, v in zip(gs, vals)) and r.guards.get("rowsNonEmpty", True)]
                if not cand:
                    raise Gap("%s: no run for guards %s" % (c, dict(zip(gs, vals))))
                lines.append("  | %s => %s" % (", ".join("true" if v else "false" for v in vals), fn(cand[0])))
            return "\n  ".join(lines)
        o.append("\n/-! ### %s -/" % c)
        o.append("/-- group attributes written, in order: (name, source expression) -/")
        o.append("def wAttrs%s %s : List (String × String) :=\n  %s" % (
            c, params, table(lambda r: "[" + ", ".join("(%s, %s)" % (lstr(a[0]), lstr(a[1])) for a in r.attrs) + "]")))
        if c == "Network":
            continue
        o.append("/-- does the group get an array? -/")
        o.append("def wArray%s %s : Bool :=\n  %s" % (c, params, table(lambda r: "true" if r.array else "false")))
        o.append("/-- `column_N` attributes of the array -/")
        o.append("def wCols%s %s : List (Nat × String) :=\n  %s" % (
            c, params, table(lambda r: "[" + ", ".join("(%d, %s)" % (k, lstr(n)) for k, n in sorted(r.header)) + "]")))
        o.append("/-- columns initialised for every row before the loops -/")
        o.append("def wInit%s %s : List (Nat × Int) :=\n  %s" % (
            c, params, table(lambda r: "[" + ", ".join("(%d, %d)" % (k, v) for k, v in sorted(r.init)) + "]")))
        for lp in LOOPS[c]:
            nm = "".join(w.capitalize() for w in lp.split("_"))
            o.append("/-- cells written per row of `self.%s`: (column, source expression) -/" % lp)
            o.append("def wCells%s%s %s : List (Nat × String) :=\n  %s" % (
                c, nm, params, table(lambda r, lp=lp: "[" + ", ".join("(%d, %s)" % (k, lstr(e)) for k, e in r.cells.get(lp, [])) + "]")))
        for r in rs:
            for lp in r.cells:
                if lp not in LOOPS[c]:
                    raise Gap("%s: unexpected row loop over self.%s" % (c, lp))
        if c == "Projection":
            dr = rs[-1].delay_rule
            o.append("/-- the delay cascade, in the order tested: (substring tested, characters cut, operator, factor) -/")
            o.append("def wDelayRule : List (String × Int × String × String) := " + llist(
                ["(%s, %d, %s, %s)" % (lstr(u), cut, lstr(op), lstr(fac)) for (u, cut, op, fac) in dr], 2))
        if c in ("ElectricalProjection", "ContinuousProjection"):
            fo = getattr(rs[0], "first_of", {})
            o.append("/-- group attributes taken from the first connection: (variable, expression) -/")
            o.append("def wFirst%s : List (String × String) := " % c + llist(
                ["(%s, %s)" % (lstr(k), lstr(v)) for k, v in sorted(fo.items())], 1))
    # reader
    o.append("\n/-! ### reader -/")
    o.append("/-- attributes read in `start_group`, by branch -/")
    o.append("def rAttrs : List (String × List String) := " + llist(
        ["(%s, [%s])" % (lstr(k), ", ".join(lstr(x) for x in v)) for k, v in sorted(reader["attrs"].items())], 1))
    names = {"currPopulation": "Loc", "currentProjectionId": "Conn", "currInputList": "Inp"}
    for bk, nm in names.items():
        o.append("/-- parse_dataset, %s branch: (column name, conversion, default, handler parameter, test on the index) -/" % bk)
        o.append("def r%s : List (String × String × String × String × String) := " % nm + llist(
            ["(%s, %s, %s, %s, %s)" % tuple(lstr(str(x)) for x in row) for row in reader["specs"][bk]], 1))
    o.append("/-- location table without column names: (index tested, row width, index assigned, value) -/")
    o.append("def rLocFallback : List (String × Nat × String × Nat) := " + llist(
        ["(%s, %d, %s, %d)" % (lstr(a), w, lstr(b), v) for (a, w, b, v) in reader["fallbacks"]], 2))
    ex = reader["extra"]["currentProjectionId"]
    o.append("def rHasWeights : String := %s" % lstr(ex.get("hasWeights", "")))
    o.append("def rHasDelays : String := %s" % lstr(ex.get("hasDelays", "")))
    # members
    o.append("\n/-! ### members declared by nml.py for the classes of the network subtree -/")
    o.append("def members : List (String × String) := " + llist(["(%s, %s)" % (lstr(c), lstr(m)) for c, m in members], 3))
    o.append("\nend NmlVerif.Gen.Hdf5Layout\n")
    return "\n".join(o)


def regenerate(repo, out_path):
    gaps = []
    try:
        nml_fns, nml_tree = nml_export_fns(os.path.join(repo, "neuroml", "nml", "nml.py"))
        runs = writer_functions(nml_fns)
        hruns = writer_functions(helper_export_fns(os.path.join(repo, "neuroml", "nml", "helper_methods.py")))
        if canon_runs(runs) != canon_runs(hruns):
            a, b = canon_runs(runs), canon_runs(hruns)
            bad = [c for c in WRITER_CLASSES if a[c] != b[c]]
            gaps.append("exportHdf5 of %s differs between nml.py and helper_methods.py" % ", ".join(bad))
        reader = reader_extract(os.path.join(repo, "neuroml", "hdf5", "NeuroMLHdf5Parser.py"),
                                os.path.join(repo, "neuroml", "hdf5", "NetworkBuilder.py"))
        members = members_of(nml_tree)
        text = emit(runs, reader, members)
    except Gap as g:
        return ["hdf5_layout_extract: " + str(g)]
    old = open(out_path).read() if os.path.exists(out_path) else None
    if old != text:
        with open(out_path, "w") as fh:
            fh.write(text)
    regenerate.info = {"classes": WRITER_CLASSES, "runs": {c: len(rs) for c, rs in runs.items()},
                       "members": len(members), "reader_columns": {k: len(v) for k, v in reader["specs"].items()},
                       "shape_found": {"name_test": reader["mode"],
                                       "writer_refusals": sum(len(rs[-1].refusals) for rs in runs.values()),
                                       "loc_fallback_4col_z": [f[2] for f in reader["fallbacks"] if f[0] == "indexZ" and f[1] == 4]}}
    return gaps


if __name__ == "__main__":
    import sys
    repo = sys.argv[1] if len(sys.argv) > 1 else "/repo"
    out = sys.argv[2] if len(sys.argv) > 2 else "/dev/stdout"
    print(regenerate(repo, out))
