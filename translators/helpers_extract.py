#!/venv/bin/python
"""C20 translator: helper-method sources / shipped bindings / schema / version strings -> Lean tables.

    helpers_extract.py [REPO] [OUT.lean]        (defaults: $VERIF_REPO or /repo, <verif>/lean/NmlVerif/Gen/Regen.lean)

Reads (never imports `neuroml`, never writes into REPO):
  neuroml/nml/nml.py                 generation header (generateDS command line) + every class body
  neuroml/nml/<--user-methods file>  evaluated as DATA (plain Python, loaded by path under a private module name):
                                     METHOD_SPECS -> class_names, interpolated source
  neuroml/__version__.py             current_neuroml_version
  neuroml/nml/NeuroML_<version>.xsd  complexType / simpleType names
  neuroml/nml/name_table.csv         generateDS NameTable additions (generateds_config.py saves them there)
  neuroml/writers.py                 the schemaLocation template and its `%` operand
  neuroml/nml/regenerate-nml.sh      version extraction pipeline, SCHEMA_FILE template, generateDS options
  neuroml/nml/<--custom-imports-template file>   the imports the helper methods rely on

Normalisation (the substance of C20, *validated not verified*): a class-body statement is
    ast.parse -> docstrings of every def/class removed -> ast.dump(include_attributes=False)
so formatting, comments, quoting and docstrings vanish while any change to a statement, signature, decorator,
default or annotation changes the dump. digest = first 16 bytes of SHA-256 of the dump, as a Nat.

Which statements of a binding class are "user" statements (derived from generateDS.generateClasses, which calls, in
this order: doc string, __hash__, member_data_items_, subclass/superclass, ctor, factory, validators, has__content,
export functions, validate_ methods, build functions, and LAST generateUserMethods): everything AFTER the class's
`def _buildChildren` is user text. Statements BEFORE it are generated iff they are the doc string, an assignment to
one of GENERATED_ASSIGN or `validate_<simpleType>_patterns_`, or a def whose name is in GENERATED_DEFS or
`validate_<simpleType of the schema>`; anything
else found before `_buildChildren` is also reported as a user statement (so a method pasted higher up is not hidden).
"""
import ast
import csv
import hashlib
import importlib.util
import io
import keyword
import os
import re
import shlex
import sys
import xml.etree.ElementTree as ET

XS = "{http://www.w3.org/2001/XMLSchema}"
GENERATED_DEFS = {"__init__", "factory", "has__content", "export", "_exportAttributes", "_exportChildren",
                  "validate_", "build", "_buildAttributes", "_buildChildren"}
GENERATED_ASSIGN = {"__hash__", "member_data_items_", "subclass", "superclass", "factory", "__slots__"}
SUPPORT_CLASSES = ["GDSParseError", "MixedContainer", "MemberSpec_"]     # generateDS boiler-plate classes
# generateDS.NameTable before generateds_config is applied
BUILTIN_NAMETABLE = {"type": "type_", "float": "float_", "build": "build_", "range": "range_", "set": "set_"}
BUILTIN_NAMETABLE.update({kw: kw + "_" for kw in keyword.kwlist})
SENTINEL_CLASS = "C20SentinelClassName"

# The MethodSpec methods that the Lean model (`NmlVerif.Regen.insertionRule`, interpolation in this translator) mirrors,
# as `ast.unparse` text after removing doc strings and bare string statements. If one of these changes, the hand model
# must be re-derived (the correspondence stream of harness/props/c20.py says on which input it differs) and re-pinned.
PINNED = {
    "__init__": "def __init__(self, name='', source='', class_names='', class_names_compiled=None):\n"
                "    self.name = name\n    self.source = source\n    self.class_names = class_names",
    "match_name": "def match_name(self, class_name):\n"
                  "    if self.class_names == class_name or (isinstance(self.class_names, list) and "
                  "class_name in self.class_names):\n"
                  "        return True\n    else:\n        return False",
    "get_interpolated_source": "def get_interpolated_source(self, values_dict):\n"
                               "    source = self.source % values_dict\n"
                               "    source = source.replace('PERCENTAGE', '%')\n    return source",
}


def pin_text(fn):
    fn = strip_docstrings(fn)
    fn.body = [s for s in fn.body if not (isinstance(s, ast.Expr) and isinstance(s.value, ast.Constant))] or [ast.Pass()]
    return ast.unparse(fn)


# ------------------------------------------------------------------------------------------------ normalisation
def strip_docstrings(node):
    for n in ast.walk(node):
        if isinstance(n, (ast.FunctionDef, ast.AsyncFunctionDef, ast.ClassDef, ast.Module)):
            b = n.body
            if b and isinstance(b[0], ast.Expr) and isinstance(b[0].value, ast.Constant) \
                    and isinstance(b[0].value.value, str):
                n.body = b[1:] or [ast.Pass()]
    return node


def norm_dump(stmt):
    """normalised text of one statement (the input is modified: docstrings are stripped in place)"""
    return ast.dump(strip_docstrings(stmt), annotate_fields=True, include_attributes=False)


def digest_of(dump):
    return int.from_bytes(hashlib.sha256(dump.encode("utf-8")).digest()[:16], "big")


def item_name(stmt):
    if isinstance(stmt, (ast.FunctionDef, ast.AsyncFunctionDef, ast.ClassDef)):
        return stmt.name
    if isinstance(stmt, (ast.Assign, ast.AnnAssign, ast.AugAssign)):
        tg = stmt.targets if isinstance(stmt, ast.Assign) else [stmt.target]
        return "<assign " + ",".join(ast.unparse(t) for t in tg) + ">"
    return "<%s>" % type(stmt).__name__


def items_of(stmts):
    """[(name, digest, stmt)] for class-body statements"""
    out = []
    for s in stmts:
        out.append((item_name(s), digest_of(norm_dump(s)), s))
    return out


def body_of_source(source):
    """class-body statements of a MethodSpec source (the text is pasted into a class body verbatim)"""
    tree = ast.parse("class _C20:\n    pass\n" + source)
    if len(tree.body) != 1 or not isinstance(tree.body[0], ast.ClassDef):
        raise ValueError("source leaves the class body (dedented statement)")
    return tree.body[0].body[1:]


# ------------------------------------------------------------------------------------------------ first difference
_BLOCKS = ("body", "orelse", "finalbody")


def _header(stmt):
    """dump of a compound statement without its nested statement lists"""
    cp = {}
    for f, v in ast.iter_fields(stmt):
        if f in _BLOCKS or f == "handlers" or f == "cases":
            continue
        cp[f] = ast.dump(v) if isinstance(v, ast.AST) else (
            [ast.dump(x) if isinstance(x, ast.AST) else repr(x) for x in v] if isinstance(v, list) else repr(v))
    return type(stmt).__name__, cp


def _head_text(stmt):
    t = ast.unparse(stmt)
    if isinstance(stmt, (ast.FunctionDef, ast.AsyncFunctionDef, ast.ClassDef)):
        ls = t.split("\n")
        k = next((i for i, l in enumerate(ls) if l.startswith(("def ", "async def ", "class "))), 0)
        return " ".join(ls[:k + 1]) + "  ..."
    if any(getattr(stmt, b, None) for b in _BLOCKS) or getattr(stmt, "handlers", None) or getattr(stmt, "cases", None):
        return t.split("\n")[0] + "  ..."
    return t


def first_diff(a, b, path=""):
    """first differing normalised statement of two statements (docstrings must already be stripped).
    Returns None or {"where", "helper", "shipped"} with ast.unparse text (compound statements: header line)."""
    if ast.dump(a) == ast.dump(b):
        return None
    if type(a) is not type(b) or _header(a) != _header(b):
        return {"where": path or "<statement>", "helper": _head_text(a), "shipped": _head_text(b)}
    subs = []
    for blk in _BLOCKS:
        subs.append((blk, getattr(a, blk, None) or [], getattr(b, blk, None) or []))
    for nm in ("handlers", "cases"):
        ha, hb = getattr(a, nm, None) or [], getattr(b, nm, None) or []
        if len(ha) != len(hb):
            return {"where": path + "/" + nm, "helper": "%d %s" % (len(ha), nm), "shipped": "%d %s" % (len(hb), nm)}
        for i, (x, y) in enumerate(zip(ha, hb)):
            if ast.dump(x) != ast.dump(y):
                hx = {f: ast.dump(v) if isinstance(v, ast.AST) else repr(v) for f, v in ast.iter_fields(x) if f != "body"}
                hy = {f: ast.dump(v) if isinstance(v, ast.AST) else repr(v) for f, v in ast.iter_fields(y) if f != "body"}
                if hx != hy:
                    return {"where": "%s/%s[%d]" % (path, nm, i), "helper": ast.unparse(x).split("\n")[0],
                            "shipped": ast.unparse(y).split("\n")[0]}
                subs.append(("%s[%d].body" % (nm, i), x.body, y.body))
    for blk, la, lb in subs:
        for i in range(max(len(la), len(lb))):
            p = "%s/%s[%d]" % (path, blk, i)
            if i >= len(la):
                return {"where": p, "helper": "<no statement>", "shipped": _head_text(lb[i])}
            if i >= len(lb):
                return {"where": p, "helper": _head_text(la[i]), "shipped": "<no statement>"}
            d = first_diff(la[i], lb[i], p)
            if d:
                return d
    return {"where": path or "<statement>", "helper": _head_text(a), "shipped": _head_text(b)}


def compare_items(expected, shipped):
    """expected/shipped: [(name, digest, stmt)] in order. Returns a list of differences, each
    {"kind": differs|order|missing-in-bindings|only-in-bindings, "method", "index", ...}; [] when identical."""
    en, gn = [x[0] for x in expected], [x[0] for x in shipped]
    out = []
    if en == gn:
        for i, (e, g) in enumerate(zip(expected, shipped)):
            if e[1] != g[1]:
                d = first_diff(e[2], g[2]) or {}
                out.append({"kind": "differs", "method": e[0], "index": i, "first_difference": d})
        return out
    if sorted(en) == sorted(gn):
        k = next(i for i in range(len(en)) if en[i] != gn[i])
        return [{"kind": "order", "method": gn[k], "index": k, "expected_order": en, "shipped_order": gn}]
    import difflib
    sm = difflib.SequenceMatcher(a=en, b=gn, autojunk=False)
    for tag, i1, i2, j1, j2 in sm.get_opcodes():
        if tag == "equal":
            for k in range(i2 - i1):
                e, g = expected[i1 + k], shipped[j1 + k]
                if e[1] != g[1]:
                    out.append({"kind": "differs", "method": e[0], "index": j1 + k,
                                "first_difference": first_diff(e[2], g[2]) or {}})
            continue
        for k in range(i1, i2):
            out.append({"kind": "missing-in-bindings", "method": en[k], "index": k,
                        "helper": _head_text(expected[k][2])})
        for k in range(j1, j2):
            out.append({"kind": "only-in-bindings", "method": gn[k], "index": k,
                        "shipped": _head_text(shipped[k][2])})
    return out


# ------------------------------------------------------------------------------------------------ helper_methods.py
def load_helper_module(path):
    name = "c20_helper_methods_%s" % hashlib.sha1((path + str(os.stat(path).st_mtime_ns)).encode()).hexdigest()[:10]
    spec = importlib.util.spec_from_file_location(name, path)
    mod = importlib.util.module_from_spec(spec)
    old = sys.stdout
    sys.stdout = io.StringIO()
    try:
        spec.loader.exec_module(mod)
    finally:
        sys.stdout = old
    return mod


def class_names_repr(cn):
    """mirror of what `match_name` can see: a str, a list (of anything; non-str entries never equal a class name), other"""
    if isinstance(cn, str):
        return {"kind": "str", "v": cn}
    if isinstance(cn, list):
        return {"kind": "list", "v": [x if isinstance(x, str) else "<non-str %r>" % (x,) for x in cn]}
    return {"kind": "other", "v": repr(cn)[:80]}


def named_classes(cnr):
    return [cnr["v"]] if cnr["kind"] == "str" else (list(cnr["v"]) if cnr["kind"] == "list" else [])


def interpolate(spec, class_name):
    """exactly generateDS.generateUserMethods: spec.get_interpolated_source({'class_name': name})"""
    return spec.get_interpolated_source({"class_name": class_name})


def extract_specs(hm_path, gaps):
    mod = load_helper_module(hm_path)
    specs = getattr(mod, "METHOD_SPECS", None)
    if specs is None:
        gaps.append("%s defines no METHOD_SPECS" % hm_path)
        return [], None
    # the MethodSpec methods the Lean model mirrors
    tree = ast.parse(open(hm_path).read())
    pins = {}
    for n in tree.body:
        if isinstance(n, ast.ClassDef) and n.name == "MethodSpec":
            for f in n.body:
                if isinstance(f, ast.FunctionDef) and f.name in PINNED:
                    pins[f.name] = pin_text(f)
    for k, v in PINNED.items():
        if pins.get(k) != v:
            gaps.append("MethodSpec.%s is not the function the Lean model mirrors: re-derive "
                        "NmlVerif.Regen.insertionRule / the interpolation and re-pin. Found: %s"
                        % (k, (pins.get(k) or "<no such method>").replace("\n", " | ")[:300]))
    out = []
    for idx, sp in enumerate(specs):
        cnr = class_names_repr(sp.class_names)
        variants = {}
        for cn in [SENTINEL_CLASS] + named_classes(cnr):
            try:
                src = interpolate(sp, cn)
                variants[cn] = items_of(body_of_source(src))
            except Exception as e:  # noqa
                gaps.append("METHOD_SPECS[%d] (%s): source cannot be interpolated/parsed for class %s: %r"
                            % (idx, getattr(sp, "name", "?"), cn, e))
                variants[cn] = []
        base = [(a, b) for a, b, _ in variants[SENTINEL_CLASS]]
        # second pass: `%(class_name)s` is modelled — one row per named class whose interpolated source yields other
        # statements than the sentinel interpolation (Lean: `Spec.perClass`, `Spec.itemsFor`)
        per_class = []
        for cn in named_classes(cnr):
            its = variants.get(cn, [])
            if [(a, b) for a, b, _ in its] != base and cn not in [c for c, _ in per_class]:
                per_class.append((cn, its))
        out.append({"index": idx, "name": str(sp.name), "class_names": cnr, "items": variants[SENTINEL_CLASS],
                    "per_class": per_class, "uses_class_name": bool(per_class)})
    return out, mod


# ------------------------------------------------------------------------------------------------ nml.py
def parse_header(text, gaps):
    lines = []
    for ln in text.split("\n"):
        if ln.startswith("#") or not ln.strip():
            lines.append(ln)
        else:
            break
    h = {"options": [], "arguments": [], "command_line": "", "generateds_version": ""}
    mode = None
    for ln in lines:
        s = ln[1:].strip() if ln.startswith("#") else ""
        m = re.match(r"Generated .* by generateDS\.py version ([\w.]+)\.?$", s)
        if m:
            h["generateds_version"] = m.group(1).rstrip(".")
        if s == "Command line options:":
            mode = "opt"
        elif s == "Command line arguments:":
            mode = "arg"
        elif s == "Command line:":
            mode = "cmd"
        elif s.startswith("Current working directory"):
            mode = None
        elif s and mode == "opt":
            try:
                t = ast.literal_eval(s)
                h["options"].append([str(t[0]), str(t[1])])
            except Exception:  # noqa
                gaps.append("nml.py header: cannot read option line %r" % s)
        elif s and mode == "arg":
            h["arguments"].append(s)
        elif s and mode == "cmd":
            h["command_line"] = s
    if not h["options"] or not h["arguments"] or not h["command_line"]:
        gaps.append("nml.py header: generateDS command line not found")
    return h


def parse_cmdline(tokens):
    """generateDS argv (without argv[0]) -> ([[opt, val]], [args]) (getopt conventions used by generateDS)"""
    opts, args = [], []
    i = 0
    while i < len(tokens):
        t = tokens[i]
        if t.startswith("--"):
            if "=" in t:
                k, v = t.split("=", 1)
                opts.append([k, v])
            else:
                opts.append([t, ""])
        elif t.startswith("-") and len(t) == 2:
            if t in ("-o", "-s", "-p", "-a", "-c"):
                opts.append([t, tokens[i + 1] if i + 1 < len(tokens) else ""])
                i += 1
            else:
                opts.append([t, ""])
        else:
            args.append(t)
        i += 1
    return opts, args


def assigned_names(stmt):
    if isinstance(stmt, ast.Assign):
        return [t.id for t in stmt.targets if isinstance(t, ast.Name)]
    if isinstance(stmt, ast.AnnAssign) and isinstance(stmt.target, ast.Name):
        return [stmt.target.id]
    return []


def split_class_body(cls, simple_types, gaps):
    """-> (user statements in source order, index of _buildChildren or None)"""
    idx = [i for i, s in enumerate(cls.body) if isinstance(s, ast.FunctionDef) and s.name == "_buildChildren"]
    if len(idx) != 1:
        gaps.append("class %s: %d definitions of _buildChildren (the user-method boundary)" % (cls.name, len(idx)))
        if not idx:
            return list(cls.body), None
    cut = idx[0]
    user = []
    for i, s in enumerate(cls.body[:cut + 1]):
        gen = False
        if i == 0 and isinstance(s, ast.Expr) and isinstance(s.value, ast.Constant) and isinstance(s.value.value, str):
            gen = True
        elif isinstance(s, ast.FunctionDef):
            gen = s.name in GENERATED_DEFS or (s.name.startswith("validate_") and s.name[9:] in simple_types)
        elif assigned_names(s) and all(
                a in GENERATED_ASSIGN or (a.startswith("validate_") and a.endswith("_patterns_")
                                          and a[9:-10] in simple_types) for a in assigned_names(s)):
            gen = True
        if not gen:
            user.append(s)
    return user + list(cls.body[cut + 1:]), cut


# module-level imports written by generateDS itself (TEMPLATE_HEADER of generateDS.py); every other module-level
# import of nml.py must come from the --custom-imports-template file (and vice versa)
GENERATED_IMPORTS = {"import sys", "import os", "import re as re_", "import base64", "import datetime as datetime_",
                     "import decimal as decimal_", "from lxml import etree as etree_",
                     "from six.moves import zip_longest", "from itertools import zip_longest"}


def import_lines(tree):
    """module-level import statements, one alias each, as normalised text"""
    out = []
    for n in tree.body:
        if isinstance(n, ast.Import):
            for a in n.names:
                out.append(ast.unparse(ast.Import(names=[a])))
        elif isinstance(n, ast.ImportFrom):
            for a in n.names:
                out.append(ast.unparse(ast.ImportFrom(module=n.module, names=[a], level=n.level)))
    return out


def extract_bindings(nml_path, simple_types, gaps):
    text = open(nml_path).read()
    header = parse_header(text, gaps)
    tree = ast.parse(text)
    header["imports"] = [x for x in import_lines(tree) if x not in GENERATED_IMPORTS]
    binding, other = [], []
    for n in tree.body:
        if not isinstance(n, ast.ClassDef):
            continue
        names = set()
        for s in n.body:
            names.update(assigned_names(s))
        has_mdi, has_sub = "member_data_items_" in names, "subclass" in names
        if has_mdi != has_sub:
            gaps.append("class %s: member_data_items_ %s but subclass marker %s" % (n.name, has_mdi, has_sub))
        if has_mdi or has_sub:
            user, _ = split_class_body(n, simple_types, gaps)
            binding.append({"name": n.name, "items": items_of(user), "bases": [ast.unparse(b) for b in n.bases]})
        else:
            other.append(n.name)
    return header, binding, other


# ------------------------------------------------------------------------------------------------ schema
def load_nametable(nml_dir, gaps):
    table = dict(BUILTIN_NAMETABLE)
    p = os.path.join(nml_dir, "name_table.csv")
    if not os.path.exists(p):
        gaps.append("name_table.csv missing (generateds_config NameTable)")
        return table
    with open(p, newline="") as fh:
        for row in csv.reader(fh):
            if len(row) >= 2:
                table[row[0]] = row[1]
    return table


def cleanup_name(n):
    return re.sub("[-:.]", "_", n)          # generateDS.CleanupNameList default


def map_type_name(n, table):
    """XsdElement: unmappedCleanName = cleanupName(name); cleanName = mapName(...); class name = cleanupName(cleanName)"""
    c = cleanup_name(n)
    return cleanup_name(table.get(c, c))


def extract_schema(xsd_path, table, gaps):
    root = ET.parse(xsd_path).getroot()
    cts, raw, bases, flags = [], [], [], []
    for e in root.iter(XS + "complexType"):
        nm = e.get("name")
        if nm is None:
            gaps.append("schema has an anonymous complexType (class naming for these is not translated)")
            continue
        raw.append(nm)
        cts.append(map_type_name(nm, table))
        # second pass: the extension base (generateDS makes it the Python base class)
        b = []
        for cc in e:
            if cc.tag in (XS + "complexContent", XS + "simpleContent"):
                for x in cc:
                    if x.tag in (XS + "extension", XS + "restriction") and x.get("base"):
                        b.append((cc.tag.split("}")[1], x.tag.split("}")[1], x.get("base")))
        if len(b) > 1:
            gaps.append("complexType %s has %d content derivations" % (nm, len(b)))
        base = None
        if b:
            q = b[0][2]
            pref, _, local = q.rpartition(":")
            if pref in ("xs", "xsd"):
                base = None                      # built-in simple type: no Python base class
            else:
                base = map_type_name(local, table)
            if b[0][1] != "extension":
                gaps.append("complexType %s derives by %s (only extension is translated)" % (nm, b[0][1]))
        bases.append((map_type_name(nm, table), base))
        if e.get("abstract") is not None or e.get("mixed") is not None:
            flags.append((nm, e.get("abstract"), e.get("mixed")))
    sts = [e.get("name") for e in root.iter(XS + "simpleType") if e.get("name")]
    enums = []
    for e in root.iter(XS + "simpleType"):
        if e.get("name") and any(True for _ in e.iter(XS + "enumeration")):
            enums.append(cleanup_name(e.get("name")))
    for e in root:
        if e.tag in (XS + "include", XS + "import", XS + "redefine"):
            gaps.append("schema uses %s (%s): included types are not translated" % (e.tag.split('}')[1], e.attrib))
    return {"complex_raw": raw, "complex": cts, "simple": sts, "enums": enums, "bases": bases, "flags": flags}


# ------------------------------------------------------------------------------------------------ version strings
def extract_current_version(path, gaps):
    tree = ast.parse(open(path).read())
    vals = []
    for n in ast.walk(tree):
        if assigned_names(n) == ["current_neuroml_version"] and isinstance(n.value, ast.Constant) \
                and isinstance(n.value.value, str):
            vals.append(n.value.value)
    if len(vals) != 1:
        gaps.append("__version__.py: %d string assignments to current_neuroml_version" % len(vals))
    return vals[-1] if vals else ""


def script_version_pipeline(version_py_text):
    """grep -E 'current_neuroml_version.*' | cut -d '=' -f 2 | tr -d '"' | tr -d ' '   (regenerate-nml.sh)"""
    out = []
    for ln in version_py_text.split("\n"):
        if re.search(r"current_neuroml_version.*", ln):
            parts = ln.split("=")
            f2 = parts[1] if len(parts) > 1 else ln    # cut prints the whole line when there is no delimiter
            out.append(f2.replace('"', "").replace(" ", ""))
    return "\n".join(out)


def extract_script(path, version_py_text, gaps):
    text = open(path).read()
    r = {"version": "", "pre": "", "post": "", "options": [], "argument": "", "greps_version_file": False}
    m = re.search(r"^NEUROML_VERSION=\$\((.*)\)\s*$", text, re.M)
    expected = ("grep -E 'current_neuroml_version.*' ../__version__.py | cut -d '=' -f 2 | tr -d '\"' | tr -d ' '")
    if m and m.group(1).strip() == expected:
        r["greps_version_file"] = True
        r["version"] = script_version_pipeline(version_py_text)
    else:
        gaps.append("regenerate-nml.sh: NEUROML_VERSION is not computed by the translated grep|cut|tr pipeline")
    m = re.search(r"^SCHEMA_FILE=(\S*)\s*$", text, re.M)
    if m and m.group(1).count("${NEUROML_VERSION}") == 1:
        r["pre"], r["post"] = m.group(1).split("${NEUROML_VERSION}")
    else:
        gaps.append("regenerate-nml.sh: SCHEMA_FILE is not a template over ${NEUROML_VERSION}")
    cmds = [ln.strip() for ln in text.split("\n") if re.search(r"(^|\s)generateDS\s+-", ln)
            and not re.search(r"generateDS\s+--version\s*$", ln)]
    if len(cmds) != 1:
        gaps.append("regenerate-nml.sh: %d generateDS invocations" % len(cmds))
    else:
        toks = shlex.split(cmds[0])
        toks = toks[toks.index("generateDS") + 1:]
        opts, args = parse_cmdline(toks)
        r["options"] = opts
        if args == ["$SCHEMA_FILE"]:
            r["argument"] = "$SCHEMA_FILE"
        else:
            gaps.append("regenerate-nml.sh: generateDS is not run on $SCHEMA_FILE but on %r" % (args,))
    return r


def extract_writer(writers_path, init_path, gaps):
    tree = ast.parse(open(writers_path).read())
    found = []
    for n in ast.walk(tree):
        if isinstance(n, ast.BinOp) and isinstance(n.op, ast.Mod) and isinstance(n.left, ast.Constant) \
                and isinstance(n.left.value, str) and "schemaLocation" in n.left.value:
            found.append((n.left.value, ast.unparse(n.right)))
    r = {"template": "", "operand": "", "namespace": "", "pre": "", "post": ""}
    consts = [n.value for n in ast.walk(tree) if isinstance(n, ast.Constant) and isinstance(n.value, str)
              and "schemaLocation" in n.value]
    if len(found) != 1 or len(consts) != 1:
        gaps.append("writers.py: %d schemaLocation templates (%d string constants)" % (len(found), len(consts)))
        return r
    r["template"], r["operand"] = found[0]
    m = re.search(r'schemaLocation="(\S+)\s+(\S+)"', r["template"])
    if not m:
        gaps.append("writers.py: schemaLocation template is not 'namespace url'")
        return r
    r["namespace"] = m.group(1)
    base = m.group(2).rsplit("/", 1)[-1]
    if base.count("%s") != 1 or r["template"].count("%") != 1:
        gaps.append("writers.py: schemaLocation file name is not a template with one %s")
        return r
    r["pre"], r["post"] = base.split("%s")
    if r["operand"] != "neuroml.current_neuroml_version":
        gaps.append("writers.py: schemaLocation is filled from %s, not neuroml.current_neuroml_version" % r["operand"])
    it = ast.parse(open(init_path).read())
    ok = any(isinstance(n, ast.ImportFrom) and n.module == "__version__" and n.level == 1
             and any(a.name == "current_neuroml_version" and (a.asname in (None, "current_neuroml_version"))
                     for a in n.names) for n in it.body)
    if not ok:
        gaps.append("neuroml/__init__.py does not re-export .__version__.current_neuroml_version")
    return r


# ------------------------------------------------------------------------------------------------ occurrences
OCC_RE = re.compile(r"NeuroML_?[A-Za-z0-9_.%${}]*?\.xsd")
OCC_SKIP_DIRS = ("test", "examples", "__pycache__")


def extract_occurrences(repo, current, script_version, gaps):
    """grep-like: every occurrence of a schema file name (literal or template) in the package's code — *.py, *.sh,
    *.cfg/*.toml/*.in under neuroml/ (tests, examples and prose *.md excluded; of nml.py only the generation header, the
    body mentions no schema file) — plus the version declaration itself. -> [{"file","line","what","schema_file","role"}]
    A template is filled by the value it is filled with at run time (`%s %% neuroml.current_neuroml_version` ->
    current version, `${NEUROML_VERSION}` -> what the script's own pipeline yields); anything else is a gap."""
    occ = [{"file": "neuroml/__version__.py", "line": 0, "what": "current_neuroml_version = %r" % current,
            "schema_file": "NeuroML_%s.xsd" % current, "role": "schema"}]
    root = os.path.join(repo, "neuroml")
    for dp, dn, fn in os.walk(root):
        dn[:] = sorted(d for d in dn if d not in OCC_SKIP_DIRS)
        for f in sorted(fn):
            if not f.endswith((".py", ".sh", ".cfg", ".toml", ".in")):
                continue
            p = os.path.join(dp, f)
            rel = os.path.relpath(p, repo)
            try:
                text = open(p, encoding="utf-8", errors="replace").read()
            except OSError:
                continue
            if rel == os.path.join("neuroml", "nml", "nml.py"):
                head = []
                for ln in text.split("\n"):
                    if ln.startswith("#") or not ln.strip():
                        head.append(ln)
                    else:
                        break
                body = text[len("\n".join(head)):]
                toks = OCC_RE.findall(body)        # the generated type -> schema-file table at the end of the file
                for tok in sorted(set(toks)):
                    if "%" in tok or "$" in tok:
                        gaps.append("nml.py body: schema file template %r is not understood" % tok)
                    occ.append({"file": rel, "line": -1, "what": "%d occurrences of %r in the generated body"
                                % (toks.count(tok), tok), "schema_file": tok, "role": "schema"})
                text = "\n".join(head)
            for i, ln in enumerate(text.split("\n"), 1):
                for m in OCC_RE.finditer(ln):
                    tok = m.group(0)
                    role = "schema"
                    if "%s" in tok:
                        if "current_neuroml_version" in "".join(text.split("\n")[i - 1:i + 2]):
                            val = tok.replace("%s", current)
                        else:
                            gaps.append("%s:%d: schema file template %r is not filled from current_neuroml_version" % (rel, i, tok))
                            val = tok
                    elif "${NEUROML_VERSION}" in tok:
                        val = tok.replace("${NEUROML_VERSION}", script_version)
                    elif "$" in tok or "%" in tok or "{" in tok:
                        gaps.append("%s:%d: schema file template %r is not understood" % (rel, i, tok))
                        val = tok
                    else:
                        val = tok
                    if rel == os.path.join("neuroml", "nml", "config.py"):
                        role = "nameTable"
                    occ.append({"file": rel, "line": i, "what": ln.strip()[:120], "schema_file": val, "role": role})
    return occ


# ------------------------------------------------------------------------------------------------ everything
def extract(repo, cache=None):
    """cache: optional dict; the (slow) parse of nml.py is reused when its text and the simple-type list are unchanged"""
    gaps = []
    nml_dir = os.path.join(repo, "neuroml", "nml")
    version_py = os.path.join(repo, "neuroml", "__version__.py")
    current = extract_current_version(version_py, gaps)
    xsd_name = "NeuroML_%s.xsd" % current          # "the bundled schema for the declared current NeuroML version"
    xsd_path = os.path.join(nml_dir, xsd_name)
    table = load_nametable(nml_dir, gaps)
    if os.path.exists(xsd_path):
        schema = extract_schema(xsd_path, table, gaps)
    else:
        gaps.append("no bundled schema %s for current_neuroml_version %r" % (xsd_name, current))
        schema = {"complex_raw": [], "complex": [], "simple": [], "enums": [], "bases": [], "flags": []}
    nml_path = os.path.join(nml_dir, "nml.py")
    ck = None
    if cache is not None:
        ck = ("bindings", hashlib.sha1(open(nml_path, "rb").read()).hexdigest(), tuple(sorted(schema["simple"])))
    if ck is not None and ck in cache:
        header, binding, other, g2 = cache[ck]
        gaps.extend(g2)
    else:
        g2 = []
        header, binding, other = extract_bindings(nml_path, set(schema["simple"]), g2)
        gaps.extend(g2)
        if ck is not None:
            cache[ck] = (header, binding, other, list(g2))
    um = [v for k, v in header["options"] if k == "--user-methods"]
    um_file = um[0] if len(um) == 1 else "helper_methods.py"
    if len(um) != 1:
        gaps.append("nml.py header names %d --user-methods files" % len(um))
    hm_path = os.path.join(nml_dir, um_file if um_file.endswith(".py") else um_file + ".py")
    specs, _ = extract_specs(hm_path, gaps)
    script = extract_script(os.path.join(nml_dir, "regenerate-nml.sh"), open(version_py).read(), gaps)
    writer = extract_writer(os.path.join(repo, "neuroml", "writers.py"), os.path.join(repo, "neuroml", "__init__.py"),
                            gaps)
    tpl = [v for k, v in header["options"] if k == "--custom-imports-template"]
    template_imports = []
    if len(tpl) == 1 and os.path.exists(os.path.join(nml_dir, tpl[0])):
        try:
            template_imports = import_lines(ast.parse(open(os.path.join(nml_dir, tpl[0])).read()))
        except SyntaxError as e:
            gaps.append("custom imports template %s does not parse: %r" % (tpl[0], e))
    elif tpl:
        gaps.append("custom imports template named in the header not found: %r" % (tpl,))
    occurrences = extract_occurrences(repo, current, script["version"], gaps)
    cmd_tokens = shlex.split(header["command_line"]) if header["command_line"] else []
    cmd_opts, cmd_args = parse_cmdline(cmd_tokens[1:])
    cfg = ""
    try:
        ct = ast.parse(open(os.path.join(nml_dir, "config.py")).read())
        for n in ast.walk(ct):
            if isinstance(n, ast.Dict):
                for k, v in zip(n.keys, n.values):
                    if isinstance(k, ast.Constant) and k.value == "schema_name" and isinstance(v, ast.Constant):
                        cfg = str(v.value)
    except Exception:  # noqa
        pass
    return {
        "repo": repo, "gaps": gaps, "specs": specs, "binding": binding, "other_classes": other,
        "schema": schema, "header": header, "helper_file": os.path.basename(hm_path), "occurrences": occurrences,
        "imports": {"shipped": list(header.get("imports", [])), "template": template_imports,
                    "template_file": tpl[0] if len(tpl) == 1 else ""},
        "versions": {
            "current": current, "xsd_read": xsd_name,
            "header_xsd": header["arguments"][0] if len(header["arguments"]) == 1 else "\n".join(header["arguments"]),
            "header_cmd_xsd": cmd_args[0] if len(cmd_args) == 1 else "\n".join(cmd_args),
            "header_options": header["options"], "header_cmd_options": cmd_opts,
            "script_version": script["version"], "script_pre": script["pre"], "script_post": script["post"],
            "script_options": script["options"],
            "writer_pre": writer["pre"], "writer_post": writer["post"], "writer_template": writer["template"],
            "bundled": sorted(f for f in os.listdir(nml_dir) if f.endswith(".xsd")),
            "config_schema_name": cfg,
        },
    }


# ------------------------------------------------------------------------------------------------ Lean emission
def lean_str(s):
    out = ['"']
    for ch in s:
        if ch == '"':
            out.append('\\"')
        elif ch == "\\":
            out.append("\\\\")
        elif ch == "\n":
            out.append("\\n")
        elif ch == "\t":
            out.append("\\t")
        elif ord(ch) < 32 or ord(ch) > 126:
            out.append("\\u{%x}" % ord(ch))
        else:
            out.append(ch)
    out.append('"')
    return "".join(out)


class Interner:
    def __init__(self):
        self.ids, self.names = {}, []

    def __call__(self, s):
        if s not in self.ids:
            self.ids[s] = len(self.names)
            self.names.append(s)
        return self.ids[s]


def emit_lean(data, I=None, with_names=True):
    I = I or Interner()
    L = []
    w = L.append
    w("import NmlVerif.Model.Regen")
    w("/-! GENERATED by translators/helpers_extract.py on every `bin/check C20` from the working tree of the")
    w("    library — do not edit. Names are interned (`names[i]`); digests are 128-bit prefixes of SHA-256 of the")
    w("    normalised AST dump of one class-body statement. -/")
    w("namespace NmlVerif.Gen.Regen")
    w("open NmlVerif.Regen")
    w("")

    def items(its):
        return "[" + ", ".join("⟨%d, %d⟩" % (I(a), b) for a, b, _ in its) + "]"

    spec_lines = []
    for sp in data["specs"]:
        cn = sp["class_names"]
        if cn["kind"] == "str":
            c = ".str %d" % I(cn["v"])
        elif cn["kind"] == "list":
            c = ".list [%s]" % ", ".join(str(I(x)) for x in cn["v"])
        else:
            c = ".other"
        pc = "[" + ", ".join("(%d, %s)" % (I(cn_), items(its_)) for cn_, its_ in sp.get("per_class", [])) + "]"
        spec_lines.append("  ⟨%d, %s, %s, %s⟩" % (I(sp["name"]), c, items(sp["items"]), pc))
    ship_lines = ["  (%d, %s)" % (I(c["name"]), items(c["items"])) for c in data["binding"]]
    classes = [I(c["name"]) for c in data["binding"]]
    cts = [I(x) for x in data["schema"]["complex"]]
    other = [I(x) for x in data["other_classes"]]
    support = [I(x) for x in SUPPORT_CLASSES]
    enums = [I(x) for x in data["schema"]["enums"]]
    imp_s = [I(x) for x in data["imports"]["shipped"]]
    imp_t = [I(x) for x in data["imports"]["template"]]
    v = data["versions"]

    def natlist(l):
        return "[" + ", ".join(map(str, l)) + "]"

    def optlist(l):
        return "[" + ", ".join("(%s, %s)" % (lean_str(a), lean_str(b)) for a, b in l) + "]"

    w("/-- every `MethodSpec` of METHOD_SPECS, in order: name, class_names, (statement name, digest) of its source -/")
    w("def specs : List (Spec Nat) := [\n" + ",\n".join(spec_lines) + "]")
    w("")
    w("/-- every binding class of nml.py, in file order, with the (name, digest) of its user statements -/")
    w("def shipped : List (Nat × List (Item Nat)) := [\n" + ",\n".join(ship_lines) + "]")
    w("")
    w("def classes : List Nat := " + natlist(classes))
    w("/-- complexType names of the schema for `current_neuroml_version`, generateDS name mapping applied -/")
    w("def complexTypes : List Nat := " + natlist(cts))
    w("def otherClasses : List Nat := " + natlist(other))
    w("def supportClasses : List Nat := " + natlist(support))
    w("def enumTypes : List Nat := " + natlist(enums))
    w("/-- module-level imports of nml.py that generateDS does not write itself / of the custom imports template -/")
    w("def shippedImports : List Nat := " + natlist(imp_s))
    w("def templateImports : List Nat := " + natlist(imp_t))
    w("")
    w("/-- second pass: complexType -> extension base (XSD, name mapping applied) / binding class -> Python bases -/")
    w("def xsdBases : List (Nat × Option Nat) := [" + ", ".join(
        "(%d, %s)" % (I(a), "none" if b is None else "some %d" % I(b)) for a, b in data["schema"]["bases"]) + "]")
    w("def classBases : List (Nat × List Nat) := [" + ", ".join(
        "(%d, [%s])" % (I(c["name"]), ", ".join(str(I(b)) for b in c.get("bases", []))) for c in data["binding"]) + "]")
    w("")
    w("def versions : Versions where")
    w("  current := " + lean_str(v["current"]))
    w("  xsdRead := " + lean_str(v["xsd_read"]))
    w("  headerXsd := " + lean_str(v["header_xsd"]))
    w("  headerCmdXsd := " + lean_str(v["header_cmd_xsd"]))
    w("  headerOptions := " + optlist(v["header_options"]))
    w("  headerCmdOptions := " + optlist(v["header_cmd_options"]))
    w("  scriptVersion := " + lean_str(v["script_version"]))
    w("  scriptPre := " + lean_str(v["script_pre"]))
    w("  scriptPost := " + lean_str(v["script_post"]))
    w("  scriptOptions := " + optlist(v["script_options"]))
    w("  writerPre := " + lean_str(v["writer_pre"]))
    w("  writerPost := " + lean_str(v["writer_post"]))
    w("  bundled := [" + ", ".join(lean_str(x) for x in v["bundled"]) + "]")
    w("  helperFile := " + lean_str(data["helper_file"]))
    w("")
    w("/-- every occurrence of a schema file name / version in the package's code (second pass) -/")
    w("def occurrences : List Occurrence := [\n" + ",\n".join(
        "  ⟨%s, %s, %s, .%s⟩" % (lean_str("%s:%d" % (o["file"], o["line"])), lean_str(o["what"]), lean_str(o["schema_file"]),
                                 o["role"]) for o in data["occurrences"]) + "]")
    w("")
    w("def tables : Tables where")
    w("  specs := specs")
    w("  shipped := shipped")
    w("  classes := classes")
    w("  complexTypes := complexTypes")
    w("  otherClasses := otherClasses")
    w("  supportClasses := supportClasses")
    w("  enumTypes := enumTypes")
    w("  shippedImports := shippedImports")
    w("  templateImports := templateImports")
    w("  versions := versions")
    w("  occurrences := occurrences")
    w("  xsdBases := xsdBases")
    w("  classBases := classBases")
    w("  rootBase := %d" % I("GeneratedsSuper"))
    w("")
    if with_names:
        # names last (interning complete); not used by any theorem, only by the driver / for reading the table
        w("def names : Array String := #[\n  " + ",\n  ".join(
            ", ".join(lean_str(n) for n in I.names[i:i + 6]) for i in range(0, len(I.names), 6)) + "]")
        w("")
    w("end NmlVerif.Gen.Regen")
    return "\n".join(L) + "\n", I


def write_if_changed(path, text):
    os.makedirs(os.path.dirname(path), exist_ok=True)
    if os.path.exists(path) and open(path).read() == text:
        return False
    tmp = path + ".tmp%d" % os.getpid()
    with open(tmp, "w") as fh:
        fh.write(text)
    os.replace(tmp, path)
    return True


def main(argv):
    verif = os.path.dirname(os.path.dirname(os.path.abspath(__file__)))
    if len(argv) > 1 and argv[1] == "--pin":
        repo = argv[2] if len(argv) > 2 else os.environ.get("VERIF_REPO", "/repo")
        tree = ast.parse(open(os.path.join(repo, "neuroml", "nml", "helper_methods.py")).read())
        for n in tree.body:
            if isinstance(n, ast.ClassDef) and n.name == "MethodSpec":
                for f in n.body:
                    if isinstance(f, ast.FunctionDef) and f.name in PINNED:
                        print('    "%s": %r,' % (f.name, pin_text(f)))
        return 0
    repo = argv[1] if len(argv) > 1 else os.environ.get("VERIF_REPO", "/repo")
    out = argv[2] if len(argv) > 2 else os.path.join(verif, "lean", "NmlVerif", "Gen", "Regen.lean")
    data = extract(repo)
    text, _ = emit_lean(data)
    changed = write_if_changed(out, text)
    print("%s: %d specs, %d binding classes (%d user statements), %d complex types, %s; %d gaps"
          % (out, len(data["specs"]), len(data["binding"]), sum(len(c["items"]) for c in data["binding"]),
             len(data["schema"]["complex"]), "rewritten" if changed else "unchanged", len(data["gaps"])))
    for g in data["gaps"]:
        print("GAP:", g)
    return 1 if data["gaps"] else 0


if __name__ == "__main__":
    sys.exit(main(sys.argv))
