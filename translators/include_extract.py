"""C06 translator: the include-resolution code of the CURRENT tree -> lean/NmlVerif/Gen/IncludeShape.lean.

What is regenerated on every run:
  * `sh : Bool` — does the tree pass `already_included` through NeuroMLHdf5Loader.load -> NeuroMLHdf5Parser.parse ->
    read_neuroml2_string (the repair fixes/C06-hdf5-shared-include-list.patch) or does the HDF5 parser start a list of
    its own (today)?  Decided from four call sites that must agree.
  * `genSameId` — the test with which `add_all_to_document` recognises an entry as already present, translated
    expression by expression (`hasattr(c, "id") and c.id == entry.id`); Props/C06.lean proves it equal to the hand
    model's `same`.

Everything else in the anchored functions (read_neuroml2_file, read_neuroml2_string, _read_neuroml2,
add_all_to_document) is compared, statement by statement, with the code the hand model `Model/Include.lean` was
written from (docstrings and `print_method(...)` calls ignored).  A statement that is not the expected one is a GAP:
the translator refuses, it never skips.

Robustness round: before the comparison both sides go through `include_normalise.canon` (equivalent surface shapes of
one statement -> one shape: else after return, conditional expression vs if/else assignment, a single-use local,
f-string vs %, tuple unpacking of getmembers() pairs, a private helper that is called once, ... each rule with its
reason in include_normalise.py) and the locals of the tree's function are renamed to the expected names by order of
first binding (`alpha`).  Whatever the normaliser does not recognise is left alone and is refused here as before.
"""
import ast
import copy
import os
import sys
import textwrap

sys.path.insert(0, os.path.dirname(os.path.abspath(__file__)))
import include_normalise as N  # noqa: E402

LOADERS = "neuroml/loaders.py"
UTILS = "neuroml/utils.py"
PARSER = "neuroml/hdf5/NeuroMLHdf5Parser.py"


# ------------------------------------------------------------------ AST helpers
def _dumps(fn):
    """one dump per statement; through unparse/parse so that synthesised nodes look like parsed ones"""
    return [ast.dump(ast.parse(ast.unparse(s)).body[0]) for s in fn.body]


def _first_diff(got, exp, path=""):
    """(path, text) of the innermost first statement of `got` that differs from `exp` (both lists of statements)"""
    k = 0
    while k < min(len(got), len(exp)) and ast.dump(got[k]) == ast.dump(exp[k]):
        k += 1
    here = "%s%d" % (path, k + 1)
    if k >= len(got):
        return here, "(statement missing)"
    if k < len(exp) and type(got[k]) is type(exp[k]) and isinstance(got[k], (ast.If, ast.For)):
        g, e = got[k], exp[k]
        heads = ("test",) if isinstance(g, ast.If) else ("target", "iter")
        if all(ast.dump(getattr(g, h)) == ast.dump(getattr(e, h)) for h in heads):
            if [ast.dump(x) for x in g.body] != [ast.dump(x) for x in e.body]:
                return _first_diff(g.body, e.body, here + ".")
            return _first_diff(g.orelse, e.orelse, here + ".else.")
    return here, ast.unparse(got[k]).split("\n")[0][:140]


def _reparsed(fn):
    return ast.parse(ast.unparse(fn)).body[0]


def _as_function(fn, src):
    """the expected body `src` as a function with the parameters of `fn` (so parameters / locals are told apart alike)"""
    f = copy.deepcopy(fn)
    f.body = ast.parse(textwrap.dedent(src)).body
    f.decorator_list = []
    return f


def _find(tree, qual):
    parts = qual.split(".")
    node = tree
    for p in parts:
        nxt = None
        for ch in ast.iter_child_nodes(node):
            if isinstance(ch, (ast.FunctionDef, ast.ClassDef)) and ch.name == p:
                nxt = ch
        if nxt is None:
            return None
        node = nxt
    return node


def _match(fn, variants, where, gaps, module=None):
    """compare the normalised body of `fn` with each variant (name -> source of the body), both normalised and `fn`'s
    locals renamed to the variant's; return (matching name, the normalised + renamed function) or (None, None)"""
    got0 = N.canon(fn, module)
    firsts = []
    for name, src in variants.items():
        exp = N.canon(_as_function(fn, src))
        got = N.alpha(got0, exp)
        g, e = _dumps(got), _dumps(exp)
        if g == e:
            return name, got
        k = 0
        while k < min(len(g), len(e)) and g[k] == e[k]:
            k += 1
        firsts.append((k, got, exp))
    k, got, exp = max(firsts, key=lambda t: t[0])
    at, text = _first_diff(_reparsed(got).body, _reparsed(exp).body)
    gaps.append("%s: statement %s (after normalisation) is not the modelled one: %s" % (where, at, text))
    return None, None


def _signature(fn, where, gaps):
    """the defaults the model relies on: no list is shared between calls, includes are off unless asked for"""
    a = fn.args
    names = [x.arg for x in a.posonlyargs + a.args]
    defaults = dict(zip(names[len(names) - len(a.defaults):], [ast.unparse(d) for d in a.defaults]))
    want = {"include_includes": "False", "already_included": "None"}
    if where != "read_neuroml2_file":
        want["base_path"] = "None"
    for k, v in want.items():
        if defaults.get(k) != v:
            gaps.append("%s: parameter %s has default %s, the model assumes %s" % (where, k, defaults.get(k), v))
    if a.vararg or a.kwarg or a.kwonlyargs:
        gaps.append("%s: *args / **kwargs / keyword-only parameters are not modelled" % where)


# ------------------------------------------------------------------ the code the hand model was written from
_READ_FILE = """
if already_included is None:
    already_included = []
%(MARK)s
if not os.path.isfile(nml2_file_name):
    sys.exit()
this_file = os.path.abspath(nml2_file_name)
if this_file not in already_included:
    already_included.append(this_file)
%(CALL)s
"""
_CALL_FILE = """_read_neuroml2(nml2_file_name, include_includes=include_includes, verbose=verbose,
                      already_included=already_included, print_method=print_method, optimized=optimized)"""

_READ_STRING = """
if already_included is None:
    already_included = []
%(MARK)s
%(CALL)s
"""
_CALL_STRING = """_read_neuroml2(nml2_string, include_includes=include_includes, verbose=verbose,
                      already_included=already_included, print_method=print_method, optimized=optimized,
                      base_path=base_path)"""
# the two shapes of an entry point: "plain" (marks made during a failed read stay in the caller's list) and
# "restores" (fixes/C08-already-included-restored.patch: the length of the list is recorded at entry and everything
# appended since is deleted again when the read raises - BaseException, so sys.exit() counts - before re-raising)
_RESTORE = """try:
    return %s
except BaseException:
    del already_included[n_marked:]
    raise"""
READ_FILE = {"plain": _READ_FILE % {"MARK": "", "CALL": "return " + _CALL_FILE},
             "restores": _READ_FILE % {"MARK": "n_marked = len(already_included)", "CALL": _RESTORE % _CALL_FILE}}
READ_STRING = {"plain": _READ_STRING % {"MARK": "", "CALL": "return " + _CALL_STRING},
               "restores": _READ_STRING % {"MARK": "n_marked = len(already_included)", "CALL": _RESTORE % _CALL_STRING}}

_READ = """
if already_included is None:
    already_included = []
base_path_to_use = os.path.dirname(os.path.realpath(nml2_file_name_or_string)) if base_path is None else base_path
if supressGeneratedsWarnings:
    warnings.simplefilter("ignore")
if not isinstance(nml2_file_name_or_string, str) or nml2_file_name_or_string.startswith("<"):
    nml2_doc = nmlparsestring(nml2_file_name_or_string)
    base_path_to_use = "./" if base_path is None else base_path
elif nml2_file_name_or_string.endswith(".h5") or nml2_file_name_or_string.endswith(".hdf5"):
    nml2_doc = %(ENTRY_H5)s
else:
    nml2_doc = NeuroMLLoader.load(nml2_file_name_or_string)
if supressGeneratedsWarnings:
    warnings.resetwarnings()
if include_includes:
    for include in nml2_doc.includes:
        if os.path.exists(include.href):
            incl_loc = os.path.abspath(include.href)
        else:
            incl_loc = os.path.abspath(os.path.join(base_path_to_use, include.href))
        if incl_loc not in already_included:
            if incl_loc.endswith(".nml") or incl_loc.endswith(".xml"):
                already_included.append(incl_loc)
                nml2_sub_doc = read_neuroml2_file(incl_loc, True, verbose=verbose, already_included=already_included)
                utils.add_all_to_document(nml2_sub_doc, nml2_doc)
            elif incl_loc.endswith(".nml.h5"):
%(INCL_H5)s
                utils.add_all_to_document(nml2_sub_doc, nml2_doc)
            else:
                raise Exception("Unrecognised extension on file: %%s" %% incl_loc)
    nml2_doc.includes = []
else:
    if len(nml2_doc.includes) > 0:
        pass
return nml2_doc
"""
READ = {
    "own": _READ % {"ENTRY_H5": "NeuroMLHdf5Loader.load(nml2_file_name_or_string, optimized=optimized)",
                    "INCL_H5": "                nml2_sub_doc = NeuroMLHdf5Loader.load(incl_loc)\n"
                               "                already_included.append(incl_loc)"},
    "shared": _READ % {"ENTRY_H5": "NeuroMLHdf5Loader.load(nml2_file_name_or_string, optimized=optimized, "
                                   "already_included=already_included)",
                       "INCL_H5": "                already_included.append(incl_loc)\n"
                                  "                nml2_sub_doc = NeuroMLHdf5Loader.load(incl_loc, already_included=already_included)"},
}

ADD_ALL = """
membs = inspect.getmembers(nml_doc_src)
for memb in membs:
    if isinstance(memb[1], list) and len(memb[1]) > 0 and not memb[0].endswith("_"):
        for entry in memb[1]:
            if memb[0] != "includes":
                added = False
                for c in getattr(nml_doc_tgt, memb[0]):
                    if __SAME__:
                        added = True
                if not added:
                    getattr(nml_doc_tgt, memb[0]).append(entry)
                    added = True
                if not added:
                    raise Exception("Could not add %s from %s to %s" % (entry, nml_doc_src, nml_doc_tgt))
"""


# ------------------------------------------------------------------ expression translator (the merge test)
def _lean_expr(e, gaps):
    """Python boolean expression over `c` (element of the target list) and `entry` -> Lean Bool term"""
    if isinstance(e, ast.BoolOp) and isinstance(e.op, (ast.And, ast.Or)):
        op = " && " if isinstance(e.op, ast.And) else " || "
        return "(" + op.join(_lean_expr(v, gaps) for v in e.values) + ")"
    if isinstance(e, ast.UnaryOp) and isinstance(e.op, ast.Not):
        return "(!" + _lean_expr(e.operand, gaps) + ")"
    if (isinstance(e, ast.Call) and isinstance(e.func, ast.Name) and e.func.id == "hasattr" and len(e.args) == 2
            and not e.keywords and isinstance(e.args[0], ast.Name) and e.args[0].id in ("c", "entry")
            and isinstance(e.args[1], ast.Constant) and e.args[1].value == "id"):
        return "hasId " + e.args[0].id
    if (isinstance(e, ast.Compare) and len(e.ops) == 1 and isinstance(e.ops[0], (ast.Eq, ast.NotEq))
            and all(isinstance(x, ast.Attribute) and x.attr == "id" and isinstance(x.value, ast.Name)
                    and x.value.id in ("c", "entry") for x in (e.left, e.comparators[0]))):
        op = "==" if isinstance(e.ops[0], ast.Eq) else "!="
        return "(%s.id %s %s.id)" % (e.left.value.id, op, e.comparators[0].value.id)
    gaps.append("add_all_to_document: cannot translate the merge test `%s`" % ast.unparse(e)[:120])
    return "false"


def _merge_test(fn, gaps):
    """find `for c in getattr(nml_doc_tgt, memb[0]): if <test>: added = True` in the NORMALISED function (locals already
    renamed to the expected names), return (<test>, fn with <test> := __SAME__)"""
    found = []

    class T(ast.NodeTransformer):
        def visit_For(self, node):
            self.generic_visit(node)
            if (isinstance(node.target, ast.Name) and node.target.id == "c" and len(node.body) == 1
                    and isinstance(node.body[0], ast.If) and not node.body[0].orelse):
                found.append(node.body[0].test)
                node.body[0].test = ast.Name(id="__SAME__", ctx=ast.Load())
            return node
    fn2 = T().visit(ast.parse(ast.unparse(fn)).body[0])
    if len(found) != 1:
        gaps.append("add_all_to_document: expected exactly one `for c in ...: if <test>:` loop, found %d" % len(found))
        return None, fn2
    return found[0], fn2


def _match_add_all(fn, module, gaps):
    """-> the merge test (ast, over the expected names `c` / `entry`) or None"""
    exp = N.canon(_as_function(fn, ADD_ALL))
    got = N.alpha(N.canon(fn, module), exp)
    test, holed = _merge_test(got, gaps)
    if test is None:
        return None
    g, e = _dumps(holed), _dumps(exp)
    if g != e:
        at, text = _first_diff(_reparsed(holed).body, _reparsed(exp).body)
        gaps.append("add_all_to_document: statement %s (after normalisation) is not the modelled one: %s" % (at, text))
    return test


# ------------------------------------------------------------------ the four HDF5 call sites
def _kwargs(call):
    return {k.arg: ast.unparse(k.value) for k in call.keywords}


def _calls(fn, pred):
    return [n for n in ast.walk(fn) if isinstance(n, ast.Call) and pred(n)]


def _is_top_level_string(parse, args):
    """the one positional argument is a local (any name: alpha renaming) whose only binding in `parse` is
    `get_str_attribute_group(h5file.root.neuroml, "neuroml_top_level")` - the XML embedded in the file
    (`h5file.root.neuroml` may itself be held in a local that is bound once)"""
    if len(args) != 1 or not isinstance(args[0], ast.Name):
        return False
    name = args[0].id
    if name in N.params(parse):
        return False
    binds = [n for n in ast.walk(parse) if isinstance(n, ast.Name) and n.id == name and isinstance(n.ctx, (ast.Store, ast.Del))]
    vals = [n.value for n in ast.walk(parse) if isinstance(n, ast.Assign) and len(n.targets) == 1
            and isinstance(n.targets[0], ast.Name) and n.targets[0].id == name]
    if not (len(binds) == 1 and len(vals) == 1 and isinstance(vals[0], ast.Call) and not vals[0].keywords
            and ast.unparse(vals[0].func) == "get_str_attribute_group" and len(vals[0].args) == 2
            and ast.unparse(vals[0].args[1]) == "'neuroml_top_level'"):
        return False
    grp = vals[0].args[0]
    if isinstance(grp, ast.Name) and grp.id not in N.params(parse):      # a local bound once to the group
        gb = [n for n in ast.walk(parse) if isinstance(n, ast.Name) and n.id == grp.id
              and isinstance(n.ctx, (ast.Store, ast.Del))]
        gv = [n.value for n in ast.walk(parse) if isinstance(n, ast.Assign) and len(n.targets) == 1
              and isinstance(n.targets[0], ast.Name) and n.targets[0].id == grp.id]
        if len(gb) != 1 or len(gv) != 1:
            return False
        grp = gv[0]
    return ast.unparse(grp) == "h5file.root.neuroml"


def _hdf5_sites(lt, pt, gaps):
    """'own' / 'shared' for load -> __nml2_doc -> parse -> read_neuroml2_string, or None (gap)"""
    votes = []
    load = _find(lt, "NeuroMLHdf5Loader.load")
    inner = _find(lt, "NeuroMLHdf5Loader.__nml2_doc")
    parse = _find(pt, "NeuroMLHdf5Parser.parse")
    if not (load and inner and parse):
        gaps.append("NeuroMLHdf5Loader.load / __nml2_doc / NeuroMLHdf5Parser.parse not found")
        return None
    cs = _calls(load, lambda n: isinstance(n.func, ast.Attribute) and n.func.attr.endswith("__nml2_doc"))
    if len(cs) != 1:
        gaps.append("NeuroMLHdf5Loader.load: expected one call of __nml2_doc")
        return None
    a = [ast.unparse(x) for x in cs[0].args] + sorted("%s=%s" % kv for kv in _kwargs(cs[0]).items())
    if a == ["src", "optimized"]:
        votes.append("own")
    elif a in (["src", "optimized", "already_included"], ["src", "optimized", "already_included=already_included"]):
        votes.append("shared")
    else:
        gaps.append("NeuroMLHdf5Loader.load: unrecognised arguments of __nml2_doc: %s" % a)
    cs = _calls(inner, lambda n: isinstance(n.func, ast.Attribute) and n.func.attr == "parse")
    if len(cs) != 2:
        gaps.append("NeuroMLHdf5Loader.__nml2_doc: expected two calls of currParser.parse, found %d" % len(cs))
    for c in cs:
        a = [ast.unparse(x) for x in c.args] + sorted("%s=%s" % kv for kv in _kwargs(c).items())
        if a == ["file_name"]:
            votes.append("own")
        elif a == ["file_name", "already_included=already_included"]:
            votes.append("shared")
        else:
            gaps.append("NeuroMLHdf5Loader.__nml2_doc: unrecognised arguments of parse: %s" % a)
    cs = _calls(parse, lambda n: isinstance(n.func, ast.Name) and n.func.id == "read_neuroml2_string")
    if len(cs) != 1:
        gaps.append("NeuroMLHdf5Parser.parse: expected one call of read_neuroml2_string, found %d" % len(cs))
    for c in cs:
        kw = _kwargs(c)
        base = {"include_includes": "True", "verbose": "False",
                "base_path": "os.path.dirname(os.path.abspath(filename))"}
        if not _is_top_level_string(parse, c.args):
            gaps.append("NeuroMLHdf5Parser.parse: unrecognised positional arguments of read_neuroml2_string")
        elif kw == base:
            votes.append("own")
        elif kw == dict(base, already_included="already_included"):
            votes.append("shared")
        else:
            gaps.append("NeuroMLHdf5Parser.parse: unrecognised keyword arguments of read_neuroml2_string: %s" % sorted(kw.items()))
    if len(votes) == 4 and len(set(votes)) == 1:
        return votes[0]
    if len(set(votes)) > 1:
        gaps.append("already_included is passed through only part of the way NeuroMLHdf5Loader.load -> __nml2_doc -> "
                    "NeuroMLHdf5Parser.parse -> read_neuroml2_string: %s" % votes)
    return None


# ------------------------------------------------------------------ driver
def analyse(repo):
    """-> (sh: bool or None, lean text of the merge test, gaps)"""
    gaps = []
    try:
        with open(os.path.join(repo, LOADERS)) as fh:
            lt = ast.parse(fh.read())
        with open(os.path.join(repo, UTILS)) as fh:
            ut = ast.parse(fh.read())
        with open(os.path.join(repo, PARSER)) as fh:
            pt = ast.parse(fh.read())
    except Exception as e:
        return None, "false", ["cannot parse the anchored sources: %r" % (e,)]
    fns = {q: _find(lt, q) for q in ("read_neuroml2_file", "read_neuroml2_string", "_read_neuroml2")}
    fns["add_all_to_document"] = _find(ut, "add_all_to_document")
    for q, f in fns.items():
        if f is None:
            gaps.append("function %s not found" % q)
    if gaps:
        return None, "false", gaps
    for q in ("read_neuroml2_file", "read_neuroml2_string", "_read_neuroml2"):
        _signature(fns[q], q, gaps)
    global LAST_RESTORES
    LAST_RESTORES = None
    rf, _ = _match(fns["read_neuroml2_file"], READ_FILE, "read_neuroml2_file", gaps, lt)
    rs, _ = _match(fns["read_neuroml2_string"], READ_STRING, "read_neuroml2_string", gaps, lt)
    if rf and rs:
        if rf == rs:
            LAST_RESTORES = (rf == "restores")
        else:
            gaps.append("read_neuroml2_file is of the `%s` shape but read_neuroml2_string of the `%s` shape "
                        "(marks of a failed read taken back or not)" % (rf, rs))
    loop, _ = _match(fns["_read_neuroml2"], READ, "_read_neuroml2", gaps, lt)
    sites = _hdf5_sites(lt, pt, gaps)
    sh = None
    if loop and sites:
        if loop == sites:
            sh = (loop == "shared")
        else:
            gaps.append("_read_neuroml2 handles HDF5 includes the `%s` way but the HDF5 loader/parser the `%s` way" % (loop, sites))
    test = _match_add_all(fns["add_all_to_document"], ut, gaps)
    lean = "false"
    global LAST_TEST_SRC
    LAST_TEST_SRC = "?"
    if test is not None:
        LAST_TEST_SRC = ast.unparse(test)
        lean = _lean_expr(test, gaps)
    return sh, lean, gaps


LAST_RESTORES = None      # do the two entry points take back the marks of a failed read? (None: refused)
LAST_TEST_SRC = "?"       # the merge test of the last `analyse`, normalised, as Python text (for the doc comment)


def emit(sh, lean, gaps, test_src):
    return """import NmlVerif.Model.Include
/-! GENERATED by translators/include_extract.py from neuroml/loaders.py, neuroml/utils.py and
    neuroml/hdf5/NeuroMLHdf5Parser.py of the tree under test — do not edit.
    gaps: %d -/
namespace NmlVerif.Gen.IncludeShape
open NmlVerif.Include

/-- `hasattr(x, "id")` -/
def hasId (x : Comp) : Bool := decide (x.id ≠ .absent)

/-- the test of `add_all_to_document` (inside one member list): `%s` -/
def genSameId (c entry : Comp) : Bool := %s

/-- is `already_included` passed through `NeuroMLHdf5Loader.load` -> `NeuroMLHdf5Parser.parse` ->
    `read_neuroml2_string` (true) or does the HDF5 parser start a list of its own (false)? -/
def sh : Bool := %s

/-- do `read_neuroml2_file` / `read_neuroml2_string` delete the marks made during a FAILED read from the caller's
    `already_included` list before re-raising (`n_marked = len(already_included)` … `except BaseException:
    del already_included[n_marked:]; raise`: true) or do the marks stay (false)? -/
def restoresMarks : Bool := %s

end NmlVerif.Gen.IncludeShape
""" % (len(gaps), test_src, lean, "true" if sh else "false", "true" if LAST_RESTORES else "false")


def regenerate(repo, out_path):
    sh, lean, gaps = analyse(repo)
    test_src = LAST_TEST_SRC
    text = emit(sh, lean, gaps, test_src)
    old = None
    if os.path.exists(out_path):
        with open(out_path, encoding="utf-8") as fh:
            old = fh.read()
    if old != text:
        os.makedirs(os.path.dirname(out_path), exist_ok=True)
        tmp = out_path + ".tmp%d" % os.getpid()
        with open(tmp, "w", encoding="utf-8") as fh:
            fh.write(text)
        os.replace(tmp, out_path)
    return sh, gaps


if __name__ == "__main__":
    repo = sys.argv[1] if len(sys.argv) > 1 else os.environ.get("VERIF_REPO", "/repo")
    here = os.path.dirname(os.path.dirname(os.path.abspath(__file__)))
    out = sys.argv[2] if len(sys.argv) > 2 else os.path.join(here, "lean", "NmlVerif", "Gen", "IncludeShape.lean")
    sh_, gs = regenerate(repo, out)
    for g in gs:
        print("GAP:", g)
    print("wrote", out, "sh =", sh_, "gaps:", len(gs))
