"""C06 translator, normalisation step (robustness round).

`include_extract.py` compares the anchored functions statement by statement with the code the hand model was written
from.  Before that comparison BOTH sides (the function of the tree under test and the expected text) go through
`canon()`, which maps equivalent surface shapes of one statement to ONE shape.  Every rule below preserves the behaviour
for ALL inputs (the reason is given at the rule); whatever no rule recognises is left as it is, so the comparison fails
and the translator REFUSES (gap) exactly as before.  Nothing is ever guessed or skipped.

Standing assumptions shared by all rules (they are also assumptions of the hand model, which reads `include.href`
several times per iteration):
  (P) evaluating a bare name, a constant, or an attribute of a bare name (`include.href`, `os.path`) has no side effect,
      raises nothing that a later evaluation of the same expression would not raise, and gives the same value until
      something is assigned.  Such look-ups may therefore be moved across each other and be repeated.
  (S) docstrings, comments, type annotations and `print_method(...)` / `print(...)` statements are not behaviour of the
      model (unchanged from the second pass).

Rules (names used in notes/C06.md):
  strip        docstrings, print statements, annotations (`x: T = v` -> `x = v`, bare `x: T` dropped)
  print-local  `x = <message expression>` whose local x is bound once and read only inside print statements is dropped with
               them (message expression: names, constants, attributes, % / +, f-strings, tuples, len/str/repr only)
  inline-helper  a private (`_name`) module-level function referenced exactly once in its module, called as the whole
               right-hand side of `x = _h(a, ...)` or of `return _h(a, ...)`, whose arguments are (P)-expressions and whose
               body is a tree of simple statements / `if`s ending in `return e` on every path, is inlined at the call
               (parameters replaced by the arguments, `return e` -> `x = e`).  Same calls in the same order; the only
               thing that moves is the evaluation of the (P)-arguments.  A helper that is called twice, is public, has
               loops / try / with, re-binds a parameter, or whose names collide with the caller's is NOT inlined (gap).
  no-else      `if c: ...<always returns/raises/continues/breaks> else: B` = `if c: ...` followed by B
  swap-not     `if not c: A else: B` = `if c: B else: A`; `A if not c else B` = `B if c else A` (truth of c tested once)
  and-if       `if a: (if b: S)` with no else anywhere = `if a and b: S`; `(a and b) and c` = `a and b and c` (same for or)
  guard        in a loop body `if c: continue` followed by REST up to the end of the body = `if not c: REST`
  not-cmp      `not a in b` = `a not in b`, `not a is b` = `a is not b` (the operators always yield a bool);
               `not a == b` = `a != b` ONLY when both operands are known to be `str`
  if-assign    `if c: x = A else: x = B` = `x = A if c else B`;  `x = A if c else x` = `if c: x = A`
  single-use   `x = e` followed (directly, or after `y = <constant>` statements with y not x and not read by e) by a
               statement whose head expression reads x exactly once, x being a local that
               is bound once and read nowhere else, and only (P)-look-ups being evaluated before that read
               = the statement with e in place of x  (nothing with an effect changes order; x is dead afterwards)
  fstring      f"..{v}.." = "..%s.." % v  when every replacement field has no format spec, and has conversion `!s` or a
               value known to be str or int (so `format(v, "")` = `str(v)`), and, for the single-value form, the value is
               known not to be a tuple (known str / int)
  unpack       `for a, b in PAIRS: ..a..b..` = `for p in PAIRS: ..p[0]..p[1]..` when PAIRS is known to yield 2-tuples
               (`inspect.getmembers(..)`, `enumerate(..)`, `zip(x, y)`, or a local bound once to one of those), a and b are
               bound nowhere else and read only inside the loop
  endswith     `s.endswith((A, B))` = `s.endswith(A) or s.endswith(B)` for a NAME s known to be str and str constants
  range0       `range(0, n)` = `range(n)`
  any-loop     `flag = any(T for v in IT)` = `flag = False; for v in IT: if T: flag = True` when T is a PURE test (and / or /
               not over `hasattr(<P>, "const")` and == / != / is / is not between (P)-expressions), v occurs nowhere else
               and flag is not read by T or IT.  any() stops at the first hit, the loop goes on: with a pure, total T
               that cannot be observed.  Assumption (E): == / != between attribute values (ids: str or None) has no effect
               and raises nothing - the Lean translation of the merge test (`genSameId`) assumes the same.
  pass         `pass` next to other statements, and an `else:` holding only `pass`, are dropped
  alpha        locals (never parameters) are renamed to the expected text's names by order of first binding; refused
               when the number of locals differs or a new name would capture a free name of the function
"Known to be str" (`_is_str`): a str constant, an f-string, `"..." % x`, a call of os.path.abspath / join / dirname /
realpath / normpath / basename (with `os` the imported module, not re-bound), a conditional expression of those, a local
all of whose bindings are such values, or `p[0]` for p the loop variable over `inspect.getmembers(..)`.
"Known to be int": an int constant, `len(..)`, or a local all of whose bindings are such.
"""
import ast
import copy
from collections import Counter

_PATH_FUNCS = {"os.path.abspath", "os.path.join", "os.path.dirname", "os.path.realpath", "os.path.normpath",
               "os.path.basename"}
_BINDERS_REFUSED = (ast.FunctionDef, ast.AsyncFunctionDef, ast.ClassDef, ast.Lambda, ast.ListComp, ast.SetComp,
                    ast.DictComp, ast.GeneratorExp, ast.Global, ast.Nonlocal, ast.NamedExpr, ast.Import,
                    ast.ImportFrom, ast.With, ast.AsyncWith, ast.Starred, ast.AsyncFor,
                    ast.Match if hasattr(ast, "Match") else ast.AsyncFor)


# ------------------------------------------------------------------ strip (S)
def _is_print(stmt):
    return (isinstance(stmt, ast.Expr) and isinstance(stmt.value, ast.Call)
            and isinstance(stmt.value.func, ast.Name) and stmt.value.func.id in ("print_method", "print"))


def _is_doc(stmt):
    return isinstance(stmt, ast.Expr) and isinstance(stmt.value, ast.Constant) and isinstance(stmt.value.value, str)


class _Strip(ast.NodeTransformer):
    def _body(self, body):
        out = []
        for s in body:
            if _is_print(s) or _is_doc(s):
                continue
            if isinstance(s, ast.AnnAssign) and s.simple and isinstance(s.target, ast.Name):
                if s.value is None:
                    continue
                s = ast.Assign(targets=[s.target], value=s.value)
            out.append(self.visit(s))
        return out or [ast.Pass()]

    def generic_visit(self, node):
        for f in ("body", "orelse", "finalbody"):
            if isinstance(getattr(node, f, None), list) and getattr(node, f):
                setattr(node, f, self._body(getattr(node, f)))
        return super().generic_visit(node)


def _message_like(e):
    """an expression that only formats a message: names, constants, attributes, % / +, f-strings, tuples,
    len() / str() / repr() - nothing that could be a step of the include resolution"""
    for m in ast.walk(e):
        if isinstance(m, ast.Call):
            if not (isinstance(m.func, ast.Name) and m.func.id in ("len", "str", "repr") and not m.keywords):
                return False
        elif not isinstance(m, (ast.Name, ast.Constant, ast.Attribute, ast.BinOp, ast.Mod, ast.Add, ast.JoinedStr,
                                ast.FormattedValue, ast.Tuple, ast.Load)):
            return False
    return True


def _drop_print_only_locals(fn):
    """print-local: `x = <message>` where the local x is bound once and read ONLY inside print statements is part of
    those print statements (the argument, evaluated a little earlier) and goes with them under (S)"""
    ps = set(params(fn))
    in_print = Counter()
    for n in _body_nodes(fn):
        if isinstance(n, ast.stmt) and _is_print(n):
            for m in ast.walk(n):
                if isinstance(m, ast.Name) and isinstance(m.ctx, ast.Load):
                    in_print[m.id] += 1

    class D(ast.NodeTransformer):
        def visit_Assign(self, n):
            if (len(n.targets) == 1 and isinstance(n.targets[0], ast.Name) and n.targets[0].id not in ps
                    and _count(fn, n.targets[0].id, ast.Store) == 1
                    and in_print[n.targets[0].id] >= 1
                    and _count(fn, n.targets[0].id, ast.Load) == in_print[n.targets[0].id]
                    and _message_like(n.value)):
                return None
            return n

        def visit_AnnAssign(self, n):
            if (n.simple and isinstance(n.target, ast.Name) and n.value is not None and n.target.id not in ps
                    and _count(fn, n.target.id, ast.Store) == 1 and in_print[n.target.id] >= 1
                    and _count(fn, n.target.id, ast.Load) == in_print[n.target.id] and _message_like(n.value)):
                return None
            return n
    return D().visit(fn)


def strip(fn):
    fn = copy.deepcopy(fn)
    if isinstance(fn, ast.FunctionDef) and simple_scope(fn):
        fn = _drop_print_only_locals(fn)
    if isinstance(fn, ast.FunctionDef):
        fn.returns = None
        for a in fn.args.posonlyargs + fn.args.args + fn.args.kwonlyargs:
            a.annotation = None
    return _Strip().visit(fn)


# ------------------------------------------------------------------ scope facts
def params(fn):
    a = fn.args
    out = [x.arg for x in a.posonlyargs + a.args + a.kwonlyargs]
    if a.vararg:
        out.append(a.vararg.arg)
    if a.kwarg:
        out.append(a.kwarg.arg)
    return out


def _body_nodes(fn):
    for s in fn.body:
        yield from ast.walk(s)


def simple_scope(fn):
    """only assignments and for-targets bind names: then `locals_in_order` sees every local"""
    for n in _body_nodes(fn):
        if isinstance(n, _BINDERS_REFUSED):
            return False
        if isinstance(n, ast.ExceptHandler) and n.name is not None:       # `except X as e` binds e
            return False
        if isinstance(n, ast.Delete) and not all(isinstance(t, (ast.Subscript, ast.Attribute)) for t in n.targets):
            return False                                                   # `del x` unbinds a name
        if hasattr(ast, "TryStar") and isinstance(n, ast.TryStar):
            return False
    return True


class _Order(ast.NodeVisitor):
    def __init__(self):
        self.stores = []
        self.names = Counter()

    def visit_Name(self, n):
        self.names[n.id] += 1
        if isinstance(n.ctx, ast.Store) and n.id not in self.stores:
            self.stores.append(n.id)


def locals_in_order(fn):
    v = _Order()
    for s in fn.body:
        v.visit(s)
    ps = set(params(fn))
    return [x for x in v.stores if x not in ps], v.names


def _count(fn, name, ctx):
    return sum(1 for n in _body_nodes(fn) if isinstance(n, ast.Name) and n.id == name and isinstance(n.ctx, ctx))


def _is_p(e):
    """a (P)-expression: name, constant, attribute chain on a name"""
    while isinstance(e, ast.Attribute):
        e = e.value
    return isinstance(e, (ast.Name, ast.Constant))


def _terminates(stmts):
    if not stmts:
        return False
    s = stmts[-1]
    if isinstance(s, (ast.Return, ast.Raise, ast.Continue, ast.Break)):
        return True
    if isinstance(s, ast.If):
        return bool(s.orelse) and _terminates(s.body) and _terminates(s.orelse)
    return False


def _dump(x):
    return ast.dump(x) if isinstance(x, ast.AST) else repr([ast.dump(s) for s in x])


# ------------------------------------------------------------------ known types
class _Env:
    def __init__(self, fn, module_imports_os):
        self.fn = fn
        self.params = set(params(fn))
        self.binds = {}           # local -> list of ("val", expr) / ("for", iter expr) / ("other", None)
        for n in _body_nodes(fn):
            if isinstance(n, ast.Assign):
                for t in n.targets:
                    if isinstance(t, ast.Name):
                        self.binds.setdefault(t.id, []).append(("val", n.value))
                    else:
                        for m in ast.walk(t):
                            if isinstance(m, ast.Name) and isinstance(m.ctx, ast.Store):
                                self.binds.setdefault(m.id, []).append(("other", None))
            elif isinstance(n, ast.AugAssign) and isinstance(n.target, ast.Name):
                self.binds.setdefault(n.target.id, []).append(("other", None))
            elif isinstance(n, ast.For):
                if isinstance(n.target, ast.Name):
                    self.binds.setdefault(n.target.id, []).append(("for", n.iter))
                else:
                    for m in ast.walk(n.target):
                        if isinstance(m, ast.Name):
                            self.binds.setdefault(m.id, []).append(("other", None))
        self.os_ok = module_imports_os and "os" not in self.binds and "os" not in self.params

    def free(self, name):
        """a name that is neither parameter nor local: refers to the module / builtins"""
        return name not in self.binds and name not in self.params

    def is_str(self, e, depth=0):
        if depth > 6:
            return False
        if isinstance(e, ast.Constant):
            return isinstance(e.value, str)
        if isinstance(e, ast.JoinedStr):
            return True
        if isinstance(e, ast.BinOp) and isinstance(e.op, ast.Mod):
            return isinstance(e.left, ast.Constant) and isinstance(e.left.value, str)
        if isinstance(e, ast.Call):
            return self.os_ok and ast.unparse(e.func) in _PATH_FUNCS
        if isinstance(e, ast.IfExp):
            return self.is_str(e.body, depth + 1) and self.is_str(e.orelse, depth + 1)
        if isinstance(e, ast.Name):
            bs = self.binds.get(e.id)
            return (bool(bs) and e.id not in self.params
                    and all(k == "val" and self.is_str(v, depth + 1) for k, v in bs))
        if (isinstance(e, ast.Subscript) and isinstance(e.value, ast.Name) and isinstance(e.slice, ast.Constant)
                and e.slice.value == 0 and type(e.slice.value) is int):
            bs = self.binds.get(e.value.id)
            return (bool(bs) and e.value.id not in self.params and len(bs) == 1 and bs[0][0] == "for"
                    and self.is_getmembers(bs[0][1]))
        return False

    def is_int(self, e, depth=0):
        if depth > 6:
            return False
        if isinstance(e, ast.Constant):
            return type(e.value) is int
        if isinstance(e, ast.Call):
            return (isinstance(e.func, ast.Name) and e.func.id == "len" and self.free("len") and len(e.args) == 1
                    and not e.keywords)
        if isinstance(e, ast.Name):
            bs = self.binds.get(e.id)
            return (bool(bs) and e.id not in self.params
                    and all(k == "val" and self.is_int(v, depth + 1) for k, v in bs))
        return False

    def is_getmembers(self, e, depth=0):
        if isinstance(e, ast.Call):
            return (ast.unparse(e.func) == "inspect.getmembers" and self.free("inspect") and 1 <= len(e.args) <= 2
                    and not e.keywords)
        if isinstance(e, ast.Name) and depth < 3:
            bs = self.binds.get(e.id)
            return (bool(bs) and e.id not in self.params and len(bs) == 1 and bs[0][0] == "val"
                    and self.is_getmembers(bs[0][1], depth + 1))
        return False

    def is_pairs(self, e, depth=0):
        if self.is_getmembers(e):
            return True
        if isinstance(e, ast.Call) and isinstance(e.func, ast.Name) and not e.keywords:
            if e.func.id == "enumerate" and self.free("enumerate") and len(e.args) == 1:
                return True
            if e.func.id == "zip" and self.free("zip") and len(e.args) == 2:
                return True
        if isinstance(e, ast.Name) and depth < 3:
            bs = self.binds.get(e.id)
            return (bool(bs) and e.id not in self.params and len(bs) == 1 and bs[0][0] == "val"
                    and self.is_pairs(bs[0][1], depth + 1))
        return False


# ------------------------------------------------------------------ expression rules
def _flip(op):
    return {ast.In: ast.NotIn, ast.NotIn: ast.In, ast.Is: ast.IsNot, ast.IsNot: ast.Is}.get(type(op))


def _negate(test, env):
    """an expression with the opposite truth value, evaluated the same way"""
    return _ExprRules(env).visit(ast.UnaryOp(op=ast.Not(), operand=test))


class _ExprRules(ast.NodeTransformer):
    def __init__(self, env):
        self.env = env

    def visit_UnaryOp(self, n):
        self.generic_visit(n)
        if isinstance(n.op, ast.Not) and isinstance(n.operand, ast.Compare) and len(n.operand.ops) == 1:
            c = n.operand
            f = _flip(c.ops[0])
            if f is not None:                                                   # not-cmp: always a bool
                return ast.Compare(left=c.left, ops=[f()], comparators=c.comparators)
            if isinstance(c.ops[0], (ast.Eq, ast.NotEq)) and self.env.is_str(c.left) \
                    and self.env.is_str(c.comparators[0]):                     # not-cmp: str == / != are complementary
                f = ast.NotEq if isinstance(c.ops[0], ast.Eq) else ast.Eq
                return ast.Compare(left=c.left, ops=[f()], comparators=c.comparators)
        return n

    def visit_IfExp(self, n):
        self.generic_visit(n)
        if isinstance(n.test, ast.UnaryOp) and isinstance(n.test.op, ast.Not):  # swap-not
            return ast.IfExp(test=n.test.operand, body=n.orelse, orelse=n.body)
        return n

    def visit_BoolOp(self, n):
        self.generic_visit(n)
        vals = []
        for v in n.values:                                                      # and-if: associativity of and / or
            if isinstance(v, ast.BoolOp) and type(v.op) is type(n.op):
                vals.extend(v.values)
            else:
                vals.append(v)
        n.values = vals
        return n

    def visit_Call(self, n):
        self.generic_visit(n)
        f = n.func
        if (isinstance(f, ast.Attribute) and f.attr == "endswith" and isinstance(f.value, ast.Name)
                and len(n.args) == 1 and not n.keywords and isinstance(n.args[0], ast.Tuple)
                and len(n.args[0].elts) >= 2
                and all(isinstance(x, ast.Constant) and isinstance(x.value, str) for x in n.args[0].elts)
                and self.env.is_str(f.value)):                                  # endswith
            return ast.BoolOp(op=ast.Or(), values=[
                ast.Call(func=ast.Attribute(value=ast.Name(id=f.value.id, ctx=ast.Load()), attr="endswith",
                                            ctx=ast.Load()), args=[x], keywords=[]) for x in n.args[0].elts])
        if (isinstance(f, ast.Name) and f.id == "range" and self.env.free("range") and len(n.args) == 2
                and not n.keywords and isinstance(n.args[0], ast.Constant) and n.args[0].value == 0
                and type(n.args[0].value) is int):                              # range0
            return ast.Call(func=f, args=[n.args[1]], keywords=[])
        return n

    def visit_JoinedStr(self, n):                                               # fstring
        self.generic_visit(n)
        fmt, vals = "", []
        for part in n.values:
            if isinstance(part, ast.Constant) and isinstance(part.value, str):
                fmt += part.value.replace("%", "%%")
            elif isinstance(part, ast.FormattedValue) and part.format_spec is None:
                known = self.env.is_str(part.value) or self.env.is_int(part.value)
                if not (part.conversion == 115 or (part.conversion == -1 and known)):
                    return n
                fmt += "%s"
                vals.append((part.value, known))
            else:
                return n
        if not vals:
            return n
        if len(vals) == 1:
            if not vals[0][1]:
                return n                  # "%s" % v needs v not to be a tuple
            right = vals[0][0]
        else:
            right = ast.Tuple(elts=[v for v, _ in vals], ctx=ast.Load())
        return ast.BinOp(left=ast.Constant(value=fmt), op=ast.Mod(), right=right)


# ------------------------------------------------------------------ single-use: evaluation order
def _before(e, name, out):
    """walk `e` in evaluation order up to the first read of `name`; collect what is evaluated before it.
    returns True when the read was found, None when the position is conditional / unknown (refuse)"""
    if isinstance(e, ast.Name):
        if e.id == name:
            return True
        out.append("p")
        return False
    if isinstance(e, ast.Constant):
        return False
    if isinstance(e, ast.Attribute):
        r = _before(e.value, name, out)
        if r is not False:
            return r
        out.append("p" if _is_p(e) else "x")
        return False
    if isinstance(e, ast.Call):
        subs = [e.func] + list(e.args) + [k.value for k in e.keywords]
        if any(isinstance(a, ast.Starred) for a in e.args) or any(k.arg is None for k in e.keywords):
            return None
    elif isinstance(e, ast.BinOp):
        subs = [e.left, e.right]
    elif isinstance(e, ast.Compare):
        if len(e.ops) != 1:
            return None
        subs = [e.left, e.comparators[0]]
    elif isinstance(e, ast.UnaryOp):
        subs = [e.operand]
    elif isinstance(e, (ast.Tuple, ast.List)):
        subs = list(e.elts)
    elif isinstance(e, ast.Subscript):
        subs = [e.value, e.slice]
    elif isinstance(e, (ast.BoolOp, ast.IfExp)):
        first = e.values[0] if isinstance(e, ast.BoolOp) else e.test
        r = _before(first, name, out)
        if r is not False:
            return r
        rest = e.values[1:] if isinstance(e, ast.BoolOp) else [e.body, e.orelse]
        if any(isinstance(m, ast.Name) and m.id == name for x in rest for m in ast.walk(x)):
            return None                   # read only on some paths
        out.append("x")
        return False
    else:
        return None
    for s in subs:
        r = _before(s, name, out)
        if r is not False:
            return r
    out.append("x")
    return False


def _head(stmt):
    """the expression a statement evaluates first, exactly once"""
    if isinstance(stmt, ast.If):
        return "test"
    if isinstance(stmt, ast.For):
        return "iter"
    if isinstance(stmt, (ast.Return, ast.Expr)) and stmt.value is not None:
        return "value"
    if isinstance(stmt, ast.Assign):      # the right-hand side is evaluated before any target
        return "value"
    if isinstance(stmt, ast.Raise) and stmt.exc is not None and stmt.cause is None:
        return "exc"
    return None


class _Subst(ast.NodeTransformer):
    def __init__(self, mapping):
        self.mapping = mapping

    def visit_Name(self, n):
        if isinstance(n.ctx, ast.Load) and n.id in self.mapping:
            return copy.deepcopy(self.mapping[n.id])
        return n


# ------------------------------------------------------------------ statement rules
class _Stmts:
    def __init__(self, fn, module_imports_os):
        self.fn = fn
        self.os = module_imports_os
        self.env = _Env(fn, module_imports_os)

    def block(self, stmts, loop_body=False):
        stmts = [self.stmt(s) for s in stmts]
        if len(stmts) > 1:                # pass: a `pass` next to other statements does nothing
            stmts = [s for s in stmts if not isinstance(s, ast.Pass)] or [ast.Pass()]
        i = 0
        while i < len(stmts):
            s = stmts[i]
            # no-else
            if isinstance(s, ast.If) and s.orelse and _terminates(s.body):
                stmts[i:i + 1] = [ast.If(test=s.test, body=s.body, orelse=[])] + s.orelse
                continue
            # guard
            if (loop_body and isinstance(s, ast.If) and not s.orelse and len(s.body) == 1
                    and isinstance(s.body[0], ast.Continue) and i + 1 < len(stmts)):
                rest = stmts[i + 1:]
                g = ast.If(test=_negate(s.test, self.env), body=rest, orelse=[])
                stmts[i:] = [self.stmt(g)]
                continue
            # single-use
            j = i + 1
            if isinstance(s, ast.Assign) and len(s.targets) == 1 and isinstance(s.targets[0], ast.Name):
                reads = {m.id for m in ast.walk(s.value) if isinstance(m, ast.Name)}
                while (j < len(stmts) and isinstance(stmts[j], ast.Assign) and len(stmts[j].targets) == 1
                       and isinstance(stmts[j].targets[0], ast.Name) and isinstance(stmts[j].value, ast.Constant)
                       and stmts[j].targets[0].id != s.targets[0].id and stmts[j].targets[0].id not in reads):
                    j += 1                # binding another local to a constant: e can be evaluated after it
            if j < len(stmts) and self._single_use(s, stmts[j]):
                nxt = stmts[j]
                h = _head(nxt)
                setattr(nxt, h, _Subst({s.targets[0].id: s.value}).visit(getattr(nxt, h)))
                stmts[j] = self.stmt(nxt)
                del stmts[i]
                continue
            i += 1
        return stmts

    def _single_use(self, s, nxt):
        if not (isinstance(s, ast.Assign) and len(s.targets) == 1 and isinstance(s.targets[0], ast.Name)):
            return False
        x = s.targets[0].id
        if x in self.env.params or _count(self.fn, x, ast.Store) != 1 or _count(self.fn, x, ast.Load) != 1:
            return False
        if any(isinstance(m, ast.Name) and m.id == x for m in ast.walk(s.value)):
            return False
        h = _head(nxt)
        if h is None:
            return False
        if isinstance(nxt, ast.Assign) and any(isinstance(m, ast.Name) and m.id == x
                                               for t in nxt.targets for m in ast.walk(t)):
            return False
        seen = []
        if _before(getattr(nxt, h), x, seen) is not True:
            return False
        return all(k == "p" for k in seen)

    def stmt(self, s):
        env = self.env
        if isinstance(s, (ast.If, ast.For, ast.While)):
            s.body = self.block(s.body, loop_body=isinstance(s, (ast.For, ast.While)))
            s.orelse = self.block(s.orelse) if s.orelse else []
        if isinstance(s, ast.Try):        # every block of a try statement on its own: no rule crosses its boundary
            s.body = self.block(s.body)
            for h in s.handlers:
                h.body = self.block(h.body)
            s.orelse = self.block(s.orelse) if s.orelse else []
            s.finalbody = self.block(s.finalbody) if s.finalbody else []
        s = _ExprRules(env).visit(s)
        if isinstance(s, ast.If):
            # pass: an else branch that holds only `pass` is no else branch
            if s.orelse and all(isinstance(x, ast.Pass) for x in s.orelse):
                s.orelse = []
            # swap-not
            if s.orelse and isinstance(s.test, ast.UnaryOp) and isinstance(s.test.op, ast.Not):
                s = ast.If(test=s.test.operand, body=s.orelse, orelse=s.body)
                return self.stmt(s)
            # and-if
            if not s.orelse and len(s.body) == 1 and isinstance(s.body[0], ast.If) and not s.body[0].orelse:
                inner = s.body[0]
                t = _ExprRules(env).visit(ast.BoolOp(op=ast.And(), values=[s.test, inner.test]))
                return self.stmt(ast.If(test=t, body=inner.body, orelse=[]))
            # if-assign
            if (len(s.body) == 1 and len(s.orelse) == 1
                    and all(isinstance(b, ast.Assign) and len(b.targets) == 1 and isinstance(b.targets[0], ast.Name)
                            for b in (s.body[0], s.orelse[0]))
                    and s.body[0].targets[0].id == s.orelse[0].targets[0].id):
                return self.stmt(ast.Assign(targets=[s.body[0].targets[0]],
                                            value=ast.IfExp(test=s.test, body=s.body[0].value,
                                                            orelse=s.orelse[0].value)))
        if (isinstance(s, ast.Assign) and len(s.targets) == 1 and isinstance(s.targets[0], ast.Name)
                and isinstance(s.value, ast.IfExp) and isinstance(s.value.orelse, ast.Name)
                and s.value.orelse.id == s.targets[0].id
                and (s.targets[0].id in env.params or s.targets[0].id in env.binds)):
            # if-assign, one-armed: re-binding a local / parameter to its own value is a no-op.  (For a name that
            # is neither, the read could raise NameError: not rewritten.)
            return ast.If(test=s.value.test, body=[ast.Assign(targets=s.targets, value=s.value.body)], orelse=[])
        if isinstance(s, ast.For):
            s = self._unpack(s)
        return s

    def _unpack(self, s):
        t = s.target
        if not (isinstance(t, ast.Tuple) and len(t.elts) == 2 and all(isinstance(x, ast.Name) for x in t.elts)):
            return s
        a, b = t.elts[0].id, t.elts[1].id
        if a == b or not self.env.is_pairs(s.iter):
            return s
        for x in (a, b):
            if x in self.env.params or _count(self.fn, x, ast.Store) != 1:
                return s
            inside = sum(1 for st in s.body + s.orelse for m in ast.walk(st)
                         if isinstance(m, ast.Name) and m.id == x and isinstance(m.ctx, ast.Load))
            if inside != _count(self.fn, x, ast.Load):
                return s
        used = {m.id for m in _body_nodes(self.fn) if isinstance(m, ast.Name)} | set(self.env.params)
        k = 0
        while "pair%d" % k in used:
            k += 1
        p = "pair%d" % k
        sub = _Subst({a: ast.Subscript(value=ast.Name(id=p, ctx=ast.Load()), slice=ast.Constant(value=0),
                                       ctx=ast.Load()),
                      b: ast.Subscript(value=ast.Name(id=p, ctx=ast.Load()), slice=ast.Constant(value=1),
                                       ctx=ast.Load())})
        s.target = ast.Name(id=p, ctx=ast.Store())
        s.body = [sub.visit(x) for x in s.body]
        s.orelse = [sub.visit(x) for x in s.orelse]
        return s


# ------------------------------------------------------------------ inline-helper
def _refs(module, name):
    n = 0
    for m in ast.walk(module):
        if isinstance(m, ast.Name) and m.id == name:
            n += 1
        elif isinstance(m, ast.Attribute) and m.attr == name:
            n += 1
        elif isinstance(m, ast.alias) and (m.name == name or m.asname == name):
            n += 1
        elif isinstance(m, ast.Constant) and m.value == name:      # e.g. __all__ / getattr(module, "name")
            n += 1
    return n


def _conv(stmts, target):
    """helper body -> statements assigning the returned value to `target` (None: keep the returns); None = refuse"""
    if not stmts:
        return None
    s, rest = stmts[0], stmts[1:]
    if isinstance(s, ast.Return):
        if rest or s.value is None:
            return None
        return [s] if target is None else [ast.Assign(targets=[ast.Name(id=target, ctx=ast.Store())], value=s.value)]
    has_ret = any(isinstance(m, ast.Return) for m in ast.walk(s))
    if isinstance(s, ast.If) and has_ret:
        if s.orelse or not _terminates(s.body):
            return None                   # (the helper went through no-else first)
        b, r = _conv(s.body, target), _conv(rest, target)
        if b is None or r is None:
            return None
        if target is None:
            return [ast.If(test=s.test, body=b, orelse=[])] + r
        return [ast.If(test=s.test, body=b, orelse=r)]
    if has_ret or not isinstance(s, (ast.Assign, ast.AugAssign, ast.Expr, ast.If, ast.Pass)):
        return None
    r = _conv(rest, target)
    return None if r is None else [s] + r


def _inline_call(fn, module, call, target, imports_os):
    """the statements that replace `target = call` (or `return call`), or None"""
    if not (isinstance(call, ast.Call) and isinstance(call.func, ast.Name)):
        return None
    name = call.func.id
    if not name.startswith("_") or name.startswith("__") or name == fn.name:
        return None
    defs = [d for d in module.body if isinstance(d, ast.FunctionDef) and d.name == name]
    if len(defs) != 1 or defs[0].decorator_list:
        return None
    if _refs(module, name) != 1:          # the call is the only mention of the name in its module
        return None
    h = strip(defs[0])
    a = h.args
    if a.vararg or a.kwarg or a.kwonlyargs or a.posonlyargs:
        return None
    if not simple_scope(h) or any(isinstance(m, (ast.For, ast.While, ast.Continue, ast.Break))
                                  for m in _body_nodes(h)):
        return None
    names = [x.arg for x in a.args]
    if any(isinstance(x, ast.Starred) for x in call.args) or any(k.arg is None for k in call.keywords):
        return None
    given = dict(zip(names, call.args))
    if len(call.args) > len(names):
        return None
    for k in call.keywords:
        if k.arg in given or k.arg not in names:
            return None
        given[k.arg] = k.value
    if set(given) != set(names):          # defaults are not modelled: every parameter must be supplied
        return None
    if not all(_is_p(v) for v in given.values()):
        return None
    hlocals, hnames = locals_in_order(h)
    if any(_count(h, p, ast.Store) for p in names):
        return None
    clocals, cnames = locals_in_order(fn)
    caller_bound = set(clocals) | set(params(fn))
    if set(hlocals) & (set(cnames) | set(params(fn))):
        return None
    free = set(hnames) - set(hlocals) - set(names)
    if free & caller_bound:               # a global of the helper would be captured by a local of the caller
        return None
    for v in given.values():              # an argument must not be re-bound by the helper body (only locals could)
        if any(isinstance(m, ast.Name) and m.id in hlocals for m in ast.walk(v)):
            return None
    body = _Stmts(h, imports_os).block(h.body)       # brings `if c: return A else: return B` to the no-else form
    body = _conv(body, target)
    if body is None:
        return None
    sub = _Subst(given)
    return [sub.visit(copy.deepcopy(s)) for s in body]


class _Inline(ast.NodeTransformer):
    def __init__(self, fn, module, imports_os):
        self.fn, self.module, self.os = fn, module, imports_os
        self.done = 0

    def _block(self, stmts):
        out = []
        for s in stmts:
            rep = None
            if isinstance(s, ast.Assign) and len(s.targets) == 1 and isinstance(s.targets[0], ast.Name):
                rep = _inline_call(self.fn, self.module, s.value, s.targets[0].id, self.os)
            elif isinstance(s, ast.Return) and s.value is not None:
                rep = _inline_call(self.fn, self.module, s.value, None, self.os)
            if rep is not None:
                self.done += 1
                out.extend(rep)
            else:
                out.append(self.visit(s))
        return out

    def generic_visit(self, node):
        for f in ("body", "orelse"):
            if isinstance(getattr(node, f, None), list) and getattr(node, f) \
                    and isinstance(getattr(node, f)[0], ast.stmt):
                setattr(node, f, self._block(getattr(node, f)))
        return node


# ------------------------------------------------------------------ any-loop
def _pure_test(e):
    if isinstance(e, ast.BoolOp):
        return all(_pure_test(v) for v in e.values)
    if isinstance(e, ast.UnaryOp) and isinstance(e.op, ast.Not):
        return _pure_test(e.operand)
    if isinstance(e, ast.Compare):
        return (all(isinstance(o, (ast.Eq, ast.NotEq, ast.Is, ast.IsNot)) for o in e.ops)
                and all(_is_p(x) for x in [e.left] + e.comparators))
    if isinstance(e, ast.Call):
        return (isinstance(e.func, ast.Name) and e.func.id == "hasattr" and len(e.args) == 2 and not e.keywords
                and _is_p(e.args[0]) and isinstance(e.args[1], ast.Constant) and isinstance(e.args[1].value, str))
    return False


def _any_to_loop(fn):
    bound = {n.id for n in _body_nodes(fn) if isinstance(n, ast.Name) and isinstance(n.ctx, ast.Store)}
    if bound & {"any", "hasattr"} or {"any", "hasattr"} & set(params(fn)):
        return fn
    total = Counter(n.id for n in _body_nodes(fn) if isinstance(n, ast.Name))

    def rewrite(s):
        if not (isinstance(s, ast.Assign) and len(s.targets) == 1 and isinstance(s.targets[0], ast.Name)
                and isinstance(s.value, ast.Call) and isinstance(s.value.func, ast.Name) and s.value.func.id == "any"
                and len(s.value.args) == 1 and not s.value.keywords and isinstance(s.value.args[0], ast.GeneratorExp)):
            return None
        g = s.value.args[0]
        if len(g.generators) != 1:
            return None
        c = g.generators[0]
        if c.ifs or c.is_async or not isinstance(c.target, ast.Name):
            return None
        v, flag = c.target.id, s.targets[0].id
        inside = sum(1 for m in ast.walk(g) if isinstance(m, ast.Name) and m.id == v)
        if inside != total[v] or v in params(fn) or v == flag:
            return None
        if any(isinstance(m, ast.Name) and m.id == flag for m in ast.walk(g)):
            return None
        if any(isinstance(m, (ast.GeneratorExp, ast.ListComp, ast.SetComp, ast.DictComp, ast.Lambda, ast.NamedExpr))
               for x in (g.elt, c.iter) for m in ast.walk(x)):
            return None
        if not _pure_test(g.elt):
            return None
        return [ast.Assign(targets=[ast.Name(id=flag, ctx=ast.Store())], value=ast.Constant(value=False)),
                ast.For(target=ast.Name(id=v, ctx=ast.Store()), iter=c.iter,
                        body=[ast.If(test=g.elt, body=[ast.Assign(targets=[ast.Name(id=flag, ctx=ast.Store())],
                                                                  value=ast.Constant(value=True))], orelse=[])],
                        orelse=[])]

    def block(stmts):
        out = []
        for s in stmts:
            for f in ("body", "orelse"):
                if isinstance(s, (ast.If, ast.For, ast.While)) and getattr(s, f):
                    setattr(s, f, block(getattr(s, f)))
            r = rewrite(s)
            out.extend(r if r is not None else [s])
        return out
    fn.body = block(fn.body)
    return ast.fix_missing_locations(fn)


# ------------------------------------------------------------------ driver
def _imports_os(module):
    return module is not None and any(isinstance(s, ast.Import) and any(a.name == "os" and a.asname is None
                                                                         for a in s.names) for s in module.body)


def canon(fn, module=None):
    """normalised deep copy of the FunctionDef `fn` (module: the ast.Module it lives in, for inline-helper)"""
    fn = _any_to_loop(strip(fn))
    if not simple_scope(fn):
        return fn                         # only (S); the comparison will refuse what it does not know
    imports_os = _imports_os(module)
    for _ in range(4):
        if module is None:
            break
        inl = _Inline(fn, module, imports_os)
        fn = inl.generic_visit(fn)
        if not inl.done:
            break
    for _ in range(12):
        before = ast.dump(fn)
        fn.body = _Stmts(fn, imports_os).block(fn.body)
        ast.fix_missing_locations(fn)
        if ast.dump(fn) == before:
            break
    return fn


class _Rename(ast.NodeTransformer):
    def __init__(self, mapping):
        self.mapping = mapping

    def visit_Name(self, n):
        if n.id in self.mapping:
            return ast.Name(id=self.mapping[n.id], ctx=n.ctx)
        return n


def alpha(got, exp):
    """rename the locals of `got` to those of `exp` by order of first binding (both normalised, same parameters).
    Returns `got` unchanged when that is not possible; the comparison then fails on the first differing name."""
    if not (simple_scope(got) and simple_scope(exp)):
        return got
    gl, gnames = locals_in_order(got)
    el, _ = locals_in_order(exp)
    if len(gl) != len(el) or gl == el:
        return got
    mapping = dict(zip(gl, el))
    free = set(gnames) - set(gl)          # parameters, globals, builtins read in `got`
    if any(new in free for old, new in mapping.items() if old != new):
        return got                        # capture
    return _Rename(mapping).visit(copy.deepcopy(got))
