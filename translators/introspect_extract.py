"""C11 translator: the introspection helpers of the CURRENT tree -> lean/NmlVerif/Gen/Introspect.lean.

Translated statement by statement (top-level statements of each body; compound statements are matched as a whole
against the statement form the vocabulary constructor stands for, with HOLES for the sub-expressions that carry the
property: which MemberSpec_ getter feeds which output field, how `required` is computed, how the ids are sorted):

  * `GeneratedsSuperSuper._get_members`  -> `getMembersProg : List GMCmd`   (class-level cache, copy vs alias, `+=`)
  * `GeneratedsSuperSuper.info`          -> `infoProg : List ICmd` (+ `InfoLoop` of translated sub-expressions)
  * `GeneratedsSuperSuper.parentinfo`    -> `pinfoProg : List PCmd` (+ `PLoop`), the `excluded_classes` list and the
                                            binding classes the `dir(module)` filter would hide (`hiddenClasses`)
  * `GeneratedsSuperSuper._check_arg_list` -> `checkProg : List CCmd`
  * `NeuroMLDocument.get_by_id`, `Network.get_by_id` from BOTH `nml.py` and `helper_methods.py` -> `List GCmd`
    (the two files must give the same term); the class attribute `warn_count = 0`
  * `changed_names.csv` -> `renameCsv` (schema name -> Python name, interned), plus the two generateDS clean-ups seen
    from the interned names: Python keywords get a trailing `_`, an attribute whose name clashes with a child gets
    `_attr`.

A statement that is not one of the recognised forms is a GAP (returned to the framework: the run fails); nothing is
skipped silently.  Docstrings and comments are not behaviour and are dropped.
"""
import ast
import csv
import keyword
import os
import re
import textwrap

GSS = "neuroml/nml/generatedssupersuper.py"
NML = "neuroml/nml/nml.py"
HELPERS = "neuroml/nml/helper_methods.py"
CSV = "neuroml/nml/changed_names.csv"


# ------------------------------------------------------------------ AST helpers
def _is_doc(stmt):
    return isinstance(stmt, ast.Expr) and isinstance(stmt.value, ast.Constant) and isinstance(stmt.value.value, str)


def _body(fn):
    return [s for s in fn.body if not _is_doc(s)]


# ------------------------------------------------------------------ normalisation (robustness round)
# Every rewrite below maps one surface shape to ONE canonical shape and preserves the behaviour for all inputs; it is
# applied to the bodies read from the tree AND to the templates, so equivalent spellings give the same Lean term.
def _terminates(body):
    """does every path through `body` end in return / raise / continue / break?"""
    if not body:
        return False
    last = body[-1]
    if isinstance(last, (ast.Return, ast.Raise, ast.Continue, ast.Break)):
        return True
    if isinstance(last, ast.If):
        return _terminates(last.body) and _terminates(last.orelse)
    return False


def _names_in(node):
    return {n.id for n in ast.walk(node) if isinstance(n, ast.Name)}


def _is_call(e, fname, nargs=None):
    return (isinstance(e, ast.Call) and isinstance(e.func, ast.Name) and e.func.id == fname and not e.keywords
            and (nargs is None or len(e.args) == nargs))


def _keys_of(e):
    """D for `D.keys()`"""
    if (isinstance(e, ast.Call) and not e.args and not e.keywords and isinstance(e.func, ast.Attribute)
            and e.func.attr == "keys" and isinstance(e.func.value, ast.Name)):
        return e.func.value.id
    return None


class Normaliser:
    def __init__(self, fn_all_names, always_dicts):
        self.all_names = fn_all_names          # every Name occurring in the function (to judge "used nowhere else")
        self.always_dicts = set(always_dicts)  # names that hold a dict whenever they are read

    # ---- expressions
    def expr(self, e, dicts):
        if e is None or not isinstance(e, ast.AST):
            return e
        for f, v in ast.iter_fields(e):
            if isinstance(v, list):
                setattr(e, f, [self.expr(x, dicts) if isinstance(x, ast.AST) else x for x in v])
            elif isinstance(v, ast.AST):
                setattr(e, f, self.expr(v, dicts))
        # `not a in b` == `a not in b` (the `in` protocol returns a truth value that `not` negates either way)
        if isinstance(e, ast.UnaryOp) and isinstance(e.op, ast.Not) and isinstance(e.operand, ast.Compare) \
                and len(e.operand.ops) == 1 and isinstance(e.operand.ops[0], (ast.In, ast.NotIn)):
            c = e.operand
            c.ops = [ast.NotIn() if isinstance(c.ops[0], ast.In) else ast.In()]
            return c
        # `not x` == `False if x else True` (both test the truth of x exactly once and give a bool)
        if isinstance(e, ast.UnaryOp) and isinstance(e.op, ast.Not):
            return ast.IfExp(test=e.operand, body=ast.Constant(False), orelse=ast.Constant(True))
        # `list(d)` == `list(d.keys())` for a dict d (iterating a dict yields its keys)
        if _is_call(e, "list", 1) and isinstance(e.args[0], ast.Name) and e.args[0].id in dicts:
            d = e.args[0]
            e.args = [ast.Call(func=ast.Attribute(value=d, attr="keys", ctx=ast.Load()), args=[], keywords=[])]
            return e
        # "…{}…".format(a, b) == f"…{a}…{b}…" when the literal holds only plain `{}` fields (format(x, "") both ways)
        if (isinstance(e, ast.Call) and isinstance(e.func, ast.Attribute) and e.func.attr == "format" and not e.keywords
                and isinstance(e.func.value, ast.Constant) and isinstance(e.func.value.value, str)
                and not any(isinstance(a, ast.Starred) for a in e.args)):
            lit = e.func.value.value
            parts = lit.split("{}")
            if len(parts) == len(e.args) + 1 and not any("{" in p or "}" in p for p in parts):
                vals = []
                for i, p_ in enumerate(parts):
                    if p_:
                        vals.append(ast.Constant(p_))
                    if i < len(e.args):
                        vals.append(ast.FormattedValue(value=e.args[i], conversion=-1, format_spec=None))
                return ast.JoinedStr(values=vals)
        if isinstance(e, ast.JoinedStr):
            # adjacent literal pieces are one literal
            vals = []
            for v in e.values:
                if isinstance(v, ast.Constant) and vals and isinstance(vals[-1], ast.Constant):
                    vals[-1] = ast.Constant(vals[-1].value + v.value)
                else:
                    vals.append(v)
            e.values = vals
        return e

    @staticmethod
    def _keyview(e, dicts):
        if _is_call(e, "list", 1):
            e = e.args[0]
        d = _keys_of(e) or (e.id if isinstance(e, ast.Name) else None)
        return d is not None and d in dicts

    # ---- statement lists
    def block(self, body, dicts):
        out = []
        body = [s_ for s_ in body if not _is_doc(s_)]
        i = 0
        while i < len(body):
            st = body[i]
            nxt = body[i + 1] if i + 1 < len(body) else None
            # `if c: x = A else: x = B`  ==  `x = A if c else B` (one plain name bound in both single-statement branches)
            if (isinstance(st, ast.If) and len(st.body) == 1 and len(st.orelse) == 1
                    and all(isinstance(b_, ast.Assign) and len(b_.targets) == 1 and isinstance(b_.targets[0], ast.Name) for b_ in (st.body[0], st.orelse[0]))
                    and st.body[0].targets[0].id == st.orelse[0].targets[0].id):
                st = ast.Assign(targets=[st.body[0].targets[0]],
                                value=ast.IfExp(test=st.test, body=st.body[0].value, orelse=st.orelse[0].value), lineno=0)
            # `return A if c else B`  ==  `if c: return A` + `return B`
            if isinstance(st, ast.Return) and isinstance(st.value, ast.IfExp):
                body[i:i + 1] = [ast.If(test=st.value.test, body=[ast.Return(value=st.value.body)], orelse=[]),
                                 ast.Return(value=st.value.orelse)]
                continue
            # `x = [E for v in IT if C]`  ==  `x = []` + `for v in IT: if C: x.append(E)`; the loop variable would leak, so
            # only when `v` occurs nowhere outside the comprehension; E / C must not mention x
            if (isinstance(st, ast.Assign) and len(st.targets) == 1 and isinstance(st.targets[0], ast.Name)
                    and isinstance(st.value, ast.ListComp) and len(st.value.generators) == 1
                    and isinstance(st.value.generators[0].target, ast.Name) and not st.value.generators[0].is_async):
                g = st.value.generators[0]
                x, v = st.targets[0].id, g.target.id
                inside = sum(1 for n in ast.walk(st.value) if isinstance(n, ast.Name) and n.id == v)
                if self.all_names.get(v, 0) == inside and x not in _names_in(st.value):
                    app = ast.Expr(ast.Call(func=ast.Attribute(value=ast.Name(id=x, ctx=ast.Load()), attr="append", ctx=ast.Load()),
                                            args=[st.value.elt], keywords=[]))
                    inner = [app]
                    for cond in reversed(g.ifs):
                        inner = [ast.If(test=cond, body=inner, orelse=[])]
                    body[i:i + 1] = [ast.Assign(targets=[st.targets[0]], value=ast.List(elts=[], ctx=ast.Load())),
                                     ast.For(target=g.target, iter=g.iter, body=inner, orelse=[])]
                    continue
            # `v = list(d.keys())` used only as the iterable of the very next `for`  ==  `for … in list(d.keys())`
            # (nothing runs in between; restricted to key views of known dicts: no side effect is moved)
            if (isinstance(st, ast.Assign) and len(st.targets) == 1 and isinstance(st.targets[0], ast.Name)
                    and isinstance(nxt, ast.For) and isinstance(nxt.iter, ast.Name) and nxt.iter.id == st.targets[0].id
                    and self.all_names.get(st.targets[0].id, 0) == 2 and self._keyview(st.value, dicts)):
                nxt.iter = st.value
                i += 1
                continue
            if isinstance(st, ast.For):
                # `for k in list(d.keys())` == `for k in d.keys()` == `for k in d` when the body never touches d
                it = st.iter
                if _is_call(it, "list", 1):
                    inner = it.args[0]
                    d = _keys_of(inner) or (inner.id if isinstance(inner, ast.Name) else None)
                else:
                    d = _keys_of(it)
                if d is not None and d in dicts and d not in {n for b_ in st.body for n in _names_in(b_)}:
                    st.iter = ast.Name(id=d, ctx=ast.Load())
            # a tuple of exception classes == one handler per class with the same body (no name bound)
            if isinstance(st, ast.Try):
                hs = []
                for h in st.handlers:
                    if isinstance(h.type, ast.Tuple) and h.name is None:
                        hs += [ast.ExceptHandler(type=t, name=None, body=[_copy(b_) for b_ in h.body]) for t in h.type.elts]
                    else:
                        hs.append(h)
                st.handlers = hs
            # recurse
            if isinstance(st, ast.If):
                st.test = self.expr(st.test, dicts)
                inner_d = set(dicts)
                t = st.test
                if _is_call(t, "isinstance", 2) and isinstance(t.args[0], ast.Name) and isinstance(t.args[1], ast.Name) and t.args[1].id == "dict":
                    inner_d.add(t.args[0].id)
                st.body = self.block(st.body, inner_d)
                st.orelse = self.block(st.orelse, dicts)
                # `else:` / `elif` after a branch that always returns / raises / continues / breaks == no else
                if st.orelse and _terminates(st.body):
                    rest = st.orelse
                    st.orelse = []
                    out.append(st)
                    body[i + 1:i + 1] = []
                    out += rest
                    i += 1
                    continue
            elif isinstance(st, (ast.For, ast.While)):
                if isinstance(st, ast.For):
                    st.iter = self.expr(st.iter, dicts)
                else:
                    st.test = self.expr(st.test, dicts)
                st.body = self.block(st.body, dicts)
                st.orelse = self.block(st.orelse, dicts)
            elif isinstance(st, ast.Try):
                st.body = self.block(st.body, dicts)
                for h in st.handlers:
                    h.body = self.block(h.body, dicts)
                st.orelse = self.block(st.orelse, dicts)
                st.finalbody = self.block(st.finalbody, dicts)
            elif isinstance(st, ast.With):
                st.body = self.block(st.body, dicts)
            else:
                st = self.expr(st, dicts)
            out.append(st)
            i += 1
        return out


def _copy(node):
    return ast.parse(ast.unparse(node)).body[0] if isinstance(node, ast.stmt) else node


def _name_counts(nodes):
    c = {}
    for nd in nodes:
        for n in ast.walk(nd):
            if isinstance(n, ast.Name):
                c[n.id] = c.get(n.id, 0) + 1
    return c


def _always_dicts(fn_or_stmts, params_kw=()):
    """names that are a dict whenever read: the `**kwargs` parameter, and locals whose every binding is `{}` / a dict display"""
    stmts = fn_or_stmts
    bound, notdict = set(), set()
    for nd in stmts:
        for n in ast.walk(nd):
            tgts = []
            if isinstance(n, ast.Assign):
                tgts = [(t, n.value) for t in n.targets]
            elif isinstance(n, (ast.AugAssign, ast.AnnAssign)):
                tgts = [(n.target, None)]
            elif isinstance(n, (ast.For, ast.comprehension)):
                tgts = [(n.target, None)]
            elif isinstance(n, ast.ExceptHandler) and n.name:
                notdict.add(n.name)
            elif isinstance(n, ast.withitem) and n.optional_vars is not None:
                tgts = [(n.optional_vars, None)]
            for t, v in tgts:
                for nm in ast.walk(t):
                    if isinstance(nm, ast.Name) and isinstance(nm.ctx, ast.Store):
                        if t is nm and isinstance(v, ast.Dict):
                            bound.add(nm.id)
                        else:
                            notdict.add(nm.id)
    return (bound - notdict) | set(params_kw)


def normalise(stmts, params_kw=()):
    stmts = [s_ for s_ in stmts if not _is_doc(s_)]
    return Normaliser(_name_counts(stmts), _always_dicts(stmts, params_kw)).block(stmts, _always_dicts(stmts, params_kw))


def _tmpl(src, params_kw=()):
    """a template = a normalised statement SEQUENCE"""
    return normalise(ast.parse(textwrap.dedent(src)).body, params_kw)


_SKIP = {"ctx", "lineno", "col_offset", "end_lineno", "end_col_offset", "type_comment", "kind"}


class Match:
    """state of the unification of one function: holes, and the renaming template-local -> actual name (alpha
    renaming of locals: consistent, injective, and never onto a name the function also uses literally)"""

    def __init__(self, locals_):
        self.locals = set(locals_)
        self.ren, self.inv, self.literal = {}, {}, set()

    def name(self, t, a):
        if t in self.locals:
            if self.ren.get(t, a) != a or self.inv.get(a, t) != t:
                return False
            self.ren[t], self.inv[a] = a, t
            return True
        self.literal.add(t)
        return t == a

    def ok(self):
        return not (set(self.inv) & self.literal)


def unify(t, a, cap, M):
    """structural match of template `t` against actual `a`; template names HOLE_x capture the actual subtree"""
    if isinstance(t, ast.Name) and t.id.startswith("HOLE_"):
        cap.setdefault(t.id[5:], []).append(a)
        return True
    if type(t) is not type(a):
        return False
    if isinstance(t, ast.Name):
        return M.name(t.id, a.id)
    if isinstance(t, ast.AST):
        for f in t._fields:
            if f in _SKIP:
                continue
            if not unify(getattr(t, f, None), getattr(a, f, None), cap, M):
                return False
        return True
    if isinstance(t, list):
        if t and all(isinstance(x, ast.stmt) for x in t) and all(isinstance(x, ast.stmt) for x in a):
            t = [x for x in t if not _is_doc(x)]
            a = [x for x in a if not _is_doc(x)]
        if len(t) != len(a):
            return False
        return all(unify(x, y, cap, M) for x, y in zip(t, a))
    return t == a


def _find(tree, qual):
    node = tree
    for p in qual.split("."):
        nxt = None
        for ch in ast.iter_child_nodes(node):
            if isinstance(ch, (ast.FunctionDef, ast.ClassDef)) and ch.name == p:
                nxt = ch
        if nxt is None:
            return None
        node = nxt
    return node


def _src(node):
    try:
        return ast.unparse(node)[:160].replace("\n", " ; ")
    except Exception:
        return ast.dump(node)[:160]


class Refuse(Exception):
    pass


# ------------------------------------------------------------------ expression translators
GETTERS = {"get_name": "NExp.name", "get_data_type": "NExp.dtype"}
MEMBER_VARS = ("member", "amember", "m")


def _member_var(name):
    """is `name` what the tree calls one of the templates' MemberSpec_ loop variables?"""
    M = CURRENT["M"]
    return name in {M.ren.get(v, v) for v in MEMBER_VARS} if M else name in MEMBER_VARS


def nexp(e, where):
    if (isinstance(e, ast.Call) and not e.args and not e.keywords and isinstance(e.func, ast.Attribute)
            and isinstance(e.func.value, ast.Name) and _member_var(e.func.value.id) and e.func.attr in GETTERS):
        return GETTERS[e.func.attr]
    raise Refuse("%s: not a MemberSpec_ getter I know: %s" % (where, _src(e)))


def bexp(e, where):
    if isinstance(e, ast.Constant) and isinstance(e.value, bool):
        return "(BExp.const %s)" % ("true" if e.value else "false")
    if (isinstance(e, ast.Call) and not e.args and not e.keywords and isinstance(e.func, ast.Attribute)
            and isinstance(e.func.value, ast.Name) and _member_var(e.func.value.id) and e.func.attr == "get_optional"):
        return "BExp.optional"
    if isinstance(e, ast.IfExp):
        return "(BExp.ite %s %s %s)" % (bexp(e.test, where), bexp(e.body, where), bexp(e.orelse, where))
    if isinstance(e, ast.UnaryOp) and isinstance(e.op, ast.Not):
        return "(BExp.not %s)" % bexp(e.operand, where)
    raise Refuse("%s: boolean expression outside the vocabulary: %s" % (where, _src(e)))


def word_exp(e, where):
    """`"Optional" if <b> else "Required"` -> the BExp under which the line says Optional"""
    if isinstance(e, ast.IfExp) and isinstance(e.body, ast.Constant) and isinstance(e.orelse, ast.Constant):
        if (e.body.value, e.orelse.value) == ("Optional", "Required"):
            return bexp(e.test, where)
        if (e.body.value, e.orelse.value) == ("Required", "Optional"):
            return "(BExp.not %s)" % bexp(e.test, where)
    raise Refuse("%s: Optional/Required word expression not understood: %s" % (where, _src(e)))


def one(cap, k, where):
    v = cap.get(k)
    if not v:
        raise Refuse("%s: hole %s not filled" % (where, k))
    return v


def same(vals, where):
    if len(set(vals)) != 1:
        raise Refuse("%s: the same sub-expression is expected at every site, got %s" % (where, sorted(set(vals))))
    return vals[0]


def _template_locals(forms, params_kw=()):
    """names bound somewhere in the templates of one function (its locals; parameters and globals are never bound)"""
    out = set()
    for src, _ in forms:
        for st in _tmpl(src, params_kw):
            for n in ast.walk(st):
                if isinstance(n, ast.Name) and isinstance(n.ctx, ast.Store) and not n.id.startswith("HOLE_"):
                    out.add(n.id)
                elif isinstance(n, ast.ExceptHandler) and n.name:
                    out.add(n.name)
    return out


CURRENT = {"M": None}     # the Match of the function being translated (the expression translators ask it for renamings)


def translate_body(stmts, forms, where, params_kw=()):
    """forms: list of (template source = a statement SEQUENCE, builder(cap) -> Lean term | [terms] | None).  The
    normalised body must be a concatenation of matched forms; anything else is refused."""
    body = normalise(stmts, params_kw)
    M = Match(_template_locals(forms, params_kw))
    CURRENT["M"] = M
    tmpls = [(_tmpl(src, params_kw), build) for src, build in forms]
    out, i = [], 0
    while i < len(body):
        for tm, build in tmpls:
            k = len(tm)
            if k == 0 or i + k > len(body):
                continue
            cap = {}
            saved = (dict(M.ren), dict(M.inv), set(M.literal))
            if unify(tm, body[i:i + k], cap, M) and M.ok():
                term = build(cap)
                if isinstance(term, list):
                    out += term
                elif term is not None:
                    out.append(term)
                i += k
                break
            M.ren, M.inv, M.literal = saved
        else:
            raise Refuse("%s: statement not understood: %s" % (where, _src(body[i])))
    return out


# ------------------------------------------------------------------ _get_members
# (name mangling of `cls.__all_members_` happens at compile time: the AST carries the name as written)
GM_FORMS = [
    ("import copy", lambda c: None),
    ("current_class = cls.__name__", lambda c: "GMCmd.bindCurrentClass"),
    ("""
try:
    return cls.__all_members_[current_class]
except AttributeError:
    cls.__all_members_ = {}
except KeyError:
    pass
""", lambda c: "GMCmd.tryReturnCached"),
    ("cls.__all_members_[current_class] = copy.copy(cls.member_data_items_)", lambda c: "GMCmd.cacheAssignCopyOwn"),
    ("cls.__all_members_[current_class] = cls.member_data_items_", lambda c: "GMCmd.cacheAssignOwn"),
    ("all_members = copy.copy(cls.member_data_items_)", lambda c: "GMCmd.localAssignCopyOwn"),
    ("all_members = cls.member_data_items_", lambda c: "GMCmd.localAssignOwn"),
    ("""
for c in cls.__mro__:
    try:
        cls.__all_members_[current_class] += c.member_data_items_
    except AttributeError:
        pass
    except TypeError:
        pass
""", lambda c: "GMCmd.forMroIaddCache"),
    ("""
for c in cls.__mro__:
    try:
        all_members += c.member_data_items_
    except AttributeError:
        pass
    except TypeError:
        pass
""", lambda c: "GMCmd.forMroIaddLocal"),
    ("cls.__all_members_[current_class] = list(set(cls.__all_members_[current_class]))", lambda c: "GMCmd.cacheDedup"),
    ("cls.__all_members_[current_class] = list(set(all_members))", lambda c: "GMCmd.cacheAssignDedupLocal"),
    ("return cls.__all_members_[current_class]", lambda c: "GMCmd.returnCache"),
]


def tr_get_members(fn):
    decos = [ast.unparse(d) for d in fn.decorator_list]
    if decos != ["classmethod"]:
        raise Refuse("_get_members: expected exactly @classmethod, got %s" % decos)
    if [a.arg for a in fn.args.args] != ["cls"] or fn.args.vararg or fn.args.kwarg or fn.args.kwonlyargs:
        raise Refuse("_get_members: parameters changed")
    return translate_body(_body(fn), GM_FORMS, "_get_members")


# ------------------------------------------------------------------ info
INFO_LOOP = '''
for member in all_members:
    info_str += "* {} (class: {}, {})\\n".format(HOLE_lineName, HOLE_lineType, HOLE_lineWord)
    if show_contents:
        info_ret[HOLE_dictKey] = {}
        info_ret[HOLE_dictKey]["required"] = HOLE_dictRequired
        info_ret[HOLE_dictKey]["type"] = HOLE_dictType
        contents = getattr(self, member.get_name(), None)
        if contents is None or (isinstance(contents, list) and len(contents) == 0):
            if show_contents == "all":
                info_str += "\\t* Contents: {}\\n\\n".format(contents)
        else:
            contents_id = None
            if isinstance(contents, list):
                contents_id = []
                for c in contents:
                    if hasattr(c, "id"):
                        contents_id.append(c.id)
                    else:
                        contents_id.append(c)
            else:
                if hasattr(contents, "id"):
                    contents_id = f"'{contents.id}'"
                else:
                    contents_id = contents
            info_str += "\\t* Contents ('ids'/<objects>): {}\\n\\n".format(contents_id)
        info_ret[HOLE_dictKey]["members"] = getattr(self, member.get_name(), None)
    else:
        info_ret.append(HOLE_listItem)
'''


def _info_loop(cap):
    w = "info loop"
    key = same([nexp(e, w) for e in one(cap, "dictKey", w)], w)
    return ("(ICmd.forMembers { lineName := %s, lineType := %s, lineOptional := %s, dictKey := %s, dictRequired := %s, "
            "dictType := %s, listItem := %s })" % (
                nexp(one(cap, "lineName", w)[0], w), nexp(one(cap, "lineType", w)[0], w), word_exp(one(cap, "lineWord", w)[0], w),
                key, bexp(one(cap, "dictRequired", w)[0], w), nexp(one(cap, "dictType", w)[0], w),
                nexp(one(cap, "listItem", w)[0], w)))


INFO_FORMS = [
    ("""
if show_contents:
    info_ret = {}
else:
    info_ret = []
""", lambda c: "ICmd.initRet"),
    ('''
try:
    info_str = "{}\\n\\n".format(self.__class__.__doc__.split(":param")[0].strip())
except AttributeError:
    info_str = ""
''', lambda c: "ICmd.header"),
    ("class_name = self.__class__.__name__", lambda c: None),
    ('info_str += f"NeuroMLv2 schema documentation: https://docs.neuroml.org/Userdocs/Schemas/Index.html?highlight={class_name[0].lower()}{class_name[1:]}#{class_name.lower()} for more information.\\n\\n"',
     lambda c: None),
    ('info_str += "Valid members for {} are:\\n".format(class_name)', lambda c: None),
    ("all_members = self._get_members()", lambda c: "ICmd.bindMembers"),
    (INFO_LOOP, _info_loop),
    ("""
if return_format == "list":
    if isinstance(info_ret, dict):
        return list(info_ret.keys())
    else:
        return info_ret
elif return_format == "dict":
    return info_ret
""", lambda c: "ICmd.retByFormat"),
    ("print(info_str)", lambda c: "ICmd.printStr"),
    ("return info_str", lambda c: "ICmd.retStr"),
]


def tr_info(fn):
    a = fn.args
    if [x.arg for x in a.args] != ["self", "show_contents", "return_format"] or [ast.unparse(d) for d in a.defaults] != ["False", "'string'"]:
        raise Refuse("info: signature changed: %s" % ast.unparse(a))
    if fn.decorator_list:
        raise Refuse("info: decorated")
    return translate_body(_body(fn), INFO_FORMS, "info")


# ------------------------------------------------------------------ parentinfo
PINFO_LOOP = '''
for ac in nml_ct_classes:
    if ac.startswith("_") or ac.endswith("_") or ac in excluded_classes:
        continue
    cc = getattr(module_object, ac, None)
    if type(cc) is type:
        try:
            cc_members = cc()._get_members()
            for amember in cc_members:
                if HOLE_matchType == self.__class__.__name__:
                    if ac not in retinfo:
                        retinfo[ac] = {}
                    required = HOLE_required
                    retinfo[ac][HOLE_key] = {"required": required, "type": HOLE_type}
        except AttributeError:
            pass
'''


def _pinfo_loop(cap):
    w = "parentinfo loop"
    return "(PCmd.forClasses { matchType := %s, key := %s, required := %s, type := %s })" % (
        nexp(one(cap, "matchType", w)[0], w), nexp(one(cap, "key", w)[0], w), bexp(one(cap, "required", w)[0], w),
        nexp(one(cap, "type", w)[0], w))


def tr_parentinfo(fn):
    a = fn.args
    if [x.arg for x in a.args] != ["self", "return_format"] or [ast.unparse(d) for d in a.defaults] != ["'string'"] or fn.decorator_list:
        raise Refuse("parentinfo: signature changed")
    excluded = []

    def excl(cap):
        lst = one(cap, "list", "excluded_classes")[0]
        if not (isinstance(lst, ast.List) and all(isinstance(e, ast.Constant) and isinstance(e.value, str) for e in lst.elts)):
            raise Refuse("parentinfo: excluded_classes is not a list of string literals")
        excluded.extend(e.value for e in lst.elts)
        return "PCmd.excluded"

    forms = [
        ("excluded_classes = HOLE_list", excl),
        ('''
try:
    info_str = "{}\\n\\n".format(self.__class__.__doc__.split(":param")[0].strip())
except AttributeError:
    info_str = ""
''', lambda c: "PCmd.header"),
        ('info_str += "Please see the NeuroML standard schema documentation at https://docs.neuroml.org/Userdocs/NeuroMLv2.html for more information.\\n\\n"',
         lambda c: None),
        ('info_str += "Valid parents for {} are:\\n".format(self.__class__.__name__)', lambda c: None),
        ("retinfo = {}", lambda c: "PCmd.initRetinfo"),
        ("module_object = sys.modules[self.__module__]", lambda c: None),
        ("nml_ct_classes = dir(module_object)", lambda c: "PCmd.moduleClasses"),
        (PINFO_LOOP, _pinfo_loop),
        ('''
for parent, members in retinfo.items():
    info_str += f"* {parent}\\n"
    for name, info in members.items():
        info_str += "\\t* {} (class: {}, {})\\n".format(name, info["type"], "Required" if info["required"] else "Optional")
''', lambda c: "PCmd.buildString"),
        ("""
if return_format == "list":
    return list(retinfo.keys())
elif return_format == "dict":
    return retinfo
""", lambda c: "PCmd.retByFormat"),
        ("print(info_str)", lambda c: "PCmd.printStr"),
        ("return info_str", lambda c: "PCmd.retStr"),
    ]
    prog = translate_body(_body(fn), forms, "parentinfo")
    return prog, excluded


# ------------------------------------------------------------------ _check_arg_list
def tr_check(fn):
    if [x.arg for x in fn.args.args] != ["self"] or not fn.args.kwarg or fn.args.kwarg.arg != "kwargs" or fn.decorator_list:
        raise Refuse("_check_arg_list: signature changed")
    forms = [
        ("members = self._get_members()", lambda c: "CCmd.bindMembers"),
        ("member_names = []", lambda c: "CCmd.initNames"),
        ("""
for m in members:
    member_names.append(HOLE_e)
""", lambda c: "(CCmd.forCollect %s)" % nexp(one(c, "e", "_check_arg_list")[0], "_check_arg_list")),
        # `args = list(kwargs.keys())` + `for arg in args:` (normal form: `for arg in kwargs:`) -> two vocabulary terms
        ('''
args = list(kwargs.keys())
for arg in args:
    if arg not in member_names:
        err = f"'{arg}' is not a permitted argument for ComponentType '{self.__class__.__name__}'\\n"
        print(err)
        self.info()
        raise ValueError(err)
''', lambda c: ["CCmd.bindArgs", "CCmd.forArgsRaise"]),
    ]
    return translate_body(_body(fn), forms, "_check_arg_list", params_kw=("kwargs",))


# ------------------------------------------------------------------ get_by_id
SCAN = '''
for ms in self.member_data_items_:
    mlist = getattr(self, ms.get_name())
    if mlist is None:
        continue
    for m in mlist:
        if hasattr(m, "id"):
            if m.id == id:
                return m
            else:
                all_ids.append(m.id)
'''


def _sorted_key(e, where):
    if isinstance(e, ast.Call) and isinstance(e.func, ast.Name) and e.func.id == "sorted" and len(e.args) == 1 \
            and isinstance(e.args[0], ast.Name) and e.args[0].id == "all_ids":
        if not e.keywords:
            return "false"
        if len(e.keywords) == 1 and e.keywords[0].arg == "key" and isinstance(e.keywords[0].value, ast.Name) and e.keywords[0].value.id == "str":
            return "true"
    raise Refuse("%s: how the ids are sorted for the warning is not understood: %s" % (where, _src(e)))


def tr_get_by_id(fn, element, where):
    if [x.arg for x in fn.args.args] != ["self", "id"] or fn.decorator_list:
        raise Refuse("%s: signature changed" % where)
    forms = [
        ('''
if len(id) == 0:
    callframe = inspect.getouterframes(inspect.currentframe(), 2)
    print("Method: " + callframe[1][3] + " is asking for an element with no id...")
    return None
''', lambda c: "GCmd.guardEmptyId"),
        ("all_ids = []", lambda c: "GCmd.initAllIds"),
        (SCAN, lambda c: "GCmd.scan"),
        ('''
if self.warn_count < 10:
    neuroml.print_("Id " + id + " not found in <%s> element. All ids: " + str(HOLE_sorted))
    self.warn_count += 1
elif self.warn_count == 10:
    neuroml.print_(" - Suppressing further warnings about id not found...")
''' % element, lambda c: "(GCmd.warn %s)" % _sorted_key(one(c, "sorted", where)[0], where)),
        ("return None", lambda c: "GCmd.returnNone"),
    ]
    return translate_body(_body(fn), forms, where)


def _class_funcs_from_text(text, cls, fname):
    """cut `def fname` of `class cls` out of a big module text without parsing all of it"""
    m = re.search(r"^class %s\(.*?\):\s*$" % re.escape(cls), text, re.M)
    if not m:
        return None, None
    nxt = re.search(r"^class \w+", text[m.end():], re.M)
    body = text[m.end(): m.end() + nxt.start()] if nxt else text[m.end():]
    try:
        tree = ast.parse("class %s:\n%s" % (cls, body))
    except SyntaxError:
        return None, None
    k = tree.body[0]
    fn = next((s for s in k.body if isinstance(s, ast.FunctionDef) and s.name == fname), None)
    wc = [ast.unparse(s) for s in k.body if isinstance(s, ast.Assign) and any(isinstance(t, ast.Name) and t.id == "warn_count" for t in s.targets)]
    return fn, wc


def _helper_funcs(path, fname):
    """{class_names: (FunctionDef, [warn_count assigns])} from the MethodSpec sources of helper_methods.py"""
    out = {}
    tree = ast.parse(open(path).read())
    for node in ast.walk(tree):
        if isinstance(node, ast.Call) and isinstance(node.func, ast.Name) and node.func.id == "MethodSpec":
            kw = {k.arg: k.value for k in node.keywords}
            src, cn = kw.get("source"), kw.get("class_names")
            if not (isinstance(src, ast.Constant) and isinstance(src.value, str) and ("def %s(" % fname) in src.value):
                continue
            try:
                cn_val = ast.literal_eval(cn)
            except Exception:
                cn_val = None
            try:
                sub = ast.parse("class _K:\n" + textwrap.indent(textwrap.dedent(src.value), "    ") + "\n    pass\n")
            except SyntaxError as e:
                out[str(cn_val)] = (None, ["unparsable: %r" % (e,)])
                continue
            k = sub.body[0]
            fn = next((s for s in k.body if isinstance(s, ast.FunctionDef) and s.name == fname), None)
            wc = [ast.unparse(s) for s in k.body if isinstance(s, ast.Assign) and any(isinstance(t, ast.Name) and t.id == "warn_count" for t in s.targets)]
            out[str(cn_val)] = (fn, wc)
    return out


# ------------------------------------------------------------------ driver
def lean_list(items, ty=None):
    return "[" + ", ".join(items) + "]"


def extract(repo, table, N):
    """-> (dict of Lean terms, gaps)"""
    gaps, R = [], {}
    try:
        tree = ast.parse(open(os.path.join(repo, GSS)).read())
    except Exception as e:
        return None, ["introspect: cannot parse %s: %r" % (GSS, e)]

    def attempt(name, f):
        try:
            return f()
        except Refuse as e:
            gaps.append("introspect: " + str(e))
        except Exception as e:       # never let a surprise pass silently
            gaps.append("introspect: %s: translator error %r" % (name, e))
        return None

    def fn(q):
        node = _find(tree, "GeneratedsSuperSuper." + q)
        if node is None:
            raise Refuse("GeneratedsSuperSuper.%s not found" % q)
        return node

    R["gm"] = attempt("_get_members", lambda: tr_get_members(fn("_get_members")))
    R["info"] = attempt("info", lambda: tr_info(fn("info")))
    pi = attempt("parentinfo", lambda: tr_parentinfo(fn("parentinfo")))
    R["pinfo"], R["excluded"] = pi if pi else (None, [])
    R["check"] = attempt("_check_arg_list", lambda: tr_check(fn("_check_arg_list")))

    # get_by_id: nml.py and helper_methods.py
    text = open(os.path.join(repo, NML)).read()
    helpers = attempt("helper_methods", lambda: _helper_funcs(os.path.join(repo, HELPERS), "get_by_id")) or {}
    for key, cls, element in (("docGet", "NeuroMLDocument", "neuroml"), ("netGet", "Network", "network")):
        f1, wc1 = _class_funcs_from_text(text, cls, "get_by_id")
        f2, wc2 = helpers.get(cls, (None, None))
        if f1 is None:
            gaps.append("introspect: %s.get_by_id not found in nml.py" % cls)
        if f2 is None:
            gaps.append("introspect: get_by_id of %s not found in helper_methods.py (MethodSpec class_names=%r expected)" % (cls, cls))
        t1 = attempt(cls + ".get_by_id[nml.py]", lambda: tr_get_by_id(f1, element, cls + ".get_by_id[nml.py]")) if f1 else None
        t2 = attempt(cls + ".get_by_id[helper_methods.py]", lambda: tr_get_by_id(f2, element, cls + ".get_by_id[helper_methods.py]")) if f2 else None
        if t1 is not None and t2 is not None and t1 != t2:
            gaps.append("introspect: %s.get_by_id differs between nml.py and helper_methods.py: %s vs %s" % (cls, t1, t2))
        for wc, where in ((wc1, "nml.py"), (wc2, "helper_methods.py")):
            if wc is not None and wc != ["warn_count = 0"]:
                gaps.append("introspect: %s.warn_count class attribute in %s is %s, expected a single `warn_count = 0`" % (cls, where, wc))
        R[key] = t1
        R[key + "H"] = t2

    # parentinfo's class discovery, evaluated on the binding classes
    classes = [c["name"] for c in table["classes"]]
    hidden = [c for c in classes if c.startswith("_") or c.endswith("_") or c in R["excluded"]]
    R["hidden"] = [N.ix[c] for c in hidden]

    # name mapping
    rows = []
    try:
        for row in csv.reader(open(os.path.join(repo, CSV))):
            if len(row) != 2:
                gaps.append("introspect: changed_names.csv row with %d fields: %r" % (len(row), row))
                continue
            rows.append(row)
    except Exception as e:
        gaps.append("introspect: cannot read %s: %r" % (CSV, e))
    keys = [r[0] for r in rows]
    dup = sorted({k for k in keys if keys.count(k) > 1})
    if dup:
        gaps.append("introspect: changed_names.csv maps %s more than once" % dup)
    ix = N.ix
    # rows whose schema name is not a name of the tables cannot matter; a row whose Python name is unknown while its
    # schema name is used gets the never-matching target 0 (`#text`), so the disagreement shows in Lean
    R["csv"] = [(ix[k], ix.get(v, 0)) for k, v in rows if k in ix]
    R["csv_rows"] = len(rows)
    R["kw"] = [(ix[k], ix[k + "_"]) for k in sorted(keyword.kwlist) if k in ix and k + "_" in ix]
    R["attrsfx"] = [(ix[n], ix[n + "_attr"]) for n in sorted(ix) if n + "_attr" in ix]
    return R, gaps


def emit(R, out_path):
    def prog(name, ty, terms, doc):
        if terms is None:
            terms = []
        return "/-- %s -/\ndef %s : List %s :=\n  [%s]\n" % (doc, name, ty, ",\n   ".join(terms))

    def pairs(l):
        return "[" + ", ".join("(%d, %d)" % p for p in l) + "]"

    key_str = "true" if R.get("docGet") and any("GCmd.warn true" in t for t in R["docGet"]) else "false"
    key_str_n = "true" if R.get("netGet") and any("GCmd.warn true" in t for t in R["netGet"]) else "false"
    src = """/-
GENERATED by translators/introspect_extract.py from neuroml/nml/generatedssupersuper.py, neuroml/nml/nml.py,
neuroml/nml/helper_methods.py and neuroml/nml/changed_names.csv. Regenerated on every `bin/check C11`; do not edit.
-/
import NmlVerif.Model.Introspect

namespace NmlVerif.Gen.Introspect
open NmlVerif.Introspect

%s
%s
%s
%s
%s
%s
%s
%s
/-- the two `get_by_id` bodies sort the ids for the warning with `key=str` (the proposed repair) -/
def docKeyStr : Bool := %s
def netKeyStr : Bool := %s

def progs : Progs :=
  { gm := getMembersProg, info := infoProg, pinfo := pinfoProg, check := checkProg, docGet := docGetProg, netGet := netGetProg }

/-- `excluded_classes` of `parentinfo` -/
def excludedNames : List String := [%s]

/-- binding classes that `parentinfo`'s filter (leading/trailing underscore, `excluded_classes`) would hide -/
def hiddenClasses : List Nat := [%s]

/-- `changed_names.csv` restricted to the names of the tables: schema name -> Python name (%d rows in the file) -/
def renameCsv : List (Nat × Nat) := %s

/-- Python keywords among the names, with the `_`-suffixed name generateDS uses instead -/
def keywordRename : List (Nat × Nat) := %s

/-- names `n` for which `n_attr` exists: what generateDS calls an attribute whose name clashes with a child -/
def attrSuffix : List (Nat × Nat) := %s

end NmlVerif.Gen.Introspect
""" % (
        prog("getMembersProg", "GMCmd", R.get("gm"), "body of `GeneratedsSuperSuper._get_members`"),
        prog("infoProg", "ICmd", R.get("info"), "body of `GeneratedsSuperSuper.info`"),
        prog("pinfoProg", "PCmd", R.get("pinfo"), "body of `GeneratedsSuperSuper.parentinfo`"),
        prog("checkProg", "CCmd", R.get("check"), "body of `GeneratedsSuperSuper._check_arg_list`"),
        prog("docGetProg", "GCmd", R.get("docGet"), "body of `NeuroMLDocument.get_by_id` (nml.py)"),
        prog("netGetProg", "GCmd", R.get("netGet"), "body of `Network.get_by_id` (nml.py)"),
        prog("docGetProgHelpers", "GCmd", R.get("docGetH"), "the same from helper_methods.py"),
        prog("netGetProgHelpers", "GCmd", R.get("netGetH"), "the same from helper_methods.py"),
        key_str, key_str_n,
        ", ".join('"%s"' % e for e in R.get("excluded", [])),
        ", ".join(str(h) for h in R.get("hidden", [])),
        R.get("csv_rows", 0), pairs(R.get("csv", [])), pairs(R.get("kw", [])), pairs(R.get("attrsfx", [])))
    old = open(out_path).read() if os.path.exists(out_path) else None
    if old != src:
        with open(out_path, "w") as fh:
            fh.write(src)
    return src


def regenerate(repo, lean_dir, table, N):
    R, gaps = extract(repo, table, N)
    if R is None:
        return None, gaps
    emit(R, os.path.join(lean_dir, "NmlVerif", "Gen", "Introspect.lean"))
    return R, gaps
