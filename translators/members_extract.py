"""members_extract.py — nml.py `member_data_items_` tables -> lean/NmlVerif/Gen/Members.lean

Shared by the checks of C09 and C10 (called from their `regenerate(ctx)`); reads the CURRENT working tree of the
repository with Python's `ast` (the module is NOT imported: a source edit is what is seen).

For every class in `neuroml/nml/nml.py` whose body assigns `member_data_items_`:
  name, base class, own entries (name, data type as `MemberSpec_.get_data_type()` reports it, container, optional).
Names are interned as Nat (index into `names`).

Anything that is not of the recognised shape is returned as a *gap* string (the check then treats the translator
obligation as broken); nothing is silently skipped.

stdlib only.  Usage:  members_extract.py <repo> <out.lean>     (prints gaps, exit 1 if any)
"""
import ast
import json
import os
import sys

ROOT_BASES = ("GeneratedsSuper",)   # the generated support class: carries no member table


def _const(node):
    """value of a constant expression: str/int/None, list of str (data type chain); else raises ValueError"""
    if isinstance(node, ast.Constant):
        return node.value
    if isinstance(node, ast.List):
        return [_const(e) for e in node.elts]
    if isinstance(node, ast.UnaryOp) and isinstance(node.op, ast.USub) and isinstance(node.operand, ast.Constant):
        return -node.operand.value
    raise ValueError("not a constant: %s" % ast.dump(node)[:80])


def effective_data_type(dt):
    """MemberSpec_.get_data_type(): last element of a list, 'xs:string' for an empty list, else the value itself"""
    if isinstance(dt, list):
        return dt[-1] if len(dt) > 0 else "xs:string"
    return dt


PARAMS = ["name", "data_type", "container", "optional", "child_attrs", "choice"]
DEFAULTS = {"name": "", "data_type": "", "container": 0, "optional": 0}


def parse_spec(call, where, gaps):
    if not (isinstance(call, ast.Call) and isinstance(call.func, ast.Name) and call.func.id == "MemberSpec_"):
        gaps.append("%s: member_data_items_ entry is not a MemberSpec_(...) call" % where)
        return None
    vals = dict(DEFAULTS)
    try:
        for i, a in enumerate(call.args):
            if i >= len(PARAMS):
                gaps.append("%s: too many positional arguments" % where)
                return None
            if PARAMS[i] in DEFAULTS:
                vals[PARAMS[i]] = _const(a)
        for kw in call.keywords:
            if kw.arg is None:
                gaps.append("%s: **kwargs in MemberSpec_ call" % where)
                return None
            if kw.arg in DEFAULTS:
                vals[kw.arg] = _const(kw.value)
    except ValueError as e:
        gaps.append("%s: %s" % (where, e))
        return None
    name, dt = vals["name"], effective_data_type(vals["data_type"])
    if not isinstance(name, str) or not isinstance(dt, str):
        gaps.append("%s: name/data type are not strings (%r, %r)" % (where, name, dt))
        return None
    for k in ("container", "optional"):
        if not isinstance(vals[k], (int, bool)):
            gaps.append("%s: %s flag is not an int (%r)" % (where, k, vals[k]))
            return None
    # __add tests `get_container() == 0`; info() tests the truth value of get_optional()
    return {"name": name, "data_type": dt, "container": vals["container"] != 0, "optional": bool(vals["optional"])}


def extract(repo):
    """-> (classes, gaps); classes = [{name, base (str|None), own: [spec…], line}] in source order"""
    path = os.path.join(repo, "neuroml", "nml", "nml.py")
    with open(path, encoding="utf-8") as fh:
        tree = ast.parse(fh.read(), filename=path)
    gaps, classes, seen = [], [], set()
    all_class_names = {n.name for n in ast.walk(tree) if isinstance(n, ast.ClassDef)}
    for node in ast.walk(tree):
        if not isinstance(node, ast.ClassDef):
            continue
        assigns = [st for st in node.body
                   if isinstance(st, (ast.Assign, ast.AnnAssign))
                   and any(isinstance(t, ast.Name) and t.id == "member_data_items_"
                           for t in (st.targets if isinstance(st, ast.Assign) else [st.target]))]
        if not assigns:
            continue
        where = "nml.py:%d class %s" % (node.lineno, node.name)
        if node.name in seen:
            gaps.append("%s: class defined twice" % where)
            continue
        seen.add(node.name)
        if len(assigns) != 1:
            gaps.append("%s: member_data_items_ assigned %d times" % (where, len(assigns)))
        val = assigns[-1].value
        own = []
        if isinstance(val, ast.Dict):            # older generateDS layout: {name: MemberSpec_(...)}
            elts = list(val.values)
        elif isinstance(val, (ast.List, ast.Tuple)):
            elts = list(val.elts)
        else:
            gaps.append("%s: member_data_items_ is not a list/dict literal" % where)
            elts = []
        for i, e in enumerate(elts):
            sp = parse_spec(e, "%s entry %d" % (where, i), gaps)
            if sp is not None:
                own.append(sp)
        base = None
        if len(node.bases) != 1 or not isinstance(node.bases[0], ast.Name):
            gaps.append("%s: expected exactly one plain base class" % where)
        else:
            b = node.bases[0].id
            if b in ROOT_BASES:
                base = None
            elif b in all_class_names:
                base = b
            else:
                gaps.append("%s: base class %s is not defined in nml.py" % (where, b))
        classes.append({"name": node.name, "base": base, "own": own, "line": node.lineno})
    with_table = {c["name"] for c in classes}
    for c in classes:
        if c["base"] is not None and c["base"] not in with_table:
            # Python would skip such a class in the MRO walk and continue with ITS bases; the model's walk would
            # stop there. Not present today; reported instead of guessed.
            gaps.append("nml.py:%d class %s: base %s has no member_data_items_" % (c["line"], c["name"], c["base"]))
    if not classes:
        gaps.append("no class with member_data_items_ found in %s" % path)
    return classes, gaps


def intern(classes):
    names, idx = [], {}

    def nid(s):
        if s not in idx:
            idx[s] = len(names)
            names.append(s)
        return idx[s]
    for c in classes:          # class names first: class id = position in the table
        nid(c["name"])
    for c in classes:
        for m in c["own"]:
            nid(m["name"])
            nid(m["data_type"])
    return names, idx


def lean_str(s):
    return json.dumps(s, ensure_ascii=False)


def emit(classes):
    names, idx = intern(classes)
    out = []
    out.append("import NmlVerif.Model.Members")
    out.append("/-! GENERATED by translators/members_extract.py from neuroml/nml/nml.py — do not edit. -/")
    out.append("namespace NmlVerif.Gen.Members")
    out.append("")
    out.append("/-- interned names: id = position -/")
    out.append("def names : List String := [")
    for i in range(0, len(names), 8):
        out.append("  " + ", ".join(lean_str(n) for n in names[i:i + 8]) + ("," if i + 8 < len(names) else ""))
    out.append("]")
    out.append("")
    out.append("/-- (class, base, own members ⟨name, dataType, container, optional⟩) in source order -/")
    out.append("def table : NmlVerif.Table := [")
    rows = []
    for c in classes:
        ms = ", ".join("⟨%d, %d, %s, %s⟩" % (idx[m["name"]], idx[m["data_type"]],
                                              "true" if m["container"] else "false",
                                              "true" if m["optional"] else "false") for m in c["own"])
        base = "none" if c["base"] is None else "some %d" % idx[c["base"]]
        rows.append("  /- %s -/ ⟨%d, %s, [%s]⟩" % (c["name"], idx[c["name"]], base, ms))
    out.append(",\n".join(rows))
    out.append("]")
    out.append("")
    out.append("def numClasses : Nat := %d" % len(classes))
    out.append("def numOwnMembers : Nat := %d" % sum(len(c["own"]) for c in classes))
    out.append("/-- id of the class `Cell` (special-cased by `component_factory`); `names.length` if there is none -/")
    out.append("def cellCls : Nat := %d" % idx.get("Cell", len(names)))
    out.append("")
    out.append("end NmlVerif.Gen.Members")
    return "\n".join(out) + "\n", names


def write_if_changed(path, text):
    try:
        with open(path, encoding="utf-8") as fh:
            if fh.read() == text:
                return False
    except OSError:
        pass
    os.makedirs(os.path.dirname(path), exist_ok=True)
    tmp = "%s.tmp.%d" % (path, os.getpid())
    with open(tmp, "w", encoding="utf-8") as fh:
        fh.write(text)
    os.replace(tmp, path)
    return True


def regenerate(repo, lean_dir):
    """(re)write <lean_dir>/NmlVerif/Gen/Members.lean from <repo>; -> (gaps, summary dict)"""
    classes, gaps = extract(repo)
    text, names = emit(classes)
    changed = write_if_changed(os.path.join(lean_dir, "NmlVerif", "Gen", "Members.lean"), text)
    return gaps, {"classes": len(classes), "own_members": sum(len(c["own"]) for c in classes),
                  "names": len(names), "rewritten": changed}


if __name__ == "__main__":
    repo = sys.argv[1] if len(sys.argv) > 1 else "/repo"
    here = os.path.dirname(os.path.dirname(os.path.abspath(__file__)))
    if len(sys.argv) > 2:
        classes, gaps = extract(repo)
        text, _ = emit(classes)
        write_if_changed(sys.argv[2], text)
        summ = {"classes": len(classes)}
    else:
        gaps, summ = regenerate(repo, os.path.join(here, "lean"))
    print(json.dumps(summ))
    for g in gaps:
        print("GAP", g)
    sys.exit(1 if gaps else 0)
