"""nml.py -> binding table IR (JSON-able dict) by AST pattern matching of the generated methods.

Every statement of the ten standard generated methods is matched against the small set of shapes generateDS emits;
anything else is recorded under `opaque` (with source line) and makes the table ill-formed downstream.
"""
import ast
import os
import re
import sys


def _src(n):
    return ast.unparse(n)


def is_self_attr(n, name=None):
    return (isinstance(n, ast.Attribute) and isinstance(n.value, ast.Name) and n.value.id == "self"
            and (name is None or n.attr == name))


def const(n):
    return n.value if isinstance(n, ast.Constant) else None


def lit(n):
    """constructor default / guard literal -> tagged literal"""
    if isinstance(n, ast.Constant):
        v = n.value
        if v is None:
            return ["none"]
        if isinstance(v, bool):
            return ["bool", v]
        if isinstance(v, int):
            return ["int", v]
        if isinstance(v, float):
            return ["float", repr(v)]
        if isinstance(v, str):
            return ["str", v]
    if isinstance(n, ast.UnaryOp) and isinstance(n.op, ast.USub) and isinstance(n.operand, ast.Constant):
        v = n.operand.value
        return ["int", -v] if isinstance(v, int) else ["float", repr(-v)]
    return ["other", _src(n)]


def parse_member_specs(cls):
    out = []
    for b in cls.body:
        if isinstance(b, ast.Assign) and getattr(b.targets[0], "id", None) == "member_data_items_":
            for e in b.value.elts:
                if not (isinstance(e, ast.Call) and getattr(e.func, "id", None) == "MemberSpec_"):
                    out.append({"opaque": _src(e)})
                    continue
                a = e.args
                name, dtype = const(a[0]), a[1]
                dtype = const(dtype) if isinstance(dtype, ast.Constant) else [const(x) for x in dtype.elts]
                container, optional = const(a[2]), const(a[3])
                attrs = ast.literal_eval(a[4]) if len(a) > 4 else {}
                choice = const(a[5]) if len(a) > 5 else None
                # MemberSpec_.get_data_type() returns the LAST entry when the data type is a list
                out.append({"name": name, "type": dtype if isinstance(dtype, str) else dtype[-1],
                            "types": dtype if isinstance(dtype, list) else [dtype],
                            "container": container, "optional": optional, "attrs": attrs, "choice": choice})
    return out


def parse_init(fn, cname, op):
    params = []
    args = fn.args.args[1:]
    defaults = fn.args.defaults
    d0 = len(args) - len(defaults)
    for i, a in enumerate(args):
        if a.arg == "gds_collector_":
            continue
        params.append({"name": a.arg, "default": lit(defaults[i - d0]) if i >= d0 else ["missing"],
                       "cast": None, "list": False, "assigned": False})
    pm = {p["name"]: p for p in params}
    super_args = None
    boiler = {"gds_collector_", "gds_elementtree_node_", "original_tagname_", "parent_object_", "ns_prefix_"}
    for st in fn.body:
        s = _src(st)
        if isinstance(st, ast.Assign) and len(st.targets) == 1 and is_self_attr(st.targets[0]):
            t = st.targets[0].attr
            v = st.value
            if t in boiler or t.endswith("_nsprefix_"):
                continue
            if t in pm:
                p = pm[t]
                if isinstance(v, ast.Name) and v.id == t:
                    p["assigned"] = True
                    p["cast"] = "raw"
                    continue
                if (isinstance(v, ast.Call) and getattr(v.func, "id", None) == "_cast" and len(v.args) == 2
                        and isinstance(v.args[1], ast.Name) and v.args[1].id == t):
                    c = v.args[0]
                    p["cast"] = "none" if const(c) is None and isinstance(c, ast.Constant) else getattr(c, "id", "?")
                    p["assigned"] = True
                    continue
        if isinstance(st, ast.If) and re.fullmatch(r"if (\w+) is None:\n    self\.\1 = \[\]\nelse:\n    self\.\1 = \1", s):
            name = st.test.left.id
            if name in pm:
                pm[name]["list"] = True
                pm[name]["assigned"] = True
                pm[name]["cast"] = "raw"
                continue
        if isinstance(st, ast.Expr) and s.startswith("super(globals().get('%s'), self).__init__(" % cname):
            call = st.value
            super_args = [a.id for a in call.args if isinstance(a, ast.Name)]
            continue
        if isinstance(st, ast.Expr) and re.fullmatch(r"self\.validate_\w+\(self\.\w+\)", s):
            continue   # constructor-time simple-type validation of text members (no collector yet: a no-op)
        op.append(["__init__", st.lineno, s[:160]])
    for p in params:
        if not p["assigned"] and p["name"] not in (super_args or []) and p["name"] != "extensiontype_":
            op.append(["__init__:param-not-stored", fn.lineno, p["name"]])
    return params, super_args or []


FMT = {"gds_format_integer": "int", "gds_format_float": "float", "gds_format_double": "double",
       "gds_format_boolean": "bool", "gds_format_string": "str"}
PARSE = {"gds_parse_integer": "int", "gds_parse_float": "float", "gds_parse_double": "double",
         "gds_parse_boolean": "bool"}


def parse_export_attrs(fn, cname, op):
    out = []
    has_super = False
    for st in fn.body:
        s = _src(st)
        if isinstance(st, ast.Pass):
            continue
        if s == "super(%s, self)._exportAttributes(outfile, level, already_processed, namespaceprefix_, name_='%s')" % (cname, cname):
            has_super = True
            if out:
                op.append(["_exportAttributes:super-not-first", st.lineno, ""])
            continue
        m = None
        if isinstance(st, ast.If) and isinstance(st.test, ast.BoolOp) and isinstance(st.test.op, ast.And) and len(st.test.values) == 2:
            g, ap = st.test.values
            # guard
            guard = None
            if isinstance(g, ast.Compare) and is_self_attr(g.left) and len(g.ops) == 1:
                mem = g.left.attr
                if isinstance(g.ops[0], ast.IsNot) and const(g.comparators[0]) is None:
                    guard = ["notNone"]
                elif isinstance(g.ops[0], ast.NotEq):
                    guard = ["ne", lit(g.comparators[0])]
            apm = re.fullmatch(r"'([^']+)' not in already_processed", _src(ap))
            if guard and apm and len(st.body) >= 2 and _src(st.body[0]) == "already_processed.add('%s')" % apm.group(1):
                w = st.body[1:]
                ws = [_src(x) for x in w]
                # xsi:type
                if mem == "extensiontype_" and len(w) == 2 and ws[0] == "outfile.write(' xmlns:xsi=\"http://www.w3.org/2001/XMLSchema-instance\"')":
                    out.append({"member": mem, "xml": "xsi:type", "fmt": "xsitype", "guard": guard, "ap": apm.group(1)})
                    continue
                if len(w) == 1:
                    mm = re.fullmatch(r"outfile\.write\(' ([\w:.\-]+)=\"%s\"' % self\.(gds_format_\w+)\(self\.(\w+), input_name='([\w:.\-]+)'\)\)", ws[0])
                    if mm and mm.group(3) == mem and mm.group(2) in FMT:
                        out.append({"member": mem, "xml": mm.group(1), "fmt": FMT[mm.group(2)], "guard": guard, "ap": apm.group(1)})
                        continue
                    mm = re.fullmatch(r"outfile\.write\(' ([\w:.\-]+)=%s' % \(self\.gds_encode\(self\.gds_format_string\(quote_attrib\(self\.(\w+)\), input_name='([\w:.\-]+)'\)\),\)\)", ws[0])
                    if mm and mm.group(2) == mem:
                        out.append({"member": mem, "xml": mm.group(1), "fmt": "str", "guard": guard, "ap": apm.group(1)})
                        continue
        op.append(["_exportAttributes", st.lineno, s[:200]])
    return out, has_super


def parse_build_attrs(fn, cname, op):
    out = []
    has_super = False
    cur = None
    for st in fn.body:
        s = _src(st)
        if isinstance(st, ast.Pass):
            continue
        if s == "super(%s, self)._buildAttributes(node, attrs, already_processed)" % cname:
            has_super = True
            continue
        m = re.fullmatch(r"value = find_attr_value_\('([\w:.\-]+)', node\)", s)
        if m:
            cur = m.group(1)
            if has_super:
                op.append(["_buildAttributes:super-not-last", st.lineno, ""])
            continue
        apm = re.fullmatch(r"value is not None and '([\w:.\-]+)' not in already_processed", _src(st.test)) if isinstance(st, ast.If) else None
        if apm and cur is not None and _src(st.body[0]) == "already_processed.add('%s')" % apm.group(1):
            body = [_src(x) for x in st.body[1:]]
            e = {"xml": cur, "member": None, "parse": None, "range": None, "validator": None, "ap": apm.group(1)}
            ok = True
            i = 0
            if i < len(body) and re.fullmatch(r"self\.extensiontype_ = value", body[i]) and cur == "xsi:type":
                e["member"], e["parse"] = "extensiontype_", "str"
                i += 1
            elif i < len(body) and re.fullmatch(r"self\.(\w+) = value", body[i]):
                e["member"], e["parse"] = re.fullmatch(r"self\.(\w+) = value", body[i]).group(1), "str"
                i += 1
            elif i + 1 < len(body) and re.fullmatch(r"value = self\.(gds_parse_\w+)\(value, node, '%s'\)" % re.escape(cur), body[i]) \
                    and re.fullmatch(r"self\.(\w+) = value", body[i + 1]):
                e["parse"] = PARSE.get(re.fullmatch(r"value = self\.(gds_parse_\w+)\(.*", body[i]).group(1))
                e["member"] = re.fullmatch(r"self\.(\w+) = value", body[i + 1]).group(1)
                i += 2
            elif i < len(body) and re.fullmatch(r"self\.(\w+) = self\.(gds_parse_\w+)\(value, node, '%s'\)" % re.escape(cur), body[i]):
                mm = re.fullmatch(r"self\.(\w+) = self\.(gds_parse_\w+)\(.*", body[i])
                e["member"], e["parse"] = mm.group(1), PARSE.get(mm.group(2))
                i += 1
            else:
                ok = False
            if ok and i < len(body):
                mm = re.fullmatch(r"if self\.(\w+) (<|<=) 0:\n    raise_parse_error\(node, '[^']*'\)", body[i])
                if mm and mm.group(1) == e["member"]:
                    e["range"] = "nonneg" if mm.group(2) == "<" else "pos"
                    i += 1
            if ok and i < len(body):
                mm = re.fullmatch(r"self\.validate_(\w+)\(self\.(\w+)\)", body[i])
                if mm and mm.group(2) == e["member"]:
                    e["validator"] = mm.group(1)
                    i += 1
            if ok and i == len(body) and e["parse"]:
                out.append(e)
                cur = None
                continue
        op.append(["_buildAttributes", st.lineno, s[:200]])
    return out, has_super


NSP = re.compile(r"namespaceprefix_ = self\.(\w+)_nsprefix_ \+ ':' if UseCapturedNS_ and self\.\1_nsprefix_ else ''")


def parse_export_children(fn, cname, op):
    out = []
    has_super = False
    for st in fn.body:
        s = _src(st)
        if isinstance(st, ast.Pass) or s == "if pretty_print:\n    eol_ = '\\n'\nelse:\n    eol_ = ''":
            continue
        if s == "super(%s, self)._exportChildren(outfile, level, namespaceprefix_, namespacedef_, name_, True, pretty_print=pretty_print)" % cname:
            has_super = True
            if out:
                op.append(["_exportChildren:super-not-first", st.lineno, ""])
            continue
        if isinstance(st, ast.If) and re.fullmatch(r"self\.(\w+) is not None", _src(st.test)) and not st.orelse:
            mem = st.test.left.attr
            body = [_src(x) for x in st.body]
            if len(body) == 2 and NSP.fullmatch(body[0]) and NSP.fullmatch(body[0]).group(1) == mem:
                mm = re.fullmatch(r"self\.(\w+)\.export\(outfile, level, namespaceprefix_, namespacedef_='', name_='([\w:.\-]+)', pretty_print=pretty_print\)", body[1])
                if mm and mm.group(1) == mem:
                    out.append({"member": mem, "tag": mm.group(2), "kind": "obj", "container": False})
                    continue
            if len(body) == 3 and NSP.fullmatch(body[0]) and body[1] == "showIndent(outfile, level, pretty_print)":
                mm = re.fullmatch(r"outfile\.write\('<%s([\w:.\-]+)>%s</%s([\w:.\-]+)>%s' % \(namespaceprefix_, self\.gds_encode\(self\.gds_format_string\(quote_xml\(self\.(\w+)\), input_name='([\w:.\-]+)'\)\), namespaceprefix_, eol_\)\)", body[2])
                if mm and mm.group(3) == mem and mm.group(1) == mm.group(2):
                    out.append({"member": mem, "tag": mm.group(1), "kind": "text", "container": False})
                    continue
        if isinstance(st, ast.For) and is_self_attr(st.iter) and not st.orelse:
            mem = st.iter.attr
            v = st.target.id
            body = [_src(x) for x in st.body]
            if len(body) == 2 and NSP.fullmatch(body[0]) and NSP.fullmatch(body[0]).group(1) == mem:
                mm = re.fullmatch(re.escape(v) + r"\.export\(outfile, level, namespaceprefix_, namespacedef_='', name_='([\w:.\-]+)', pretty_print=pretty_print\)", body[1])
                if mm:
                    out.append({"member": mem, "tag": mm.group(1), "kind": "obj", "container": True})
                    continue
        if s == "if not fromsubclass_:\n    for obj_ in self.anytypeobjs_:\n        showIndent(outfile, level, pretty_print)\n        outfile.write(str(obj_))\n        outfile.write('\\n')":
            out.append({"member": "anytypeobjs_", "tag": "__ANY__", "kind": "any", "container": True})
            continue
        op.append(["_exportChildren", st.lineno, s[:200]])
    return out, has_super


def parse_build_children(fn, cname, op):
    out = []
    has_super = False
    stmts = list(fn.body)
    for st in stmts:
        s = _src(st)
        if isinstance(st, ast.Pass):
            continue
        if s == "super(%s, self)._buildChildren(child_, node, nodeName_, True)" % cname:
            has_super = True
            continue
        if s == "content_ = self.gds_build_any(child_, '%s')" % cname:
            continue
        if s == "self.anytypeobjs_.append(content_)":
            out.append({"tag": "__ANY__", "member": "anytypeobjs_", "kind": "any", "container": True, "cls": None, "poly": False})
            continue
        if isinstance(st, ast.If):
            node = st
            ok = True
            branch = []
            while True:
                t = re.fullmatch(r"nodeName_ == '([\w:.\-]+)'", _src(node.test))
                if not t:
                    ok = False
                    break
                body = [_src(x) for x in node.body]
                e = {"tag": t.group(1), "member": None, "kind": None, "container": None, "cls": None, "poly": False,
                     "validator": None}
                i = 0
                if body and re.fullmatch(r"class_obj_ = self\.get_class_obj_\(child_, (\w+)\)", body[0]):
                    e["poly"] = True
                    e["cls"] = re.fullmatch(r"class_obj_ = self\.get_class_obj_\(child_, (\w+)\)", body[0]).group(1)
                    i = 1
                rest = body[i:]
                if (len(rest) == 4 and re.fullmatch(r"obj_ = (\w+)\.factory\(parent_object_=self\)", rest[0])
                        and rest[1] == "obj_.build(child_, gds_collector_=gds_collector_)"
                        and rest[3] == "obj_.original_tagname_ = '%s'" % e["tag"]):
                    f = re.fullmatch(r"obj_ = (\w+)\.factory\(parent_object_=self\)", rest[0]).group(1)
                    if e["poly"]:
                        if f != "class_obj_":
                            ok = False
                    else:
                        e["cls"] = f
                    a = re.fullmatch(r"self\.(\w+)\.append\(obj_\)", rest[2])
                    b = re.fullmatch(r"self\.(\w+) = obj_", rest[2])
                    if a:
                        e["member"], e["container"] = a.group(1), True
                    elif b:
                        e["member"], e["container"] = b.group(1), False
                    else:
                        ok = False
                    e["kind"] = "obj"
                elif (len(rest) in (5, 6) and rest[0] == "value_ = child_.text"
                      and rest[1] == "value_ = self.gds_parse_string(value_, node, '%s')" % e["tag"]
                      and rest[2] == "value_ = self.gds_validate_string(value_, node, '%s')" % e["tag"]
                      and re.fullmatch(r"self\.(\w+) = value_", rest[3])
                      and re.fullmatch(r"self\.(\w+)_nsprefix_ = child_\.prefix", rest[4])):
                    e["member"] = re.fullmatch(r"self\.(\w+) = value_", rest[3]).group(1)
                    e["kind"], e["container"] = "text", False
                    if len(rest) == 6:
                        v = re.fullmatch(r"self\.validate_(\w+)\(self\.(\w+)\)", rest[5])
                        if v and v.group(2) == e["member"]:
                            e["validator"] = v.group(1)
                        else:
                            ok = False
                else:
                    ok = False
                if not ok:
                    break
                branch.append(e)
                if len(node.orelse) == 1 and isinstance(node.orelse[0], ast.If):
                    node = node.orelse[0]
                elif not node.orelse:
                    break
                elif [_src(x) for x in node.orelse] == ["content_ = self.gds_build_any(child_, '%s')" % cname,
                                                         "self.anytypeobjs_.append(content_)"]:
                    branch.append({"tag": "__ANY__", "member": "anytypeobjs_", "kind": "any", "container": True,
                                   "cls": None, "poly": False})
                    break
                else:
                    ok = False
                    break
            if ok:
                out += branch
                continue
        op.append(["_buildChildren", st.lineno, s[:200]])
    return out, has_super


def parse_has_content(fn, cname, op):
    """-> (list of (member, 'truthy'|'notNone'), callsSuper)"""
    if len(fn.body) == 1 and isinstance(fn.body[0], ast.If):
        st = fn.body[0]
        if [_src(x) for x in st.body] == ["return True"] and [_src(x) for x in st.orelse] == ["return False"]:
            t = st.test
            terms = t.values if isinstance(t, ast.BoolOp) and isinstance(t.op, ast.Or) else [t]
            mem, sup, ok = [], False, True
            for x in terms:
                sx = _src(x)
                if sx == "()":
                    continue
                if sx == "super(%s, self).has__content()" % cname:
                    sup = True
                elif is_self_attr(x):
                    mem.append([x.attr, "truthy"])
                elif re.fullmatch(r"self\.(\w+) is not None", sx):
                    mem.append([x.left.attr, "notNone"])
                else:
                    ok = False
            if ok:
                return mem, sup
    op.append(["has__content", fn.lineno, _src(fn)[:200]])
    return [], False


def parse_validate(fn, cname, op):
    items = []
    rec = []
    for st in fn.body:
        s = _src(st)
        if s in ("self.gds_collector_ = gds_collector", "message_count = len(self.gds_collector_.get_messages())",
                 "return message_count == len(self.gds_collector_.get_messages())"):
            continue
        m = re.fullmatch(r"self\.gds_validate_defined_ST_\(self\.validate_(\w+), self\.(\w+), '(\w+)'\)", s)
        if m and m.group(2) == m.group(3):
            items.append(["simple", m.group(1), m.group(2)])
            continue
        m = re.fullmatch(r"self\.gds_validate_builtin_ST_\(self\.gds_validate_(\w+), self\.(\w+), '(\w+)'\)", s)
        if m and m.group(2) == m.group(3):
            items.append(["builtin", m.group(1), m.group(2)])
            continue
        m = re.fullmatch(r"self\.gds_check_cardinality_\(self\.(\w+), '(\w+)', required=(True|False)\)", s)
        if m and m.group(1) == m.group(2):
            items.append(["req", m.group(1), m.group(3) == "True"])
            continue
        m = re.fullmatch(r"self\.gds_check_cardinality_\(self\.(\w+), '(\w+)', min_occurs=(\d+), max_occurs=(\d+)\)", s)
        if m and m.group(1) == m.group(2):
            items.append(["card", m.group(1), int(m.group(3)), int(m.group(4))])
            continue
        if isinstance(st, ast.If) and _src(st.test) == "recursive":
            for r in st.body:
                rs = _src(r)
                if isinstance(r, ast.Pass):
                    continue
                m1 = re.fullmatch(r"if self\.(\w+) is not None:\n    self\.(\w+)\.validate_\(gds_collector, recursive=True\)", rs)
                m2 = re.fullmatch(r"for item in self\.(\w+):\n    item\.validate_\(gds_collector, recursive=True\)", rs)
                if m1 and m1.group(1) == m1.group(2):
                    rec.append([m1.group(1), False])
                elif m2:
                    rec.append([m2.group(1), True])
                else:
                    op.append(["validate_:recursive", r.lineno, rs[:200]])
            continue
        op.append(["validate_", st.lineno, s[:200]])
    return items, rec


def parse_simple_validator(fn, op):
    """validate_<SimpleType>(self, value): base python type, enumerations, patterns usage, bounds."""
    name = fn.name[len("validate_"):]
    info = {"name": name, "base": None, "enums": None, "patterns": False, "bounds": [], "lengths": []}
    src = _src(fn)
    m = re.search(r"if not isinstance\(value, (\w+)\):", src)
    if m:
        info["base"] = m.group(1)
    m = re.search(r"enumerations = (\[[^\]]*\])", src)
    if m:
        info["enums"] = ast.literal_eval(m.group(1))
    if "self.gds_validate_simple_patterns(self.validate_%s_patterns_, value)" % name in src:
        info["patterns"] = True
    for mm in re.finditer(r"if value (<|<=|>|>=) ([\-\d.eE]+):[^\n]*\n[^\n]*\n\s+self\.gds_collector_\.add_message\('Value \"%\(value\)s\"%\(lineno\)s does not match xsd (\w+) restriction", src):
        info["bounds"].append([mm.group(3), mm.group(2)])
    return info

EXPORT_TEMPLATE = """def export(self, outfile, level, namespaceprefix_='', namespacedef_=%(nsdef)s, name_='%(cls)s', pretty_print=True):
    imported_ns_def_ = GenerateDSNamespaceDefs_.get('%(cls)s')
    if imported_ns_def_ is not None:
        namespacedef_ = imported_ns_def_
    if pretty_print:
        eol_ = '\\n'
    else:
        eol_ = ''
    if self.original_tagname_ is not None and name_ == '%(cls)s':
        name_ = self.original_tagname_
    if UseCapturedNS_ and self.ns_prefix_:
        namespaceprefix_ = self.ns_prefix_ + ':'
    showIndent(outfile, level, pretty_print)
    outfile.write('<%%s%%s%%s' %% (namespaceprefix_, name_, namespacedef_ and ' ' + namespacedef_ or ''))
    already_processed = set()
    self._exportAttributes(outfile, level, already_processed, namespaceprefix_, name_='%(cls)s')
    if self.has__content():
        outfile.write('>%%s' %% (eol_,))
        self._exportChildren(outfile, level + 1, namespaceprefix_, namespacedef_, name_='%(cls)s', pretty_print=pretty_print)
%(indent)s        outfile.write('</%%s%%s>%%s' %% (namespaceprefix_, name_, eol_))
    else:
        outfile.write('/>%%s' %% (eol_,))"""
NSDEFS = ["''", "' xmlns:None=\"http://www.neuroml.org/schema/neuroml2\" '"]
BUILD_TEMPLATE = """def build(self, node, gds_collector_=None):
    self.gds_collector_ = gds_collector_
    if SaveElementTreeNode:
        self.gds_elementtree_node_ = node
    already_processed = set()
    self.ns_prefix_ = node.prefix
    self._buildAttributes(node, node.attrib, already_processed)
    for child in node:
        nodeName_ = Tag_pattern_.match(child.tag).groups()[-1]
        self._buildChildren(child, node, nodeName_, gds_collector_=gds_collector_)
    return self"""


def parse_export_build(fns, cname, has_children, op):
    """`export` and `build` themselves: compared as a whole against the one shape generateDS emits (the element name is
    the one the caller passes unless it is the class's own default; attributes, then `>` children end tag or `/>`;
    `build` reads attributes, then dispatches every child node in document order).  -> closing tag indented?"""
    got = _src(fns["export"])
    indented = None
    for ind in (True, False):
        for nsdef in NSDEFS:
            exp = EXPORT_TEMPLATE % {"cls": cname, "nsdef": nsdef,
                                     "indent": "        showIndent(outfile, level, pretty_print)\n" if ind else ""}
            if got == exp:
                indented = ind
    if indented is None:
        op.append(["export", fns["export"].lineno, "export() is not of the generated shape"])
    elif has_children and not indented:
        op.append(["export", fns["export"].lineno, "end tag of an element with children is not indented"])
    if _src(fns["build"]) != BUILD_TEMPLATE:
        op.append(["build", fns["build"].lineno, "build() is not of the generated shape"])
    return indented


STD = {"__init__", "factory", "has__content", "export", "_exportAttributes", "_exportChildren", "validate_", "build",
       "_buildAttributes", "_buildChildren"}


def extract(repo):
    path = os.path.join(repo, "neuroml", "nml", "nml.py")
    src = open(path).read()
    tree = ast.parse(src)
    classes = []
    for c in tree.body:
        if not isinstance(c, ast.ClassDef):
            continue
        if not any(isinstance(b, ast.Assign) and getattr(b.targets[0], "id", None) == "member_data_items_" for b in c.body):
            continue
        op = []
        base = c.bases[0].id if c.bases and isinstance(c.bases[0], ast.Name) else None
        ir = {"name": c.name, "base": base if base != "GeneratedsSuper" else None, "line": c.lineno,
              "specs": parse_member_specs(c), "stypes": [], "patterns": {}, "methods": []}
        fns = {}
        for b in c.body:
            if isinstance(b, ast.FunctionDef):
                fns[b.name] = b
                ir["methods"].append(b.name)
            if isinstance(b, ast.Assign) and len(b.targets) == 1 and isinstance(b.targets[0], ast.Name):
                t = b.targets[0].id
                m = re.fullmatch(r"validate_(\w+)_patterns_", t)
                if m:
                    try:
                        ir["patterns"][m.group(1)] = ast.literal_eval(b.value)
                    except Exception:
                        op.append(["patterns", b.lineno, t])
        for k in STD - {"factory"}:
            if k not in fns:
                op.append(["missing-method", c.lineno, k])
        if op and any(o[0] == "missing-method" for o in op):
            ir["opaque"] = op
            classes.append(ir)
            continue
        ir["ctor"], ir["superArgs"] = parse_init(fns["__init__"], c.name, op)
        ir["expAttrs"], ir["expAttrsSuper"] = parse_export_attrs(fns["_exportAttributes"], c.name, op)
        ir["bldAttrs"], ir["bldAttrsSuper"] = parse_build_attrs(fns["_buildAttributes"], c.name, op)
        ir["expChildren"], ir["expChildrenSuper"] = parse_export_children(fns["_exportChildren"], c.name, op)
        ir["bldChildren"], ir["bldChildrenSuper"] = parse_build_children(fns["_buildChildren"], c.name, op)
        ir["hasContent"], ir["hasContentSuper"] = parse_has_content(fns["has__content"], c.name, op)
        ir["validate"], ir["recurse"] = parse_validate(fns["validate_"], c.name, op)
        ir["closeIndented"] = parse_export_build(fns, c.name, bool(ir["expChildren"]), op)
        for k, f in fns.items():
            if k.startswith("validate_") and k != "validate_":
                ir["stypes"].append(parse_simple_validator(f, op))
        # export(): default element name and whether the closing tag is indented (purely presentational) ; purity
        exp = _src(fns["export"])
        m = re.search(r"name_='(\w+)'", exp)
        ir["exportName"] = m.group(1) if m else None
        ir["exportPure"] = not any(
            isinstance(n, (ast.Assign, ast.AugAssign)) and any(is_self_attr(t) for t in (n.targets if isinstance(n, ast.Assign) else [n.target]))
            for k in ("export", "_exportAttributes", "_exportChildren", "has__content") for n in ast.walk(fns[k]))
        ir["opaque"] = op
        classes.append(ir)
    # module-level support code the model depends on
    support = {}
    for n in tree.body:
        if isinstance(n, ast.FunctionDef) and n.name in ("quote_xml", "quote_xml_aux", "quote_attrib", "find_attr_value_", "_cast", "showIndent"):
            support[n.name] = _src(n)
    gs = [n for n in ast.walk(tree) if isinstance(n, ast.ClassDef) and n.name == "GeneratedsSuper"]
    for g in gs[:1]:
        for b in g.body:
            if isinstance(b, ast.FunctionDef) and (b.name.startswith("gds_format_") or b.name.startswith("gds_parse_")
                                                   or b.name in ("gds_validate_simple_patterns", "gds_check_cardinality_",
                                                                 "gds_validate_defined_ST_", "gds_build_any", "get_class_obj_", "__eq__")):
                support["GeneratedsSuper." + b.name] = _src(b)
    return {"classes": classes, "support": support}


if __name__ == "__main__":
    import json
    t = extract(sys.argv[1] if len(sys.argv) > 1 else "/repo")
    n_op = sum(len(c["opaque"]) for c in t["classes"])
    print(len(t["classes"]), "classes; opaque:", n_op)
    k = 0
    for c in t["classes"]:
        for o in c["opaque"]:
            if k < 25:
                print(c["name"], o)
            k += 1
    if len(sys.argv) > 2:
        json.dump(t, open(sys.argv[2], "w"), indent=0)
