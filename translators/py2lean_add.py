"""py2lean_add — translate `GeneratedsSuperSuper.add`, `.__add`, `._get_members` (and, when the tree has it,
`.__same_contents`) of neuroml/nml/generatedssupersuper.py, and the shape of the generated `GeneratedsSuper.__eq__`
of neuroml/nml/nml.py, into terms of the imperative vocabularies of `lean/NmlVerif/Model/AddIR.lean` and
`lean/NmlVerif/Model/GetMembersIR.lean` (property C10).

Reads the CURRENT working tree with Python's `ast` (nothing is imported or executed) and writes
`lean/NmlVerif/Gen/AddImpl.lean`:

    def place : Cmd                       body of `__add`
    def add : Cmd                         body of `add` (its two calls of `self.__add(...)` refer to `place`)
    def getMembers : GM.Cmd               body of `_get_members`
    def dupTest / warnFmt                 which form of duplicate test / warning text `__add` has (the two proposed
                                          repairs of the open findings change exactly these)
    def bookKeeping : List String         the `book_keeping` tuple of `__same_contents` ([] when there is none)
    def eqExcluded : List String          attribute names the generated `__eq__` leaves out
    def addParams / placeParams / getMembersParams

Translated compositionally (taken from the source, whatever it is): the ORDER of statements and the NESTING of
`if / elif / else`, `for … [else]`, `break`, `try … except <one class>[…]`.  Recognised by exact match of the
statement's AST (comments, blank lines, doc strings and the wording of messages apart from their identifying phrase do
not matter; anything else does): the simple statements, the conditions and the iterables — each is one named primitive
(the tables below give the Python text of each).  Anything else is a GAP: reported, and rendered as `unsupported`, so
that the equivalence proofs of `Props/C10Gen.lean` cannot go through.  Nothing is skipped silently.

stdlib only.
"""
import ast
import json
import os
import sys

# the phrase that identifies each of the messages (the harness classifies the real exceptions/warnings by the same)
PHRASES = ["could not be found", "Multiple members can accept", "does not match any", "has already been assigned",
           "already exists in", "Build time validation is disabled"]

# ------------------------------------------------------------------ vocabulary of `add` / `__add`
STATEMENTS = {
    "callInfo": "self.info()",
    "retNone": "return",
    "factoryAssign": "obj = self.component_factory(obj, validate=validate, **kwargs)",
    "initTargets": "targets = []",
    "getAllMembers": "all_members = self._get_members()",
    "appendTarget": "targets.append(member)",
    "mkNoMemberError": 'e = Exception("could not be found".format(type(obj).__name__, type(self).__name__, self.info()))',
    "raisePending": "raise e",
    "raisePending ": "raise Exception(err_string)",
    "setErrMultiple": 'err_string = "Multiple members can accept".format(type(obj).__name__)',
    "setErrHint": 'err_string = "does not match any".format(hint, type(obj).__name__)',
    "appendTNameToErr": 'err_string += "- {}\\n".format(t.get_name())',
    "(callAddFirst place)": "self.__add(obj, targets[0], force)",
    "(callAddT place)": "self.__add(obj, t, force)",
    "brk": "break",
    "validateSelf": "self.validate()",
    "logDisabled": 'logger.warning("Build time validation is disabled")',
    "retObj": "return obj",
    # __add
    "importWarnings": "import warnings",
    "assignMember": "vars(self)[member.get_name()] = obj",
    "appendMember": "vars(self)[member.get_name()].append(obj)",
    "warnOccupied": 'warnings.warn("has already been assigned".format(member.get_name()))',
    "warnDuplicateObj": 'warnings.warn("already exists in".format(obj, member.get_name()))',
    "describeObj": "description = str(obj)",
    "describeObjRepr": "description = object.__repr__(obj)",
    "warnDuplicateDescription": 'warnings.warn("already exists in".format(description, member.get_name()))',
}
CONDITIONS = {
    "objFalsy": "not obj",
    "objIsTypeOrStr": "type(obj) is type or isinstance(obj, str)",
    "memberTypeIsObjType": "member.get_data_type() == type(obj).__name__",
    "targetsLen0": "len(targets) == 0",
    "targetsLen1": "len(targets) == 1",
    "notHint": "not hint",
    "hintIsTName": "hint == t.get_name()",
    "gateOn": "neuroml.build_time_validation.ENABLED and validate",
    "memberIsSingle": "member.get_container() == 0",
    "forceFlag": "force",
    "memberValueTruthy": "vars(self)[member.get_name()]",
    "objInMember": "obj in vars(self)[member.get_name()]",
    "anySameContents": "any(self.__same_contents(obj, existing) for existing in vars(self)[member.get_name()])",
}
LOOPS = {   # (loop variable, iterable) -> (iterator, binder)
    ("member", "all_members"): ("allMembersIter", "bindMember"),
    ("t", "targets"): ("targetsIter", "bindT"),
}
SIGNATURES = {   # name -> (positional parameters, defaults (source text), **kwargs name, decorators)
    "add": (["self", "obj", "hint", "force", "validate"], ["None", "None", "False", "True"], "kwargs", []),
    "__add": (["self", "obj", "member", "force"], ["False"], None, []),
    "_get_members": (["cls"], [], None, ["classmethod"]),
    "__same_contents": (["cls", "first", "second"], [], None, ["classmethod"]),
}

# ------------------------------------------------------------------ vocabulary of `_get_members`
GM_STATEMENTS = {
    "importCopy": "import copy",
    "setCurrentClass": "current_class = cls.__name__",
    "returnCached": "return cls.__all_members_[current_class]",
    "initCacheDict": "cls.__all_members_ = {}",
    "pass_": "pass",
    "storeCopyOfOwn": "cls.__all_members_[current_class] = copy.copy(cls.member_data_items_)",
    "extendWithC": "cls.__all_members_[current_class] += c.member_data_items_",
    "dedupeStmt": "cls.__all_members_[current_class] = list(set(cls.__all_members_[current_class]))",
}
GM_LOOPS = {("c", "cls.__mro__"): "forMro"}
GM_HANDLERS = {"AttributeError": "attributeError", "KeyError": "keyError", "TypeError": "typeError"}

SAME_CONTENTS_TEMPLATE = '''
def __same_contents(cls, first, second):
    if first is second:
        return True
    if isinstance(first, GeneratedsSuperSuper):
        if type(first) != type(second):
            return False
        book_keeping = BOOK_KEEPING
        items1 = [i for i in vars(first).items() if i[0] not in book_keeping]
        items2 = [i for i in vars(second).items() if i[0] not in book_keeping]
        return len(items1) == len(items2) and all(
            i1[0] == i2[0] and cls.__same_contents(i1[1], i2[1])
            for i1, i2 in zip(items1, items2)
        )
    if isinstance(first, list) and isinstance(second, list):
        return len(first) == len(second) and all(
            cls.__same_contents(i1, i2) for i1, i2 in zip(first, second)
        )
    return first == second
'''
EQ_TEMPLATE = '''
def __eq__(self, other):
    def excl_select_objs_(obj):
        return EXCLUSION
    if type(self) != type(other):
        return False
    return all(
        x == y
        for x, y in zip_longest(
            filter(excl_select_objs_, self.__dict__.items()),
            filter(excl_select_objs_, other.__dict__.items()),
        )
    )
'''


class _Norm(ast.NodeTransformer):
    """messages are identified by their phrase, not by their full wording"""

    def visit_Constant(self, node):
        if isinstance(node.value, str):
            for ph in PHRASES:
                if ph in node.value:
                    return ast.copy_location(ast.Constant(value="<%s>" % ph), node)
        return node


def _dump(node):
    return ast.dump(_Norm().visit(ast.parse(ast.unparse(node)).body[0] if isinstance(node, ast.stmt)
                                  else ast.parse(ast.unparse(node), mode="eval").body), include_attributes=False)


def _table(d, mode):
    out = {}
    for name, src in d.items():
        tree = ast.parse(src, mode="eval").body if mode == "eval" else ast.parse(src).body[0]
        out[_dump(tree)] = name.strip()
    return out


STMT_DUMPS = _table(STATEMENTS, "exec")
COND_DUMPS = _table(CONDITIONS, "eval")
GM_STMT_DUMPS = _table(GM_STATEMENTS, "exec")


def _strip_doc(stmts):
    if stmts and isinstance(stmts[0], ast.Expr) and isinstance(stmts[0].value, ast.Constant) \
            and isinstance(stmts[0].value.value, str):
        return stmts[1:]
    return stmts


class Tr:
    """statement-level translation of `add` / `__add`"""

    def __init__(self, label):
        self.label, self.gaps, self.used = label, [], set()

    def gap(self, node, why):
        self.gaps.append("%s: line %s: %s" % (self.label, getattr(node, "lineno", "?"), why))
        return "unsupported"

    def cond(self, e):
        name = COND_DUMPS.get(_dump(e))
        if name is None:
            self.gap(e, "condition not in the vocabulary: %s" % ast.unparse(e)[:100])
            return "(fun _ _ => .ok none)"
        self.used.add(name)
        return name

    def block(self, stmts, ind):
        items = [self.stmt(st, ind + 2) for st in _strip_doc(stmts)]
        if not items:
            return "skip"
        return "block [\n" + ",\n".join(" " * (ind + 2) + it for it in items) + "\n" + " " * ind + "]"

    def stmt(self, st, ind):
        if isinstance(st, ast.If):
            c = self.cond(st.test)
            if st.orelse:
                return "ifElse %s (%s) (%s)" % (c, self.block(st.body, ind), self.block(st.orelse, ind))
            return "ifC %s (%s)" % (c, self.block(st.body, ind))
        if isinstance(st, ast.For):
            key = (ast.unparse(st.target), ast.unparse(st.iter))
            if key not in LOOPS:
                return self.gap(st, "loop not in the vocabulary: for %s in %s" % key)
            it, bind = LOOPS[key]
            if st.orelse:
                return "forElse %s %s (%s) (%s)" % (it, bind, self.block(st.body, ind), self.block(st.orelse, ind))
            return "forEach %s %s (%s)" % (it, bind, self.block(st.body, ind))
        if isinstance(st, ast.Try):
            if st.orelse or st.finalbody or len(st.handlers) != 1:
                return self.gap(st, "try with else / finally / several handlers")
            h = st.handlers[0]
            if not (isinstance(h.type, ast.Name) and h.type.id == "Exception" and h.name is None):
                return self.gap(st, "handler is not a bare `except Exception:`")
            self.used.add("tryExceptException")
            return "tryExceptException (%s) (%s)" % (self.block(st.body, ind), self.block(h.body, ind))
        if isinstance(st, (ast.While, ast.With, ast.FunctionDef, ast.ClassDef, ast.Match)):
            return self.gap(st, "%s statement" % type(st).__name__)
        name = STMT_DUMPS.get(_dump(st))
        if name is None:
            return self.gap(st, "statement not in the vocabulary: %s" % ast.unparse(st).split("\n")[0][:100])
        self.used.add(name)
        return name


class TrGM:
    """statement-level translation of `_get_members`"""

    def __init__(self, label):
        self.label, self.gaps = label, []

    def gap(self, node, why):
        self.gaps.append("%s: line %s: %s" % (self.label, getattr(node, "lineno", "?"), why))
        return "GM.unsupported"

    def block(self, stmts, ind):
        items = [self.stmt(st, ind + 2) for st in _strip_doc(stmts)]
        if not items:
            return "GM.skip"
        return "GM.block [\n" + ",\n".join(" " * (ind + 2) + it for it in items) + "\n" + " " * ind + "]"

    def stmt(self, st, ind):
        if isinstance(st, ast.For):
            key = (ast.unparse(st.target), ast.unparse(st.iter))
            if key not in GM_LOOPS or st.orelse:
                return self.gap(st, "loop not in the vocabulary: for %s in %s%s" % (key + (" … else" if st.orelse else "",)))
            return "GM.%s (%s)" % (GM_LOOPS[key], self.block(st.body, ind))
        if isinstance(st, ast.Try):
            if st.orelse or st.finalbody or not st.handlers:
                return self.gap(st, "try with else / finally / no handler")
            hs = []
            for h in st.handlers:
                if not (isinstance(h.type, ast.Name) and h.type.id in GM_HANDLERS and h.name is None):
                    return self.gap(st, "handler not in the vocabulary: except %s" % (ast.unparse(h.type) if h.type else ""))
                hs.append("(GM.Exc.%s, %s)" % (GM_HANDLERS[h.type.id], self.block(h.body, ind + 2)))
            return "GM.tryExcept (%s) [\n%s%s\n%s]" % (self.block(st.body, ind), " " * (ind + 2),
                                                       (",\n" + " " * (ind + 2)).join(hs), " " * ind)
        if isinstance(st, (ast.If, ast.While, ast.With, ast.FunctionDef, ast.ClassDef, ast.Match)):
            return self.gap(st, "%s statement" % type(st).__name__)
        name = GM_STMT_DUMPS.get(_dump(st))
        if name is None:
            return self.gap(st, "statement not in the vocabulary: %s" % ast.unparse(st).split("\n")[0][:100])
        return "GM." + name


# ------------------------------------------------------------------ normalisation of equivalent surface shapes
# Every rule maps a shape onto the ONE shape today's source has, so that a behaviour-preserving rewrite of the source
# leaves `Gen/AddImpl.lean` byte-identical.  Each rule is semantics-preserving for ALL inputs (argument given at the
# rule); whatever is not recognised afterwards is still refused (gap).  The rules never look at the vocabulary.
CANONICAL_LOCALS = {      # locals in the order of their first binding in today's source
    "add": ["targets", "all_members", "member", "e", "err_string", "t"],
    "__add": ["description"],
    "_get_members": ["current_class", "c"],
}


def _names(node, ctx=None):
    return [n.id for n in ast.walk(node) if isinstance(n, ast.Name) and (ctx is None or isinstance(n.ctx, ctx))]


def _is_empty_list(e):
    return isinstance(e, ast.List) and not e.elts


class _Normaliser:
    def __init__(self, fn):
        self.fn = fn
        self.used = set(_names(fn)) | {a.arg for a in fn.args.posonlyargs + fn.args.args + fn.args.kwonlyargs}
        self.k = 0
        # locals that only ever hold a list: every binding is a list display / list comprehension
        stores = {}
        for n in ast.walk(fn):
            if isinstance(n, ast.Assign) and len(n.targets) == 1 and isinstance(n.targets[0], ast.Name):
                stores.setdefault(n.targets[0].id, []).append(isinstance(n.value, (ast.List, ast.ListComp)))
            elif isinstance(n, (ast.AugAssign, ast.AnnAssign)) and isinstance(n.target, ast.Name):
                stores.setdefault(n.target.id, []).append(False)
            elif isinstance(n, (ast.For, ast.comprehension)) :
                for x in _names(n.target, ast.Store):
                    stores.setdefault(x, []).append(False)
            elif isinstance(n, (ast.With, ast.ExceptHandler, ast.Import, ast.ImportFrom, ast.NamedExpr, ast.Global, ast.Nonlocal)):
                for x in ([n.name] if isinstance(n, ast.ExceptHandler) and n.name else []):
                    stores.setdefault(x, []).append(False)
        self.list_locals = {k for k, v in stores.items() if v and all(v)} - \
            {a.arg for a in fn.args.posonlyargs + fn.args.args + fn.args.kwonlyargs}

    def fresh(self):
        while True:
            self.k += 1
            n = "_tmp%d" % self.k
            if n not in self.used:
                self.used.add(n)
                return n

    # -- expressions
    def expr(self, e):
        norm = self

        class T(ast.NodeTransformer):
            def visit_UnaryOp(self, node):
                self.generic_visit(node)
                # `not L` = `len(L) == 0` for a local L that only ever holds a list (truth value of a list is
                # `len(L) != 0`; a list cannot override it)
                if isinstance(node.op, ast.Not) and isinstance(node.operand, ast.Name) and node.operand.id in norm.list_locals:
                    return ast.Compare(left=ast.Call(func=ast.Name(id="len", ctx=ast.Load()), args=[node.operand], keywords=[]),
                                       ops=[ast.Eq()], comparators=[ast.Constant(value=0)])
                # `not a in b` = `a not in b`, `not a == b` = `a != b` (definition of the operators on the result of
                # ONE comparison: `not in` is defined as the negation of `in`; `!=` is NOT `not ==` in general, so only `in`)
                if isinstance(node.op, ast.Not) and isinstance(node.operand, ast.Compare) and len(node.operand.ops) == 1 \
                        and isinstance(node.operand.ops[0], ast.In):
                    return ast.Compare(left=node.operand.left, ops=[ast.NotIn()], comparators=node.operand.comparators)
                return node
        return ast.fix_missing_locations(T().visit(e))

    # -- statement lists
    def stmts(self, body):
        out = []
        for st in _strip_doc(body):
            out += self.stmt(st)
        # R-bubble: `X = []` moves up past directly preceding simple assignments `Y = E` (Y a name ≠ X, X not in E):
        # binding a fresh empty list to a local cannot raise and cannot be observed by E, and if E raises the frame is
        # gone; so the two orders are indistinguishable.  (Stops at any other statement: today's order is kept.)
        i = 0
        while i < len(out):
            st = out[i]
            if isinstance(st, ast.Assign) and len(st.targets) == 1 and isinstance(st.targets[0], ast.Name) \
                    and _is_empty_list(st.value):
                x, j = st.targets[0].id, i
                while j > 0:
                    pv = out[j - 1]
                    if isinstance(pv, ast.Assign) and len(pv.targets) == 1 and isinstance(pv.targets[0], ast.Name) \
                            and pv.targets[0].id != x and x not in _names(pv) and not _is_empty_list(pv.value):
                        out[j - 1], out[j] = out[j], out[j - 1]
                        j -= 1
                    else:
                        break
            i += 1
        # R-inline: `N = Exception(<name>)` directly followed by `raise N`, N used nowhere else  =  `raise Exception(<name>)`
        # (same evaluation order; the only difference is a local that nobody reads)
        i = 0
        while i + 1 < len(out):
            a, b = out[i], out[i + 1]
            if (isinstance(a, ast.Assign) and len(a.targets) == 1 and isinstance(a.targets[0], ast.Name)
                    and isinstance(a.value, ast.Call) and ast.unparse(a.value.func) == "Exception"
                    and len(a.value.args) == 1 and isinstance(a.value.args[0], ast.Name) and not a.value.keywords
                    and isinstance(b, ast.Raise) and b.cause is None and isinstance(b.exc, ast.Name)
                    and b.exc.id == a.targets[0].id and _names(self.fn).count(b.exc.id) == 2):
                out[i:i + 2] = [ast.copy_location(ast.Raise(exc=a.value, cause=None), b)]
            i += 1
        return out

    def stmt(self, st):
        """one statement -> list of normalised statements"""
        if isinstance(st, ast.If):
            st = ast.copy_location(ast.If(test=self.expr(st.test), body=self.stmts(st.body), orelse=self.stmts(st.orelse)), st)
            return [st]
        if isinstance(st, ast.For):
            pre = []
            it = st.iter
            # R-hoist: `for v in <call>` = `tmp = <call>; for v in tmp` (the iterable is evaluated once, before the
            # first iteration, either way)
            if isinstance(it, ast.Call):
                tmp = self.fresh()
                pre = [ast.copy_location(ast.Assign(targets=[ast.Name(id=tmp, ctx=ast.Store())], value=it), st)]
                it = ast.Name(id=tmp, ctx=ast.Load())
            new = ast.copy_location(ast.For(target=st.target, iter=it, body=self.stmts(st.body),
                                            orelse=self.stmts(st.orelse), type_comment=None), st)
            return pre + [new]
        if isinstance(st, ast.Try):
            handlers = []
            for h in st.handlers:
                # R-split: `except (A, B): body` = `except A: body` / `except B: body` (the first matching clause runs;
                # both clauses run the same body)
                if isinstance(h.type, ast.Tuple) and h.name is None:
                    for t in h.type.elts:
                        handlers.append(ast.copy_location(ast.ExceptHandler(type=t, name=None, body=self.stmts(h.body)), h))
                else:
                    handlers.append(ast.copy_location(ast.ExceptHandler(type=h.type, name=h.name, body=self.stmts(h.body)), h))
            return [ast.copy_location(ast.Try(body=self.stmts(st.body), handlers=handlers, orelse=self.stmts(st.orelse),
                                              finalbody=self.stmts(st.finalbody)), st)]
        if isinstance(st, ast.AnnAssign) and st.value is not None and st.simple and isinstance(st.target, ast.Name):
            # `x: T = e` = `x = e` (annotations of locals are not evaluated)
            st = ast.copy_location(ast.Assign(targets=[st.target], value=st.value), st)
        if isinstance(st, ast.Assign) and len(st.targets) == 1 and isinstance(st.targets[0], ast.Name) \
                and isinstance(st.value, ast.ListComp) and len(st.value.generators) == 1:
            g = st.value.generators[0]
            x = st.targets[0].id
            # R-comprehension: `X = [v for v in IT if C]` = `X = []; for v in IT: if C: X.append(v)` when the element
            # is the loop variable itself, X occurs neither in IT nor in C, and v is not read after the loop (the
            # comprehension does not leak v; the loop does)
            if (not g.is_async and isinstance(g.target, ast.Name) and isinstance(st.value.elt, ast.Name)
                    and st.value.elt.id == g.target.id and x not in _names(g.iter) and all(x not in _names(c) for c in g.ifs)
                    and x != g.target.id and self._not_read_outside(g.target.id, st)):
                app = ast.Expr(value=ast.Call(func=ast.Attribute(value=ast.Name(id=x, ctx=ast.Load()), attr="append", ctx=ast.Load()),
                                              args=[ast.Name(id=g.target.id, ctx=ast.Load())], keywords=[]))
                inner = [app]
                for c in reversed(g.ifs):
                    inner = [ast.If(test=c, body=inner, orelse=[])]
                loop = ast.For(target=ast.Name(id=g.target.id, ctx=ast.Store()), iter=g.iter, body=inner, orelse=[], type_comment=None)
                init = ast.Assign(targets=[ast.Name(id=x, ctx=ast.Store())], value=ast.List(elts=[], ctx=ast.Load()))
                res = []
                for n in (init, loop):
                    ast.copy_location(n, st)
                    ast.fix_missing_locations(n)
                    res += self.stmt(n) if n is loop else [n]
                return res
        if isinstance(st, ast.Raise) and st.cause is None and isinstance(st.exc, ast.Call) \
                and ast.unparse(st.exc.func) == "Exception" and len(st.exc.args) == 1 \
                and not isinstance(st.exc.args[0], ast.Name) and not st.exc.keywords:
            # R-split-raise: `raise Exception(<message built in place>)` = `tmp = Exception(…); raise tmp`
            tmp = self.fresh()
            a = ast.copy_location(ast.Assign(targets=[ast.Name(id=tmp, ctx=ast.Store())], value=self.expr(st.exc)), st)
            r = ast.copy_location(ast.Raise(exc=ast.Name(id=tmp, ctx=ast.Load()), cause=None), st)
            return [ast.fix_missing_locations(a), ast.fix_missing_locations(r)]
        if isinstance(st, (ast.Assign, ast.AugAssign, ast.Expr, ast.Return, ast.Raise)):
            return [self.expr(st)]
        return [st]

    def _not_read_outside(self, var, comp_stmt):
        inside = sum(1 for n in ast.walk(comp_stmt) if isinstance(n, ast.Name) and n.id == var)
        return _names(self.fn).count(var) == inside

    # -- alpha renaming
    def rename(self, body, canonical):
        """consistent renaming of the function's LOCAL variables (bound by assignment / for / except-as, not parameters,
        not declared global/nonlocal) to the canonical names, by order of first binding.  A bijective renaming of
        locals that captures no other name is semantics-preserving; if the orders do not correspond the statements
        simply will not match the vocabulary afterwards (gap)."""
        params = {a.arg for a in self.fn.args.posonlyargs + self.fn.args.args + self.fn.args.kwonlyargs}
        if self.fn.args.vararg:
            params.add(self.fn.args.vararg.arg)
        if self.fn.args.kwarg:
            params.add(self.fn.args.kwarg.arg)
        order, declared = [], set()
        mod = ast.Module(body=body, type_ignores=[])
        for n in ast.walk(mod):
            if isinstance(n, (ast.Global, ast.Nonlocal)):
                declared |= set(n.names)

        def visit(node):        # source order
            for ch in ast.iter_child_nodes(node):
                if isinstance(ch, (ast.FunctionDef, ast.Lambda, ast.ClassDef, ast.ListComp, ast.SetComp, ast.DictComp, ast.GeneratorExp)):
                    continue
                if isinstance(ch, ast.Assign):           # value first (evaluation order), then targets
                    visit(ch.value)
                    for t in ch.targets:
                        visit_store(t)
                    continue
                visit_store(ch) if isinstance(ch, ast.Name) else visit(ch)

        def visit_store(node):
            if isinstance(node, ast.Name):
                if isinstance(node.ctx, ast.Store) and node.id not in params and node.id not in declared and node.id not in order:
                    order.append(node.id)
            else:
                visit(node)
        visit(mod)
        imported = {a.asname or a.name.split(".")[0] for n in ast.walk(mod) if isinstance(n, (ast.Import, ast.ImportFrom)) for a in n.names}
        order = [x for x in order if x not in imported]
        if len(order) != len(canonical):
            return body
        mapping = dict(zip(order, canonical))
        if all(k == v for k, v in mapping.items()):
            return body
        free = set(_names(mod)) - set(order)
        if any(v in free or v in params for k, v in mapping.items() if k != v):
            return body                                  # would capture another name: leave as is (-> gap)

        class R(ast.NodeTransformer):
            def visit_Name(self, node):
                if node.id in mapping:
                    return ast.copy_location(ast.Name(id=mapping[node.id], ctx=node.ctx), node)
                return node
        return [R().visit(st) for st in body]


def normalise(fn):
    """FunctionDef -> normalised statement list (the input tree is not modified)"""
    fn = ast.parse(ast.unparse(fn)).body[0]
    nz = _Normaliser(fn)
    body = nz.stmts(fn.body)
    body = nz.rename(body, CANONICAL_LOCALS.get(fn.name, []))
    return [ast.fix_missing_locations(st) for st in body]


def check_signature(fn, gaps, label):
    want = SIGNATURES[fn.name]
    a = fn.args
    have = [x.arg for x in a.posonlyargs + a.args]
    defaults = [ast.unparse(d) for d in a.defaults]
    kw = a.kwarg.arg if a.kwarg else None
    decos = [ast.unparse(d) for d in fn.decorator_list]
    if (have, defaults, kw, decos) != want or a.vararg or a.kwonlyargs:
        gaps.append("%s: signature (%s, defaults %s, **%s, decorators %s) is not the expected %s" % (
            label, have, defaults, kw, decos, want))
    return have


def _template_match(fn, template, hole):
    """does `fn` equal the template up to the expression standing at the hole's place? -> that expression | None"""
    want = ast.parse(template).body[0]
    got = ast.parse(ast.unparse(fn)).body[0]
    got.body = _strip_doc(got.body)
    got.decorator_list = []
    found = []

    class Find(ast.NodeTransformer):
        def visit_Name(self, node):
            return node
    # walk both trees in parallel
    def same(a, b):
        if isinstance(a, ast.Name) and a.id == hole:
            found.append(b)
            return True
        if type(a) is not type(b):
            return False
        if isinstance(a, ast.AST):
            for f in a._fields:
                if not same(getattr(a, f, None), getattr(b, f, None)):
                    return False
            return True
        if isinstance(a, list):
            return len(a) == len(b) and all(same(x, y) for x, y in zip(a, b))
        return a == b
    if same(want, got) and len(found) == 1:
        return found[0]
    return None


def _str_tuple(node):
    if isinstance(node, (ast.Tuple, ast.List)) and all(isinstance(e, ast.Constant) and isinstance(e.value, str)
                                                       for e in node.elts):
        return [e.value for e in node.elts]
    return None


def _exclusion_names(node):
    """`obj[0] != "a" and obj[0] != "b" …` -> ["a", "b", …]"""
    parts = node.values if isinstance(node, ast.BoolOp) and isinstance(node.op, ast.And) else [node]
    out = []
    for p in parts:
        if (isinstance(p, ast.Compare) and len(p.ops) == 1 and isinstance(p.ops[0], ast.NotEq)
                and ast.unparse(p.left) == "obj[0]" and isinstance(p.comparators[0], ast.Constant)
                and isinstance(p.comparators[0].value, str)):
            out.append(p.comparators[0].value)
        else:
            return None
    return out


def lean_str(s):
    return json.dumps(s, ensure_ascii=False)


HEADER = """/-
GENERATED by translators/py2lean_add.py from neuroml/nml/generatedssupersuper.py and neuroml/nml/nml.py.
Regenerated on every `bin/check C10`; do not edit.
-/
import NmlVerif.Model.AddIR
import NmlVerif.Model.GetMembersIR

namespace NmlVerif.Gen.AddImpl
open NmlVerif.Add NmlVerif.Add.IR

"""
FOOTER = "\nend NmlVerif.Gen.AddImpl\n"


def translate_repo(repo):
    gaps = []
    gp = os.path.join(repo, "neuroml", "nml", "generatedssupersuper.py")
    np_ = os.path.join(repo, "neuroml", "nml", "nml.py")
    with open(gp, encoding="utf-8") as fh:
        gtree = ast.parse(fh.read())
    with open(np_, encoding="utf-8") as fh:
        ntree = ast.parse(fh.read())
    klass = [n for n in gtree.body if isinstance(n, ast.ClassDef) and n.name == "GeneratedsSuperSuper"]
    funs = {}
    if len(klass) != 1:
        gaps.append("generatedssupersuper.py: %d classes GeneratedsSuperSuper" % len(klass))
    else:
        for it in klass[0].body:
            if isinstance(it, ast.FunctionDef):
                funs.setdefault(it.name, []).append(it)
    chunks = []

    def one(name):
        nodes = funs.get(name, [])
        if len(nodes) != 1:
            gaps.append("generatedssupersuper.py: %d definitions of GeneratedsSuperSuper.%s (expected 1)" % (len(nodes), name))
            return None
        return nodes[0]

    used = set()
    for name, lean in (("__add", "place"), ("add", "add")):
        fn = one(name)
        if fn is None:
            chunks.append("def %sParams : List String := []\ndef %s : Cmd := unsupported\n" % (lean, lean))
            continue
        tr = Tr("generatedssupersuper.py: GeneratedsSuperSuper.%s" % name)
        params = check_signature(fn, gaps, tr.label)
        body = tr.block(normalise(fn), 2)
        gaps += tr.gaps
        if name == "__add":
            used = set(tr.used)
        chunks.append("/-- parameters of `GeneratedsSuperSuper.%s` -/\ndef %sParams : List String := [%s]\n" % (
            name, lean, ", ".join(lean_str(p) for p in params)))
        chunks.append("/-- body of `GeneratedsSuperSuper.%s` -/\ndef %s : Cmd :=\n  %s\n" % (name, lean, body))
    # _get_members
    fn = one("_get_members")
    if fn is None:
        chunks.append("def getMembersParams : List String := []\ndef getMembers : GM.Cmd := GM.unsupported\n")
    else:
        tr = TrGM("generatedssupersuper.py: GeneratedsSuperSuper._get_members")
        params = check_signature(fn, gaps, tr.label)
        body = tr.block(normalise(fn), 2)
        gaps += tr.gaps
        chunks.append("/-- parameters of `GeneratedsSuperSuper._get_members` (a classmethod) -/\n"
                      "def getMembersParams : List String := [%s]\n" % ", ".join(lean_str(p) for p in params))
        chunks.append("/-- body of `GeneratedsSuperSuper._get_members` -/\ndef getMembers : GM.Cmd :=\n  %s\n" % body)
    # __same_contents (only on a tree with the proposed repair)
    book = []
    nodes = funs.get("__same_contents", [])
    if "anySameContents" in used or nodes:
        if len(nodes) != 1:
            gaps.append("generatedssupersuper.py: __add uses __same_contents but there are %d definitions" % len(nodes))
        else:
            check_signature(nodes[0], gaps, "generatedssupersuper.py: GeneratedsSuperSuper.__same_contents")
            hole = _template_match(nodes[0], SAME_CONTENTS_TEMPLATE, "BOOK_KEEPING")
            names = _str_tuple(hole) if hole is not None else None
            if names is None:
                gaps.append("generatedssupersuper.py: GeneratedsSuperSuper.__same_contents is not of the known shape")
            else:
                book = names
    # the generated __eq__
    eqs = [n for n in ast.walk(ntree) if isinstance(n, ast.ClassDef) and n.name == "GeneratedsSuper"]
    excluded = []
    eq_nodes = [it for k in eqs for it in k.body if isinstance(it, ast.FunctionDef) and it.name == "__eq__"]
    if len(eq_nodes) != 1:
        gaps.append("nml.py: %d definitions of GeneratedsSuper.__eq__ (expected 1)" % len(eq_nodes))
    else:
        hole = _template_match(eq_nodes[0], EQ_TEMPLATE, "EXCLUSION")
        names = _exclusion_names(hole) if hole is not None else None
        if names is None:
            gaps.append("nml.py: line %d: GeneratedsSuper.__eq__ is not of the known shape (same type, then all items of "
                        "__dict__ pairwise equal, leaving out attributes listed by name)" % eq_nodes[0].lineno)
        else:
            excluded = names
    ne_nodes = [it for k in eqs for it in k.body if isinstance(it, ast.FunctionDef) and it.name == "__ne__"]
    if len(ne_nodes) != 1 or ast.unparse(ne_nodes[0].body[-1]) != "return not self.__eq__(other)":
        gaps.append("nml.py: GeneratedsSuper.__ne__ is not `return not self.__eq__(other)`")
    chunks.append("/-- which test `__add` uses for \"already there\" -/\ndef dupTest : DupTest := .%s\n" % (
        "sameContents" if "anySameContents" in used else "generatedEq"))
    chunks.append("/-- how `__add` gets the text of the duplicate warning -/\ndef warnFmt : WarnFmt := .%s\n" % (
        "guarded" if "tryExceptException" in used else "strObj"))
    chunks.append("/-- the `book_keeping` tuple of `__same_contents` -/\ndef bookKeeping : List String := [%s]\n" % (
        ", ".join(lean_str(x) for x in book)))
    chunks.append("/-- attributes the generated `GeneratedsSuper.__eq__` leaves out -/\ndef eqExcluded : List String := [%s]\n" % (
        ", ".join(lean_str(x) for x in excluded)))
    return HEADER + "\n".join(chunks) + FOOTER, gaps


def regenerate(repo, out_path):
    text, gaps = translate_repo(repo)
    old = None
    if os.path.exists(out_path):
        with open(out_path, encoding="utf-8") as fh:
            old = fh.read()
    if old != text:
        os.makedirs(os.path.dirname(out_path), exist_ok=True)
        tmp = out_path + ".tmp%d" % os.getpid()
        with open(tmp, "w", encoding="utf-8") as fh:
            fh.write(text)
        os.replace(tmp, out_path)
    return gaps


if __name__ == "__main__":
    repo = sys.argv[1] if len(sys.argv) > 1 else os.environ.get("VERIF_REPO", "/repo")
    here = os.path.dirname(os.path.dirname(os.path.abspath(__file__)))
    out = sys.argv[2] if len(sys.argv) > 2 else os.path.join(here, "lean", "NmlVerif", "Gen", "AddImpl.lean")
    gs = regenerate(repo, out)
    for g in gs:
        print("GAP:", g)
    print("wrote", out, "gaps:", len(gs))
