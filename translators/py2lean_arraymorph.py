"""py2lean_arraymorph — statement-level translation of the array-morphology methods of libNeuroML into Lean.

Reads `neuroml/arraymorph.py` of the CURRENT working tree with Python's `ast` (nothing is imported or executed) and
emits `lean/NmlVerif/Gen/ArrayMorph.lean`: one Lean definition per method, in `Except Err` do-notation, over the state
`Obj` (= the three arrays + `SegmentList.instantiated_segments`) and the primitives of `Model/ArrayMorph.lean`.
`Props/C18Gen.lean` proves every generated definition equal to the hand model; an edit of one of these methods therefore
either changes the generated text (the equality proof stops checking) or is refused here (a *gap*) — never skipped.

Methods (class, name):
    ArrayMorphology: root_index, num_vertices (properties), to_root, segment_from_vertex_index, to_neuroml_morphology
    SegmentList:     __init__, __vertex_index_from_segment_index__, __len__, __getitem__, __setitem__

`self` of an `ArrayMorphology` method and `self` / `self.arraymorph` of a `SegmentList` method are the same `Obj`
(`ArrayMorphology.__init__` builds `self.segments = SegmentList(self)`; checked below).

Translation rules (anything else is a gap):
  statements
    x = e                                   let x := e   /  let x ← e            (e with an indexing / a call that can raise)
    self.connectivity[i] = e                let self ← setConn self i e
    <cache>[k] = e                          let self := setItem self k e          (<cache> = self.instantiated_segments,
                                                                                   self.segments.instantiated_segments)
    <cache>.clear()                         let self := { self with cache := [] }
    seg.parent = p   (p a SegmentParent)    let seg := { seg with parent := some p }
    m.id = e         (m a Morphology)       let m := { m with id := some e }
    m.segments.append(s)                    let m := { m with segments := m.segments ++ [s] }
    if c: A [else: B]                       let (carried) ← (if c then do A; pure (carried) else do B; pure (carried))
                                            carried = names assigned in a branch that exist before the `if` or are assigned
                                            in both branches (+ self when a branch changes the object);
                                            a branch that ends in `return` takes the rest of the block as the other branch
    while c: B                              auxiliary definition  f_loopN  by recursion on a fuel argument (the enclosing
                                            definition gets a leading `fuel : Nat`; out of fuel = `Err.outOfFuel`)
    for x in range(a[, b]): B               auxiliary definition  f_loopN  by recursion on the list `pyRange a b`
    return e  /  falling off the end        pure e  /  pure ()      (object-changing methods return (value, self))
    docstring, pass                         nothing
  expressions (all numbers are unbounded `Int`)
    int literals, names, a + b, a - b, comparisons == != < > <= >=, `k in <cache>`, int(e), len(list)
    self.connectivity[i]  self.vertices[i][k]  <cache>[k]  list[i]      getI / getComp / cacheGet   (Python indexing: negative
                                                                         indices wrap, otherwise IndexError / KeyError)
    self.segments[i]  (in ArrayMorphology)                               SegmentList.getitem
    np.where(A == c)[0]   (A int array, c int)  /  (A mask, c False)     whereEq c 0 A  /  whereFalse 0 A
    <int list> + c                                                       list.map (· + c)
    np.sum(mask)                                                         mask.count true
    self.root_index, self.num_vertices, method calls on the same object  the generated definitions
    neuroml.Point3DWithDiam(x=,y=,z=,diameter=), neuroml.Segment(proximal=,distal=,id=), neuroml.SegmentParent(segments=),
    neuroml.Morphology()                                                 tuples / records of `Model/ArrayMorph.lean`
"""
import ast
import os
import sys

TARGETS = [
    # (class, python name, lean name, parameter types)
    ("ArrayMorphology", "root_index", "root_index", {}),
    ("ArrayMorphology", "num_vertices", "num_vertices", {}),
    ("ArrayMorphology", "segment_from_vertex_index", "segment_from_vertex_index", {"index": "int"}),
    ("ArrayMorphology", "to_root", "to_root", {"index": "int"}),
    ("ArrayMorphology", "to_neuroml_morphology", "to_neuroml_morphology", {"id": "str"}),
    ("SegmentList", "__vertex_index_from_segment_index__", "SegmentList.vertex_index_from_segment_index", {"index": "int"}),
    ("SegmentList", "__len__", "SegmentList.len", {}),
    ("SegmentList", "__getitem__", "SegmentList.getitem", {"segment_index": "int"}),
    ("SegmentList", "__setitem__", "SegmentList.setitem", {"index": "int", "user_set_segment": "seg"}),
]
PROPERTIES = {"root_index", "num_vertices"}
LEAN_TY = {"int": "Int", "seg": "Segment", "vec": "Vec4", "morph": "PlainMorph", "intlist": "List Int",
           "boollist": "List Bool", "veclist": "List Vec4", "obj": "Obj", "str": "String", "segparent": "Int",
           "unit": "Unit", "bool": "Bool"}
ARRAYS = {"connectivity": ("self.arr.conn", "intlist"), "vertices": ("self.arr.vertices", "veclist"),
          "physical_mask": ("self.arr.mask", "boollist")}
LEAN_RESERVED = {"at", "from", "end", "fun", "do", "then", "else", "if", "let", "have", "show", "match", "with", "in",
                 "by", "where", "open", "def", "theorem", "structure", "class", "instance", "namespace", "section",
                 "variable", "universe", "import", "for", "return", "mut", "Type", "Prop", "Sort", "rest_", "fuel_"}


class Gap(Exception):
    pass


def where(n):
    return "line %s" % getattr(n, "lineno", "?")


def lname(n):
    return n + "'" if n in LEAN_RESERVED else n


def is_self_attr(n, attr=None):
    return isinstance(n, ast.Attribute) and isinstance(n.value, ast.Name) and n.value.id == "self" and \
        (attr is None or n.attr == attr)


class Fn:
    """translation of one method"""

    def __init__(self, tr, cls, pyname, lean, ptypes, node):
        self.tr, self.cls, self.pyname, self.lean, self.ptypes, self.node = tr, cls, pyname, lean, ptypes, node
        self.aux = []          # auxiliary loop definitions (text)
        self.nloop = 0
        self.ntmp = 0
        self.ret_types = []
        self.has_while = False
        self.mutating = tr.mutating[(cls, pyname)]

    # ------------------------------------------------------------ recognisers for the object's parts
    def obj_base(self, n):
        """n denotes the ArrayMorphology object itself?"""
        if isinstance(n, ast.Name) and n.id == "self" and self.cls == "ArrayMorphology":
            return True
        return self.cls == "SegmentList" and is_self_attr(n, "arraymorph")

    def is_cache(self, n):
        if self.cls == "SegmentList":
            return is_self_attr(n, "instantiated_segments")
        return isinstance(n, ast.Attribute) and n.attr == "instantiated_segments" and is_self_attr(n.value, "segments")

    def is_seglist(self, n):
        if self.cls == "SegmentList":
            return isinstance(n, ast.Name) and n.id == "self"
        return is_self_attr(n, "segments")

    def array(self, n):
        if isinstance(n, ast.Attribute) and n.attr in ARRAYS and self.obj_base(n.value):
            return ARRAYS[n.attr]
        return None

    def tmp(self):
        self.ntmp += 1
        return "t%d" % self.ntmp

    # ------------------------------------------------------------ expressions
    # ex(n, env, pre) -> (lean text, type); may append do-lines to `pre` (hoisted reads that can raise);
    # top=True allows returning ("bind", monadic text, type) for the caller to bind directly
    def atom(self, n, env, pre):
        r = self.ex(n, env, pre, top=True)
        if r[0] == "bind":
            t = self.tmp()
            pre.append("let %s ← %s" % (t, r[1]))
            return t, r[2]
        return r

    def ex(self, n, env, pre, top=False):
        if isinstance(n, ast.Constant):
            if isinstance(n.value, bool) or not isinstance(n.value, (int, str)):
                raise Gap("unsupported constant %r (%s)" % (n.value, where(n)))
            if isinstance(n.value, str):
                return '"%s"' % n.value.replace("\\", "\\\\").replace('"', '\\"'), "str"
            return "(%d : Int)" % n.value, "int"
        if isinstance(n, ast.UnaryOp) and isinstance(n.op, ast.USub) and isinstance(n.operand, ast.Constant) and \
                isinstance(n.operand.value, int) and not isinstance(n.operand.value, bool):
            return "(-%d : Int)" % n.operand.value, "int"
        if isinstance(n, ast.Name):
            if n.id in env:
                return lname(n.id), env[n.id]
            raise Gap("unknown name %r (%s)" % (n.id, where(n)))
        if isinstance(n, ast.BinOp) and isinstance(n.op, (ast.Add, ast.Sub)):
            a, ta = self.atom(n.left, env, pre)
            b, tb = self.atom(n.right, env, pre)
            op = "+" if isinstance(n.op, ast.Add) else "-"
            if ta == "int" and tb == "int":
                return "(%s %s %s)" % (a, op, b), "int"
            if ta == "intlist" and tb == "int":
                return "(%s.map (· %s %s))" % (a, op, b), "intlist"
            raise Gap("unsupported operands %s %s %s (%s)" % (ta, op, tb, where(n)))
        if isinstance(n, ast.Compare):
            if len(n.ops) != 1:
                raise Gap("chained comparison (%s)" % where(n))
            op, rhs = n.ops[0], n.comparators[0]
            if isinstance(op, (ast.In, ast.NotIn)) and self.is_cache(rhs):
                a, ta = self.atom(n.left, env, pre)
                self.need(ta, "int", n)
                t = "(cacheHas self %s = true)" % a
                return (t if isinstance(op, ast.In) else "(¬ %s)" % t), "bool"
            sym = {ast.Eq: "=", ast.NotEq: "≠", ast.Lt: "<", ast.Gt: ">", ast.LtE: "≤", ast.GtE: "≥"}.get(type(op))
            if sym is None:
                raise Gap("unsupported comparison %s (%s)" % (type(op).__name__, where(n)))
            a, ta = self.atom(n.left, env, pre)
            b, tb = self.atom(rhs, env, pre)
            if ta == "int" and tb == "int":
                return "(%s %s %s)" % (a, sym, b), "bool"
            raise Gap("comparison of %s and %s (%s)" % (ta, tb, where(n)))
        if isinstance(n, ast.Attribute):
            arr = self.array(n)
            if arr:
                return arr
            if n.attr in PROPERTIES and self.obj_base(n.value):
                return self.call_target("ArrayMorphology", n.attr, [], env, pre, n, top)
            raise Gap("unsupported attribute .%s (%s)" % (n.attr, where(n)))
        if isinstance(n, ast.Subscript):
            return self.subscript(n, env, pre, top)
        if isinstance(n, ast.Call):
            return self.call(n, env, pre, top)
        raise Gap("unsupported expression %s (%s)" % (type(n).__name__, where(n)))

    def need(self, ty, want, n):
        if ty != want:
            raise Gap("expected %s, found %s (%s)" % (want, ty, where(n)))

    def monadic(self, text, ty, pre, top):
        if top:
            return "bind", text, ty
        t = self.tmp()
        pre.append("let %s ← %s" % (t, text))
        return t, ty

    def np_where(self, n, env, pre):
        """np.where(A == c)[0]  ->  list of positions, or None"""
        if not (isinstance(n, ast.Subscript) and isinstance(n.slice, ast.Constant) and n.slice.value == 0 and
                isinstance(n.value, ast.Call)):
            return None
        c = n.value
        f = c.func
        if not (isinstance(f, ast.Attribute) and f.attr == "where" and isinstance(f.value, ast.Name) and f.value.id == "np"):
            return None
        if len(c.args) != 1 or c.keywords or not isinstance(c.args[0], ast.Compare) or len(c.args[0].ops) != 1 or \
                not isinstance(c.args[0].ops[0], ast.Eq):
            raise Gap("unsupported np.where(...) form (%s)" % where(n))
        lhs, rhs = c.args[0].left, c.args[0].comparators[0]
        a, ta = self.atom(lhs, env, pre)
        if ta == "boollist" and isinstance(rhs, ast.Constant) and rhs.value is False:
            return "(whereFalse 0 %s)" % a, "intlist"
        if ta == "intlist":
            b, tb = self.atom(rhs, env, pre)
            self.need(tb, "int", n)
            return "(whereEq %s 0 %s)" % (b, a), "intlist"
        raise Gap("unsupported np.where(%s == ...) (%s)" % (ta, where(n)))

    def subscript(self, n, env, pre, top):
        w = self.np_where(n, env, pre)
        if w:
            return w
        if isinstance(n.slice, (ast.Slice, ast.Tuple)):
            raise Gap("slice / tuple index (%s)" % where(n))
        # self.vertices[i][k]
        if isinstance(n.value, ast.Subscript) and self.array(n.value.value) and self.array(n.value.value)[1] == "veclist":
            i, ti = self.atom(n.value.slice, env, pre)
            k, tk = self.atom(n.slice, env, pre)
            self.need(ti, "int", n)
            self.need(tk, "int", n)
            return self.monadic("getComp self.arr.vertices %s %s" % (i, k), "int", pre, top)
        if self.is_cache(n.value):
            k, tk = self.atom(n.slice, env, pre)
            self.need(tk, "int", n)
            return self.monadic("cacheGet self %s" % k, "seg", pre, top)
        if self.is_seglist(n.value):
            return self.call_target("SegmentList", "__getitem__", [n.slice], env, pre, n, top)
        v, tv = self.atom(n.value, env, pre)
        i, ti = self.atom(n.slice, env, pre)
        self.need(ti, "int", n)
        el = {"intlist": "int", "veclist": "vec"}.get(tv)
        if el is None:
            raise Gap("indexing a %s (%s)" % (tv, where(n)))
        return self.monadic("getI %s %s" % (v, i), el, pre, top)

    def kwargs(self, c, names):
        if c.args or sorted(k.arg or "" for k in c.keywords) != sorted(names):
            raise Gap("constructor call must have exactly the keywords %s (%s)" % (sorted(names), where(c)))
        return {k.arg: k.value for k in c.keywords}

    def call(self, c, env, pre, top):
        f = c.func
        if isinstance(f, ast.Name) and f.id in ("int", "len") and len(c.args) == 1 and not c.keywords:
            a, ta = self.atom(c.args[0], env, pre)
            if f.id == "int":
                self.need(ta, "int", c)
                return a, "int"
            if ta in ("intlist", "veclist", "boollist"):
                return "(%s.length : Int)" % a, "int"
            raise Gap("len of %s (%s)" % (ta, where(c)))
        if isinstance(f, ast.Attribute) and isinstance(f.value, ast.Name) and f.value.id == "np":
            if f.attr == "sum" and len(c.args) == 1 and not c.keywords:
                a, ta = self.atom(c.args[0], env, pre)
                self.need(ta, "boollist", c)
                return "((%s.count true : Nat) : Int)" % a, "int"
            raise Gap("unsupported numpy call np.%s (%s)" % (f.attr, where(c)))
        if isinstance(f, ast.Attribute) and isinstance(f.value, ast.Name) and f.value.id == "neuroml":
            if f.attr == "Point3DWithDiam":
                kw = self.kwargs(c, ["x", "y", "z", "diameter"])
                parts = []
                for k in ("x", "y", "z", "diameter"):
                    a, ta = self.atom(kw[k], env, pre)
                    self.need(ta, "int", c)
                    parts.append(a)
                return "((%s, %s, %s, %s) : Vec4)" % tuple(parts), "vec"
            if f.attr == "SegmentParent":
                kw = self.kwargs(c, ["segments"])
                a, ta = self.atom(kw["segments"], env, pre)
                self.need(ta, "int", c)
                return a, "segparent"
            if f.attr == "Segment":
                kw = self.kwargs(c, ["proximal", "distal", "id"])
                p, tp = self.atom(kw["proximal"], env, pre)
                d, td = self.atom(kw["distal"], env, pre)
                i, ti = self.atom(kw["id"], env, pre)
                self.need(tp, "vec", c)
                self.need(td, "vec", c)
                self.need(ti, "int", c)
                return "({ id := %s, proximal := %s, distal := %s, parent := none } : Segment)" % (i, p, d), "seg"
            if f.attr == "Morphology":
                self.kwargs(c, [])
                return "({ id := none, segments := [] } : PlainMorph)", "morph"
            raise Gap("unsupported constructor neuroml.%s (%s)" % (f.attr, where(c)))
        if isinstance(f, ast.Attribute):
            if c.keywords:
                raise Gap("keyword arguments in a method call (%s)" % where(c))
            if self.obj_base(f.value) and ("ArrayMorphology", f.attr) in self.tr.nodes:
                return self.call_target("ArrayMorphology", f.attr, c.args, env, pre, c, top)
            if self.is_seglist(f.value) and ("SegmentList", f.attr) in self.tr.nodes:
                return self.call_target("SegmentList", f.attr, c.args, env, pre, c, top)
        raise Gap("unsupported call (%s)" % where(c))

    def call_target(self, cls, pyname, args, env, pre, n, top):
        key = (cls, pyname)
        if key not in self.tr.lean_name:
            raise Gap("call of %s.%s which is not translated (%s)" % (cls, pyname, where(n)))
        if key == (self.cls, self.pyname):
            raise Gap("recursive call (%s)" % where(n))
        self.tr.deps.setdefault((self.cls, self.pyname), set()).add(key)
        if self.tr.has_while.get(key):
            raise Gap("call of %s.%s which contains a while loop (%s)" % (cls, pyname, where(n)))
        want = self.tr.ptypes[key]
        if len(args) != len(want):
            raise Gap("wrong number of arguments for %s.%s (%s)" % (cls, pyname, where(n)))
        ts = []
        for a, (pn, pt) in zip(args, want.items()):
            x, tx = self.atom(a, env, pre)
            self.need(tx, pt, n)
            ts.append(x)
        text = " ".join([self.tr.lean_name[key], "self"] + ts)
        rty = self.tr.ret_type.get(key)
        if rty is None:
            raise Gap("call of %s.%s before its translation is known (%s)" % (cls, pyname, where(n)))
        if self.tr.mutating[key]:
            if not self.mutating:
                raise Gap("internal: caller of an object-changing method not marked object-changing (%s)" % where(n))
            t = self.tmp()
            pre.append("let (%s, self) ← %s" % (t, text))
            return t, rty
        return self.monadic(text, rty, pre, top)

    # ------------------------------------------------------------ statements
    def assigned(self, stmts):
        """names (re)bound by a block, `self` when the object is changed"""
        out = set()
        for st in stmts:
            for n in ast.walk(st):
                if isinstance(n, ast.Assign):
                    for t in n.targets:
                        if isinstance(t, ast.Name):
                            out.add(t.id)
                        elif isinstance(t, ast.Attribute) and isinstance(t.value, ast.Name) and t.value.id != "self":
                            out.add(t.value.id)
                        elif isinstance(t, ast.Subscript) and (self.array(t.value) or self.is_cache(t.value)):
                            out.add("self")
                elif isinstance(n, ast.Call) and isinstance(n.func, ast.Attribute) and n.func.attr == "clear" and \
                        self.is_cache(n.func.value):
                    out.add("self")
                elif isinstance(n, ast.For) and isinstance(n.target, ast.Name):
                    out.add(n.target.id)
                elif isinstance(n, ast.Call) and isinstance(n.func, ast.Attribute):
                    f = n.func
                    if f.attr == "append" and isinstance(f.value, ast.Attribute) and isinstance(f.value.value, ast.Name):
                        out.add(f.value.value.id)
                    for cls in ("ArrayMorphology", "SegmentList"):
                        if self.tr.mutating.get((cls, f.attr)) and (self.obj_base(f.value) or self.is_seglist(f.value)):
                            out.add("self")
                elif isinstance(n, ast.Subscript) and isinstance(n.ctx, ast.Load) and self.is_seglist(n.value) and \
                        self.tr.mutating.get(("SegmentList", "__getitem__")):
                    out.add("self")
        return out

    def tup(self, names):
        if not names:
            return "()"
        return lname(names[0]) if len(names) == 1 else "(" + ", ".join(lname(x) for x in names) + ")"

    def tup_ty(self, names, env):
        if not names:
            return "Unit"
        return " × ".join(LEAN_TY[env[x]] for x in names)

    def final_ret(self, text):
        return "pure (%s, self)" % text if self.mutating else "pure %s" % text

    def simple(self, st, env, lines):
        """one non-compound statement; returns False when it is not one"""
        if isinstance(st, ast.Pass):
            return True
        if isinstance(st, ast.Expr) and isinstance(st.value, ast.Constant) and isinstance(st.value.value, str):
            return True                                            # docstring
        if isinstance(st, ast.Expr) and isinstance(st.value, ast.Call):
            c = st.value
            f = c.func
            if isinstance(f, ast.Attribute) and f.attr == "append" and isinstance(f.value, ast.Attribute) and \
                    f.value.attr == "segments" and isinstance(f.value.value, ast.Name) and \
                    env.get(f.value.value.id) == "morph" and len(c.args) == 1 and not c.keywords:
                m = lname(f.value.value.id)
                pre = []
                a, ta = self.atom(c.args[0], env, pre)
                self.need(ta, "seg", st)
                lines += pre
                lines.append("let %s := { %s with segments := %s.segments ++ [%s] }" % (m, m, m, a))
                return True
            if isinstance(f, ast.Attribute) and f.attr == "clear" and self.is_cache(f.value) and not c.args and not c.keywords:
                lines.append("let self := { self with cache := [] }")
                return True
            raise Gap("unsupported expression statement (%s)" % where(st))
        if isinstance(st, ast.Assign):
            if len(st.targets) != 1:
                raise Gap("multiple assignment targets (%s)" % where(st))
            t = st.targets[0]
            pre = []
            if isinstance(t, ast.Name):
                r = self.ex(st.value, env, pre, top=True)
                lines += pre
                if r[0] == "bind":
                    lines.append("let %s ← %s" % (lname(t.id), r[1]))
                    env[t.id] = r[2]
                else:
                    lines.append("let %s := %s" % (lname(t.id), r[0]))
                    env[t.id] = r[1]
                return True
            if isinstance(t, ast.Subscript) and self.array(t.value):
                if self.array(t.value)[1] != "intlist":
                    raise Gap("assignment into %s (%s)" % (t.value.attr, where(st)))
                i, ti = self.atom(t.slice, env, pre)
                v, tv = self.atom(st.value, env, pre)
                self.need(ti, "int", st)
                self.need(tv, "int", st)
                lines += pre
                lines.append("let self ← setConn self %s %s" % (i, v))
                return True
            if isinstance(t, ast.Subscript) and self.is_cache(t.value):
                k, tk = self.atom(t.slice, env, pre)
                v, tv = self.atom(st.value, env, pre)
                self.need(tk, "int", st)
                self.need(tv, "seg", st)
                lines += pre
                lines.append("let self := setItem self %s %s" % (k, v))
                return True
            if isinstance(t, ast.Attribute) and isinstance(t.value, ast.Name) and t.value.id in env:
                o, to = lname(t.value.id), env[t.value.id]
                v, tv = self.atom(st.value, env, pre)
                lines += pre
                if to == "seg" and t.attr == "parent" and tv == "segparent":
                    lines.append("let %s := { %s with parent := some %s }" % (o, o, v))
                    return True
                if to == "morph" and t.attr == "id" and tv == "str":
                    lines.append("let %s := { %s with id := some %s }" % (o, o, v))
                    return True
                raise Gap("unsupported attribute assignment %s.%s = <%s> (%s)" % (t.value.id, t.attr, tv, where(st)))
            raise Gap("unsupported assignment target (%s)" % where(st))
        return False

    def block(self, stmts, env, fin, in_loop=False):
        """do-lines for a statement list; `fin(env)` gives the lines used when control falls off the end.
        returns (lines, terminated)"""
        lines = []
        for idx, st in enumerate(stmts):
            rest = stmts[idx + 1:]
            if self.simple(st, env, lines):
                continue
            if isinstance(st, ast.Return):
                if in_loop:
                    raise Gap("return inside a loop (%s)" % where(st))
                if rest:
                    raise Gap("statements after return (%s)" % where(st))
                if st.value is None:
                    self.ret_types.append("unit")
                    lines.append(self.final_ret("()"))
                else:
                    pre = []
                    a, ta = self.atom(st.value, env, pre)
                    self.ret_types.append(ta)
                    lines += pre
                    lines.append(self.final_ret(a))
                return lines, True
            if isinstance(st, ast.If):
                pre = []
                c, tc = self.atom(st.test, env, pre)
                self.need(tc, "bool", st)
                lines += pre
                term_a = self.terminates(st.body)
                term_b = self.terminates(st.orelse)
                if term_a or term_b:
                    if in_loop:
                        raise Gap("return inside a loop (%s)" % where(st))
                    la, _ = self.block(st.body + ([] if term_a else rest), dict(env), fin)
                    lb, _ = self.block(st.orelse + ([] if term_b else rest), dict(env), fin)
                    lines.append("if %s then (do" % c)
                    lines += ["    " + x for x in la[:-1]] + ["    " + la[-1] + ")"]
                    lines.append("else (do")
                    lines += ["    " + x for x in lb[:-1]] + ["    " + lb[-1] + ")"]
                    return lines, True
                asg_a, asg_b = self.assigned(st.body), self.assigned(st.orelse)
                ea, eb = dict(env), dict(env)
                la, _ = self.block(st.body, ea, lambda e: [], in_loop)
                lb, _ = self.block(st.orelse, eb, lambda e: [], in_loop)
                carried = sorted(x for x in (asg_a | asg_b) if x != "self" and (x in env or (x in asg_a and x in asg_b)))
                for x in carried:
                    ta_, tb_ = ea.get(x, env.get(x)), eb.get(x, env.get(x))
                    if ta_ != tb_:
                        raise Gap("%r has type %s in one branch and %s in the other (%s)" % (x, ta_, tb_, where(st)))
                    env[x] = ta_
                names = carried + (["self"] if "self" in (asg_a | asg_b) else [])
                tenv = dict(env, self="obj")
                lines.append("let %s ← (if %s then (do" % (self.tup(names) if names else "_", c))
                lines += ["    " + x for x in la] + ["    pure %s)" % self.tup(names)]
                lines.append("  else (do")
                lines += ["    " + x for x in lb] + ["    pure %s) : Except Err (%s))" % (self.tup(names), self.tup_ty(names, tenv))]
                continue
            if isinstance(st, (ast.While, ast.For)):
                if st.orelse:
                    raise Gap("loop with else (%s)" % where(st))
                self.loop(st, env, lines)
                continue
            raise Gap("unsupported statement %s (%s)" % (type(st).__name__, where(st)))
        return lines + fin(env), False

    def terminates(self, stmts):
        if not stmts:
            return False
        last = stmts[-1]
        if isinstance(last, ast.Return):
            return True
        if isinstance(last, ast.If):
            return self.terminates(last.body) and self.terminates(last.orelse)
        return False

    def loop(self, st, env, lines):
        self.nloop += 1
        name = "%s_loop%d" % (self.lean.replace(".", "_"), self.nloop) if self.nloop > 1 else \
            "%s_loop" % self.lean.replace(".", "_")
        asg = self.assigned(st.body)
        is_for = isinstance(st, ast.For)
        var = None
        if is_for:
            if not isinstance(st.target, ast.Name):
                raise Gap("loop target is not a name (%s)" % where(st))
            var = st.target.id
            it = st.iter
            if not (isinstance(it, ast.Call) and isinstance(it.func, ast.Name) and it.func.id == "range" and
                    1 <= len(it.args) <= 2 and not it.keywords):
                raise Gap("for loop over something else than range(a[, b]) (%s)" % where(st))
            pre = []
            bounds = [self.atom(a, env, pre) for a in it.args]
            for _, tb in bounds:
                self.need(tb, "int", st)
            lines += pre
            lo, hi = ("(0 : Int)", bounds[0][0]) if len(bounds) == 1 else (bounds[0][0], bounds[1][0])
            asg.discard(var)
        carried = sorted(x for x in asg if x != "self" and x in env)
        local = sorted(x for x in asg if x != "self" and x not in env)
        if "self" in asg:
            carried = ["self"] + carried
        benv = dict(env, self="obj")
        if is_for:
            benv[var] = "int"
        # loop-local names must be bound in the body before they are read: the body translation raises `unknown name`
        # otherwise (they are not in benv); names used after the loop that were only bound inside it are unknown as well
        used = {n.id for s_ in ([st.test] if not is_for else []) + st.body for n in ast.walk(s_) if isinstance(n, ast.Name)}
        free = sorted(x for x in used if x in env and x not in carried and x != var and x != "self")
        uses_self = "self" not in carried
        params = ([("self", "obj")] if uses_self else []) + [(x, env[x]) for x in free]
        sig = " ".join("(%s : %s)" % (lname(x), LEAN_TY[t]) for x, t in params)
        cty = [LEAN_TY[benv[x]] for x in carried]
        ret_ty = " × ".join(cty) if cty else "Unit"
        call_args = " ".join(lname(x) for x, _ in params)
        ctup = self.tup(carried)
        cpat = ", ".join(lname(x) for x in carried)
        out = []
        if is_for:
            rec = lambda e: ["%s %s rest_ %s" % (name, call_args, " ".join(lname(x) for x in carried))]  # noqa: E731
            body, _ = self.block(st.body, benv, rec, in_loop=True)
            out.append("def %s %s : List Int → %sExcept Err (%s)" % (name, sig, "".join(t + " → " for t in cty), ret_ty))
            out.append("  | []%s => pure %s" % ("".join(", " + lname(x) for x in carried), ctup))
            out.append("  | %s :: rest_%s => do" % (lname(var), "".join(", " + lname(x) for x in carried)))
            out += ["    " + x for x in body]
            lines.append("let %s ← %s %s (pyRange %s %s) %s" % (ctup if carried else "_", name, call_args, lo, hi,
                                                               " ".join(lname(x) for x in carried)))
        else:
            self.has_while = True
            pre = []
            c, tc = self.atom(st.test, benv, pre)
            self.need(tc, "bool", st)
            rec = lambda e: ["%s %s fuel_ %s" % (name, call_args, " ".join(lname(x) for x in carried))]  # noqa: E731
            body, _ = self.block(st.body, benv, rec, in_loop=True)
            out.append("def %s %s : Nat → %sExcept Err (%s)" % (name, sig, "".join(t + " → " for t in cty), ret_ty))
            out.append("  | 0%s => .error .outOfFuel" % "".join(", _" for _ in carried))
            out.append("  | fuel_ + 1%s => do" % "".join(", " + lname(x) for x in carried))
            out += ["    " + x for x in pre]
            out.append("    if %s then (do" % c)
            out += ["        " + x for x in body[:-1]] + ["        " + body[-1] + ")"]
            out.append("    else pure %s" % ctup)
            lines.append("let %s ← %s %s fuel %s" % (ctup if carried else "_", name, call_args,
                                                     " ".join(lname(x) for x in carried)))
        for x in local:
            env.pop(x, None)
        self.aux.append("\n".join(out))
        _ = cpat

    # ------------------------------------------------------------ whole method
    def translate(self):
        a = self.node.args
        if a.vararg or a.kwarg or a.kwonlyargs or a.posonlyargs:
            raise Gap("unsupported parameter kinds")
        names = [x.arg for x in a.args]
        if not names or names[0] != "self" or names[1:] != list(self.ptypes):
            raise Gap("parameters are %s, expected self + %s" % (names, list(self.ptypes)))
        for d in a.defaults:
            if not isinstance(d, ast.Constant):
                raise Gap("non-constant default value")
        env = dict(self.ptypes)
        body, term = self.block(self.node.body, env, lambda e: [self.final_ret("()")])
        if not term:
            self.ret_types.append("unit")
        if len(set(self.ret_types)) != 1:
            raise Gap("return values of different types %s" % sorted(set(self.ret_types)))
        rty = self.ret_types[0]
        params = "".join(" (%s : %s)" % (lname(p), LEAN_TY[t]) for p, t in self.ptypes.items())
        fuel = " (fuel : Nat)" if self.has_while else ""
        lret = "%s × Obj" % LEAN_TY[rty] if self.mutating else LEAN_TY[rty]
        head = "/-- `%s.%s` -/\ndef %s%s (self : Obj)%s : Except Err (%s) := do" % (self.cls, self.pyname, self.lean, fuel,
                                                                                   params, lret)
        text = "\n\n".join(self.aux + [head + "\n" + "\n".join("  " + x for x in body)])
        return text, rty


class Translator:
    def __init__(self, src):
        self.tree = ast.parse(src)
        self.nodes, self.lean_name, self.ptypes = {}, {}, {}
        self.ret_type, self.mutating, self.has_while, self.deps = {}, {}, {}, {}
        self.gaps = []
        classes = {c.name: c for c in self.tree.body if isinstance(c, ast.ClassDef)}
        for cls, py, lean, pt in TARGETS:
            node = None
            for ch in (classes[cls].body if cls in classes else []):
                if isinstance(ch, ast.FunctionDef) and ch.name == py:
                    if node is not None:
                        self.gaps.append("%s.%s is defined twice" % (cls, py))
                    node = ch
            if node is None:
                self.gaps.append("%s.%s not found" % (cls, py))
                continue
            isprop = any(isinstance(d, ast.Name) and d.id == "property" for d in node.decorator_list)
            if isprop != (py in PROPERTIES) or len(node.decorator_list) > (1 if isprop else 0):
                self.gaps.append("%s.%s: unexpected decorators" % (cls, py))
                continue
            self.nodes[(cls, py)] = node
            self.lean_name[(cls, py)] = lean
            self.ptypes[(cls, py)] = pt
        self.classes = classes

    def compute_mutating(self):
        """fixpoint: a method changes the object when it assigns into an array / the cache or calls one that does"""
        for k in self.nodes:
            self.mutating[k] = False
        changed = True
        while changed:
            changed = False
            for k, node in self.nodes.items():
                if self.mutating[k]:
                    continue
                f = Fn.__new__(Fn)
                f.tr, f.cls, f.pyname = self, k[0], k[1]
                if "self" in Fn.assigned(f, node.body):
                    self.mutating[k] = True
                    changed = True

    def check_wiring(self):
        """the facts the state model rests on: `self.segments = SegmentList(self)` and SegmentList.__init__"""
        am = self.classes.get("ArrayMorphology")
        init = [n for n in (am.body if am else []) if isinstance(n, ast.FunctionDef) and n.name == "__init__"]
        ok = False
        for n in (ast.walk(init[0]) if init else []):
            if isinstance(n, ast.Assign) and len(n.targets) == 1 and is_self_attr(n.targets[0], "segments"):
                v = n.value
                ok = isinstance(v, ast.Call) and isinstance(v.func, ast.Name) and v.func.id == "SegmentList" and \
                    len(v.args) == 1 and isinstance(v.args[0], ast.Name) and v.args[0].id == "self" and not v.keywords
        if not ok:
            self.gaps.append("ArrayMorphology.__init__ does not contain `self.segments = SegmentList(self)`")
        sl = self.classes.get("SegmentList")
        init = [n for n in (sl.body if sl else []) if isinstance(n, ast.FunctionDef) and n.name == "__init__"]
        text = None
        if init and [a.arg for a in init[0].args.args] == ["self", "arraymorph"]:
            body = [s for s in init[0].body if not (isinstance(s, ast.Expr) and isinstance(s.value, ast.Constant))]
            if len(body) == 2 and all(isinstance(s, ast.Assign) and len(s.targets) == 1 for s in body):
                a, b = body
                if is_self_attr(a.targets[0], "arraymorph") and isinstance(a.value, ast.Name) and a.value.id == "arraymorph" and \
                        is_self_attr(b.targets[0], "instantiated_segments") and isinstance(b.value, ast.Dict) and not b.value.keys:
                    text = ("/-- `SegmentList.__init__` (with `ArrayMorphology.__init__`: `self.segments = SegmentList(self)`) -/\n"
                            "def SegmentList.init (arraymorph : Arr) : Obj := { arr := arraymorph, cache := [] }")
        if text is None:
            self.gaps.append("SegmentList.__init__ is not `self.arraymorph = arraymorph; self.instantiated_segments = {}`")
        # nothing else in the two classes may touch the cache (the history model assumes the translated methods and
        # valid_ids are its only users)
        allowed = {("SegmentList", "__init__"), ("SegmentList", "__getitem__"), ("SegmentList", "__setitem__"),
                   ("SegmentList", "append"), ("ArrayMorphology", "valid_ids")}
        for cname, c in self.classes.items():
            for fn in c.body:
                if isinstance(fn, ast.FunctionDef) and (cname, fn.name) not in allowed:
                    for n in ast.walk(fn):
                        if isinstance(n, ast.Attribute) and n.attr == "instantiated_segments" and (cname, fn.name) not in self.nodes:
                            self.gaps.append("%s.%s uses instantiated_segments (%s) but is not translated" % (cname, fn.name, where(n)))
                            break
        return text

    def run(self):
        init_text = self.check_wiring()
        self.compute_mutating()
        texts = {}
        # translate in dependency order: a callee's return type must be known; retry until no progress
        pending = [k for k in [(c, p) for c, p, _, _ in TARGETS] if k in self.nodes]
        errors = {}
        progress = True
        while pending and progress:
            progress = False
            for k in list(pending):
                f = Fn(self, k[0], k[1], self.lean_name[k], self.ptypes[k], self.nodes[k])
                try:
                    text, rty = f.translate()
                except Gap as g:
                    errors[k] = str(g)
                    continue
                self.ret_type[k] = rty
                self.has_while[k] = f.has_while
                texts[k] = text
                pending.remove(k)
                errors.pop(k, None)
                progress = True
        for k in pending:
            self.gaps.append("%s.%s: %s" % (k[0], k[1], errors.get(k, "not translated")))
        # which shape of to_root is this?  (both are translated; the hand model is the repaired one)
        tr_node = self.nodes.get(("ArrayMorphology", "to_root"))
        self.shape = "to_root: not found"
        if tr_node is not None:
            last = tr_node.body[-1]
            clears = isinstance(last, ast.Expr) and isinstance(last.value, ast.Call) and \
                isinstance(last.value.func, ast.Attribute) and last.value.func.attr == "clear" and \
                isinstance(last.value.func.value, ast.Attribute) and last.value.func.value.attr == "instantiated_segments"
            self.shape = "to_root: empties instantiated_segments at its end (repaired shape)" if clears else \
                "to_root: leaves instantiated_segments alone (shape before fixes/C18-toroot-invalidates-cache.patch)"
            if not clears and ("ArrayMorphology", "to_root") in texts:
                self.gaps.append("ArrayMorphology.to_root does not end with self.segments.instantiated_segments.clear(): "
                                 "segments handed out before a re-rooting are returned again afterwards (un-repaired "
                                 "C18:view-stale-after-toroot; the translation is still emitted, c18_gen_to_root will not check)")
        # emit in an order where callees come first
        order, seen = [], set()

        def visit(k):
            if k in seen or k not in texts:
                return
            seen.add(k)
            for d in sorted(self.deps.get(k, ())):
                visit(d)
            order.append(k)
        for c, p, _, _ in TARGETS:
            visit((c, p))
        parts = ([init_text] if init_text else []) + [texts[k] for k in order]
        return parts


HEADER = """/-
GENERATED by translators/py2lean_arraymorph.py from neuroml/arraymorph.py (statement by statement).
Regenerated on every `bin/check C18`; do not edit.  `Props/C18Gen.lean` proves each definition equal to the hand model.
-/
import NmlVerif.Model.ArrayMorph
set_option linter.unusedVariables false

namespace NmlVerif.Gen.ArrayMorph
open NmlVerif.ArrayMorph

"""


def translate_source(src):
    try:
        tr = Translator(src)
        parts = tr.run()
        gaps = list(tr.gaps)
        parts = ["-- shape found: " + tr.shape] + parts
    except SyntaxError as e:
        return HEADER + "end NmlVerif.Gen.ArrayMorph\n", ["neuroml/arraymorph.py does not parse: %s" % e]
    return HEADER + "\n\n".join(parts) + "\n\nend NmlVerif.Gen.ArrayMorph\n", gaps


def regenerate(repo, out_path):
    with open(os.path.join(repo, "neuroml", "arraymorph.py"), encoding="utf-8") as fh:
        src = fh.read()
    text, gaps = translate_source(src)
    old = None
    if os.path.exists(out_path):
        with open(out_path, encoding="utf-8") as fh:
            old = fh.read()
    if old != text:
        os.makedirs(os.path.dirname(out_path), exist_ok=True)
        tmp = out_path + ".tmp%d" % os.getpid()
        with open(tmp, "w", encoding="utf-8") as fh:
            fh.write(text)
        os.replace(tmp, out_path)
    return ["py2lean_arraymorph: " + g for g in gaps]


if __name__ == "__main__":
    repo = sys.argv[1] if len(sys.argv) > 1 else os.environ.get("VERIF_REPO", "/repo")
    here = os.path.dirname(os.path.dirname(os.path.abspath(__file__)))
    out = sys.argv[2] if len(sys.argv) > 2 else os.path.join(here, "lean", "NmlVerif", "Gen", "ArrayMorph.lean")
    gs = regenerate(repo, out)
    for g in gs:
        print("GAP:", g)
    print("wrote", out, "gaps:", len(gs))
