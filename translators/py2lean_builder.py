"""py2lean_builder — translate the cell-builder methods of `Cell` into the statement vocabulary of
`lean/NmlVerif/Model/BuilderIR.lean` and into tables of the constants they use (property C15).

Reads (Python `ast`; nothing is imported or executed) from the CURRENT working tree of the repository

    neuroml/nml/helper_methods.py   (method sources are string constants inside MethodSpec(source=...))
    neuroml/nml/nml.py              (the generated bindings that ship a copy of every helper)
    neuroml/neuro_lex_ids.py        (the NeuroLex id table the helpers index)

and writes `lean/NmlVerif/Gen/Builder.lean`:

    def addSegmentStmts (opt) : List Stmt      -- the body of `add_segment`, statement by statement, in source order
    def idFixed / namesFixed : Bool            -- which of the optional (proposed-repair) statements are present
    def typeTable                               -- the seg_type chain: (type, default_groups) in source order
    def addSegmentDefaults, addUnbranchedDefaults, …  -- parameter lists with their defaults
    def reorderOrder, defaultNames, defaultNlxKey, nlxTable, sectionKey, setupDefaultsDefault, nmlCellDefaults,
        propertyWrappers, membraneSetupFlag, …  -- the constants of the small methods

`add_segment` is translated statement by statement: simple statements and conditions by exact AST match against the
table `STATEMENTS` below (comments, blank lines and doc strings do not matter, anything else does); `if group_id:`,
`if use_convention:` and the `seg_type` chain compositionally.  The small methods are matched as a whole against a
template with holes for their constants (`TEMPLATES`), the constants are emitted.  Anything else is a GAP: reported,
and rendered as `unsupported` / a wrong constant so that the proofs in `Props/C15Gen.lean` cannot go through.
Both files must give the same translation.
"""
import ast
import os
import sys

sys.path.insert(0, os.path.dirname(os.path.abspath(__file__)))
from py2lean_section import find_in_helpers as _unused  # noqa: F401  (same file layout; own finders below)
import pynorm_builder as pynorm   # canonical surface shape (see its doc string): applied to the methods found AND to every template below

TARGETS = ["add_segment", "add_unbranched_segments", "add_segment_group", "add_unbranched_segment_group",
           "setup_default_segment_groups", "reorder_segment_groups", "setup_nml_cell", "optimise_segment_groups",
           "add_membrane_property", "add_intracellular_property", "set_spike_thresh", "set_init_memb_potential",
           "set_resistivity", "set_specific_capacitance", "add_channel_density", "add_channel_density_v"]

# ------------------------------------------------------------------ add_segment: primitive -> its ONE Python statement
STATEMENTS = {
    "mkProx": '''
try:
    if prox:
        p = self.component_factory("Point3DWithDiam", x=prox[0], y=prox[1], z=prox[2], diameter=prox[3])
    else:
        p = None
except IndexError as e:
    print("{}: prox must be a list of 4 elements".format(e))
''',
    "mkDist": '''
try:
    d = self.component_factory("Point3DWithDiam", x=dist[0], y=dist[1], z=dist[2], diameter=dist[3])
except IndexError as e:
    print("{}: dist must be a list of 4 elements".format(e))
''',
    "segidLen": "segid = len(self.morphology.segments)",
    "refuseNoParent": '''
if segid > 0 and parent is None:
    raise Exception("There are currently more than one segments in the cell, but one is being added without specifying a parent segment")
''',
    "mkParent": 'sp = self.component_factory("SegmentParent", segments=parent.id, fraction_along=fraction_along) if parent else None',
    "defaultId": '''
if seg_id is None:
    seg_id = segid
''',
    "castId": "seg_id = int(seg_id)",
    "refuseNegative": '''
if seg_id < 0:
    raise ValueError(f"Segment ids must be non-negative integers: {seg_id}")
''',
    "refuseInUse": '''
try:
    self.get_segment(seg_id)
except ValueError:
    pass
else:
    raise ValueError(f"A segment with id {seg_id} already exists")
''',
    "refuseForeignDefault": '''
if use_convention and group_id in ["all", "soma_group", "axon_group", "dendrite_group"] and group_id != f"{seg_type}_group":
    raise ValueError(f"group_id {group_id} is the name of a default segment group and cannot be used for a segment of type {seg_type}")
''',
    "mkSegment": 'segment = self.component_factory("Segment", id=seg_id, proximal=p, distal=d, parent=sp)',
    "localNone": "seg_group = None",
    "nameSegment": '''
if name:
    segment.name = name
else:
    if group_id:
        segments_in_group = len(seg_group.members)
        segment_name = f"Seg{segments_in_group - 1}_{group_id}"
    else:
        segment_name = f"Seg{seg_id}"
    segment.name = segment_name
''',
    "appendSegment": "self.morphology.segments.append(segment)",
    "(ifOptimise opt)": '''
if optimise_segment_groups:
    self.optimise_segment_groups()
''',
    "returnSegment": "return segment",
}
# inside `if group_id:`
GROUP_STATEMENTS = {
    "localNone": "seg_group_default = None",
    "getOrCreateGroup": '''
try:
    seg_group = self.get_segment_group(group_id)
except ValueError as e:
    print("Warning: {}".format(e))
    print(f"Warning: creating Segment Group with id {group_id}")
    seg_group = self.add_segment_group(group_id=group_id)
''',
    "appendMember": "seg_group.members.append(Member(segments=segment.id))",
}
# inside `if use_convention:`
CONV_STATEMENTS = {
    "requireSegType": '''
if not seg_type:
    raise ValueError("Please provide a seg_type")
''',
    "includeOrMember": '''
if seg_group and seg_group.id != seg_group_default.id:
    seg_group_default.includes.append(Include(segment_groups=seg_group.id))
    seg_group_all.includes.append(Include(segment_groups=seg_group.id))
else:
    seg_group_default.members.append(Member(segments=segment.id))
    seg_group_all.members.append(Member(segments=segment.id))
''',
    "ifReorder": '''
if reorder_segment_groups:
    self.reorder_segment_groups()
''',
}
CHAIN_ELSE = 'raise ValueError(f"Invalid segment type provided: {seg_type}")'
CHAIN_ASSIGN = '[seg_group_all, seg_group_default] = self.setup_default_segment_groups(use_convention=True, default_groups=HOLE)'


def _dump(node):
    return ast.dump(node, include_attributes=False)


def _norm_src(src):
    return pynorm.normalise_block(ast.parse(src.strip("\n")).body)


def _stmt_dumps(table):
    out = {}
    for name, src in table.items():
        st = _norm_src(src)
        assert len(st) == 1, "vocabulary entry %s is not ONE statement in canonical shape" % name
        out[_dump(st[0])] = name
    return out


STMT_DUMPS = _stmt_dumps(STATEMENTS)
GROUP_DUMPS = _stmt_dumps(GROUP_STATEMENTS)
CONV_DUMPS = _stmt_dumps(CONV_STATEMENTS)
COND_GROUP_ID = _dump(ast.parse("group_id", mode="eval").body)
COND_USE_CONV = _dump(ast.parse("use_convention", mode="eval").body)
CHAIN_ELSE_DUMP = _dump(_norm_src(CHAIN_ELSE)[0])


def lean_str(s):
    return '"' + s.replace("\\", "\\\\").replace('"', '\\"') + '"'


def lean_list(xs, f=lean_str):
    return "[" + ", ".join(f(x) for x in xs) + "]"


def lean_opt_str(x):
    return "none" if x is None else "(some %s)" % lean_str(x)


def strip_doc(stmts):
    if stmts and isinstance(stmts[0], ast.Expr) and isinstance(stmts[0].value, ast.Constant) and isinstance(stmts[0].value.value, str):
        return stmts[1:]
    return stmts


def const_str_list(node):
    if isinstance(node, ast.List) and all(isinstance(e, ast.Constant) and isinstance(e.value, str) for e in node.elts):
        return [e.value for e in node.elts]
    return None


class Tr:
    def __init__(self, label):
        self.label = label
        self.gaps = []
        self.type_table = None

    def gap(self, node, why):
        self.gaps.append("%s: line %s: %s" % (self.label, getattr(node, "lineno", "?"), why))
        return "unsupported"

    # ---- add_segment
    def simple(self, st, table, what):
        name = table.get(_dump(st))
        if name is None:
            return self.gap(st, "%s statement not in the vocabulary: %s" % (what, ast.unparse(st).split("\n")[0][:100]))
        return name

    def chain(self, st):
        """if seg_type == "x": [all, default] = self.setup_default_segment_groups(...) elif ... else: raise"""
        table = []
        cur = st
        while True:
            t = cur.test
            ok = (isinstance(t, ast.Compare) and isinstance(t.left, ast.Name) and t.left.id == "seg_type" and len(t.ops) == 1
                  and isinstance(t.ops[0], ast.Eq) and isinstance(t.comparators[0], ast.Constant)
                  and isinstance(t.comparators[0].value, str))
            if not ok or len(cur.body) != 1:
                return None
            body = cur.body[0]
            groups = None
            if isinstance(body, ast.Assign) and isinstance(body.value, ast.Call):
                kw = {k.arg: k.value for k in body.value.keywords}
                groups = const_str_list(kw.get("default_groups"))
                if groups is not None:
                    probe = _norm_src(CHAIN_ASSIGN.replace("HOLE", repr(groups)))[0]
                    if _dump(probe) != _dump(body):
                        groups = None
            if groups is None:
                return None
            table.append((t.comparators[0].value, groups))
            if len(cur.orelse) == 1 and isinstance(cur.orelse[0], ast.If):
                cur = cur.orelse[0]
                continue
            if len(cur.orelse) == 1 and _dump(cur.orelse[0]) == CHAIN_ELSE_DUMP:
                return table
            return None

    def block(self, stmts, table, what):
        return [self.simple(st, table, what) for st in stmts]

    def conv_block(self, stmts):
        out = []
        for st in stmts:
            if isinstance(st, ast.If) and isinstance(st.test, ast.Compare):
                tab = self.chain(st)
                if tab is None:
                    out.append(self.gap(st, "seg_type chain not understood"))
                else:
                    if self.type_table is not None:
                        out.append(self.gap(st, "second seg_type chain"))
                    self.type_table = tab
                    out.append("(typeChain typeTable)")
                continue
            out.append(self.simple(st, CONV_DUMPS, "use_convention-block"))
        return out

    def add_segment(self, fn):
        out = []
        for st in strip_doc(fn.body):
            if isinstance(st, ast.If) and not st.orelse and _dump(st.test) == COND_GROUP_ID and _dump(st) not in STMT_DUMPS:
                out.append("(ifGroupId %s)" % lean_list(self.block(st.body, GROUP_DUMPS, "group_id-block"), str))
            elif isinstance(st, ast.If) and not st.orelse and _dump(st.test) == COND_USE_CONV:
                out.append("(ifUseConvention %s)" % lean_list(self.conv_block(st.body), str))
            else:
                out.append(self.simple(st, STMT_DUMPS, "add_segment"))
        return out


# ------------------------------------------------------------------ parameters
def params(fn, tr):
    """[(name, default as Lean `Option String` of its source text)]"""
    a = fn.args
    if a.vararg or a.kwonlyargs or a.posonlyargs:
        tr.gap(fn, "unusual parameter kinds")
    names = [x.arg for x in a.args]
    defaults = [None] * (len(names) - len(a.defaults)) + [ast.unparse(d) for d in a.defaults]
    kw = a.kwarg.arg if a.kwarg else None
    return list(zip(names, defaults)), kw


def lean_params(ps):
    return "[" + ", ".join("(%s, %s)" % (lean_str(n), lean_opt_str(d)) for n, d in ps) + "]"


# ------------------------------------------------------------------ whole-method templates with holes
def body_dump(fn):
    return [_dump(s) for s in strip_doc(fn.body)]


def template_dump(src):
    return [_dump(s) for s in _norm_src(src)]


REORDER_T = '''
seg_groups = self.morphology.segment_groups
for group in HOLE:
    try:
        sg = self.get_segment_group(group)
        seg_groups.append(seg_groups.pop(seg_groups.index(sg)))
    except ValueError:
        pass
'''
OPTIMISE_ALL_T = '''
for seg_group in self.morphology.segment_groups:
    self.optimise_segment_group(seg_group.id)
'''
ADD_GROUP_T = '''
seg_group = None
try:
    seg_group = self.get_segment_group(group_id)
except ValueError:
    seg_group = self.morphology.add("SegmentGroup", id=group_id, neuro_lex_id=neuro_lex_id, notes=notes, validate=False)
else:
    print(f"Warning: Segment group {seg_group.id} already exists.")
return seg_group
'''
ADD_UNB_GROUP_T = '''
seg_group = self.add_segment_group(group_id=group_id, neuro_lex_id=neuroml.neuro_lex_ids.neuro_lex_ids[HOLE], notes=notes)
return seg_group
'''
SETUP_NML_CELL_T = '''
self.add("Morphology", id="morphology", validate=False, force=overwrite)
self.add("BiophysicalProperties", id="biophys", validate=False, force=overwrite)
self.biophysical_properties.add("IntracellularProperties", validate=False, force=overwrite)
self.biophysical_properties.add("MembraneProperties", validate=False, force=overwrite)
self.setup_default_segment_groups(use_convention, default_groups)
'''
ADD_MEMBRANE_T = '''
self.setup_nml_cell(use_convention=False)
prop = self.biophysical_properties.membrane_properties.add(property_name, validate=False, **kwargs)
return prop
'''
ADD_INTRA_T = '''
self.setup_nml_cell(use_convention=False)
prop = self.biophysical_properties.intracellular_properties.add(property_name, **kwargs)
return prop
'''
WRAPPER_T = {
    "set_spike_thresh": ('self.add_membrane_property(HOLE, value=v, segment_groups=group_id)', "membrane"),
    "set_init_memb_potential": ('self.add_membrane_property(HOLE, value=v, segment_groups=group_id)', "membrane"),
    "set_specific_capacitance": ('self.add_membrane_property(HOLE, value=spec_cap, segment_groups=group_id)', "membrane"),
    "set_resistivity": ('self.add_intracellular_property(HOLE, value=resistivity, segment_groups=group_id)', "intracellular"),
}
INCLUDE_BLOCK = '''
if len(ion_chan_def_file) > 0:
    if self.component_factory("IncludeType", href=ion_chan_def_file) not in nml_cell_doc.includes:
        nml_cell_doc.add("IncludeType", href=ion_chan_def_file)
'''
ADD_CD_T = '''
cd = self.add_membrane_property("ChannelDensity", id=cd_id, segment_groups=group_id, ion=ion, ion_channel=ion_channel, erev=erev, cond_density=cond_density)
''' + INCLUDE_BLOCK + "return cd\n"
ADD_CD_V_T = '''
cd = self.add_membrane_property(channel_density_type, **kwargs)
''' + INCLUDE_BLOCK + "return cd\n"
UNBRANCHED_T = '''
prox = points[0]
dist = points[1]
seg_group = self.add_unbranched_segment_group(group_id=group_id)
seg = self.add_segment(prox=prox, dist=dist, name=None, parent=parent, fraction_along=fraction_along, group_id=group_id, use_convention=use_convention, seg_type=seg_type, reorder_segment_groups=False)
prox = dist
for pt in points[2:]:
    dist = pt
    seg = self.add_segment(prox=prox, dist=dist, name=None, parent=seg, fraction_along=1.0, group_id=group_id, use_convention=use_convention, seg_type=seg_type, reorder_segment_groups=False)
    prox = dist
if reorder_segment_groups:
    self.reorder_segment_groups()
if optimise_segment_groups:
    self.optimise_segment_groups()
return self.get_segment_group(group_id)
'''


REF_TEMPLATES = {
    "reorder_segment_groups": REORDER_T, "optimise_segment_groups": OPTIMISE_ALL_T, "add_segment_group": ADD_GROUP_T,
    "add_unbranched_segment_group": ADD_UNB_GROUP_T, "setup_nml_cell": SETUP_NML_CELL_T, "add_membrane_property": ADD_MEMBRANE_T,
    "add_intracellular_property": ADD_INTRA_T, "add_channel_density": ADD_CD_T, "add_channel_density_v": ADD_CD_V_T,
    "add_unbranched_segments": UNBRANCHED_T,
    "set_spike_thresh": WRAPPER_T["set_spike_thresh"][0], "set_init_memb_potential": WRAPPER_T["set_init_memb_potential"][0],
    "set_specific_capacitance": WRAPPER_T["set_specific_capacitance"][0], "set_resistivity": WRAPPER_T["set_resistivity"][0],
}


def match_with_hole(fn, template, hole_kind, tr):
    """the body equals the template for exactly one value of the hole; returns that value (or None + gap)"""
    body = strip_doc(fn.body)
    tstmts = _norm_src(template.replace("HOLE", "__HOLE__"))
    if len(body) != len(tstmts):
        tr.gap(fn, "body has %d statements, the template %d" % (len(body), len(tstmts)))
        return None
    found = []

    def same(a, b):
        if isinstance(b, ast.Name) and b.id == "__HOLE__":
            if hole_kind == "strlist":
                v = const_str_list(a)
            else:
                v = a.value if isinstance(a, ast.Constant) and isinstance(a.value, str) else None
            if v is None:
                return False
            found.append(v)
            return True
        if type(a) is not type(b):
            return False
        for f, bv in ast.iter_fields(b):
            av = getattr(a, f, None)
            if isinstance(bv, list):
                if not isinstance(av, list) or len(av) != len(bv):
                    return False
                for x, y in zip(av, bv):
                    if isinstance(y, ast.AST):
                        if not same(x, y):
                            return False
                    elif x != y:
                        return False
            elif isinstance(bv, ast.AST):
                if not isinstance(av, ast.AST) or not same(av, bv):
                    return False
            elif av != bv:
                return False
        return True

    for k, (a, b) in enumerate(zip(body, tstmts)):
        if not same(a, b):
            tr.gap(a, "statement %d differs from the template: %s" % (k + 1, ast.unparse(a).split("\n")[0][:90]))
            return None
    if len(found) != 1:
        tr.gap(fn, "template hole matched %d times" % len(found))
        return None
    return found[0]


def match_exact(fn, template, tr):
    if body_dump(fn) != template_dump(template):
        b, t = body_dump(fn), template_dump(template)
        k = next((i for i in range(min(len(b), len(t))) if b[i] != t[i]), min(len(b), len(t)))
        node = strip_doc(fn.body)[k] if k < len(strip_doc(fn.body)) else fn
        tr.gap(node, "statement %d differs from the template: %s" % (k + 1, ast.unparse(node).split("\n")[0][:90]))
        return False
    return True


def setup_default(fn, tr):
    """the loop of setup_default_segment_groups: (name, nlx key or None) in chain order; structure checked"""
    body = strip_doc(fn.body)
    shell = '''
new_groups = []
if use_convention:
    for grp in default_groups:
        neuro_lex_id = None
        notes = None
        CHAIN
        seg_group = self.add_segment_group(group_id=grp, neuro_lex_id=neuro_lex_id, notes=notes)
        new_groups.append(seg_group)
    self.reorder_segment_groups()
return new_groups
'''
    try:
        assert len(body) == 3
        assert _dump(body[0]) == _dump(ast.parse("new_groups = []").body[0])
        assert _dump(body[2]) == _dump(ast.parse("return new_groups").body[0])
        iff = body[1]
        assert isinstance(iff, ast.If) and not iff.orelse and _dump(iff.test) == COND_USE_CONV and len(iff.body) == 2
        assert _dump(iff.body[1]) == _dump(ast.parse("self.reorder_segment_groups()").body[0])
        loop = iff.body[0]
        assert isinstance(loop, ast.For) and not loop.orelse and isinstance(loop.target, ast.Name) and loop.target.id == "grp"
        tail = _norm_src("seg_group = self.add_segment_group(group_id=grp, neuro_lex_id=neuro_lex_id, notes=notes)\n"
                         "new_groups.append(seg_group)")      # canonical shape: the single-use local is inlined
        assert _dump(loop.iter) == _dump(ast.parse("default_groups", mode="eval").body) and len(loop.body) == 3 + len(tail)
        lb = loop.body
        assert _dump(lb[0]) == _dump(ast.parse("neuro_lex_id = None").body[0])
        assert _dump(lb[1]) == _dump(ast.parse("notes = None").body[0])
        assert [_dump(x) for x in lb[3:]] == [_dump(x) for x in tail]
        table = []
        cur = lb[2]
        while True:
            t = cur.test
            assert isinstance(t, ast.Compare) and _dump(t.left) == _dump(ast.parse("grp", mode="eval").body)
            assert isinstance(t.ops[0], ast.Eq) and isinstance(t.comparators[0], ast.Constant)
            name = t.comparators[0].value
            assert len(cur.body) == 2
            a1, a2 = cur.body
            assert isinstance(a1, ast.Assign) and len(a1.targets) == 1 and isinstance(a1.targets[0], ast.Name) and a1.targets[0].id == "neuro_lex_id"
            assert isinstance(a2, ast.Assign) and len(a2.targets) == 1 and isinstance(a2.targets[0], ast.Name) and a2.targets[0].id == "notes"
            assert isinstance(a2.value, ast.Constant) and isinstance(a2.value.value, str)
            if isinstance(a1.value, ast.Constant) and a1.value.value is None:
                key = None
            else:
                probe = ast.parse("neuroml.neuro_lex_ids.neuro_lex_ids[X]").body[0].value
                assert isinstance(a1.value, ast.Subscript) and _dump(a1.value.value) == _dump(probe.value)
                assert isinstance(a1.value.slice, ast.Constant) and isinstance(a1.value.slice.value, str)
                key = a1.value.slice.value
            table.append((name, key))
            assert len(cur.orelse) >= 1
            if len(cur.orelse) == 1 and isinstance(cur.orelse[0], ast.If):
                cur = cur.orelse[0]
                continue
            # else: print(...); return []
            assert len(cur.orelse) == 2 and isinstance(cur.orelse[0], ast.Expr)
            assert _dump(cur.orelse[1]) == _dump(ast.parse("return []").body[0])
            break
        return table
    except AssertionError:
        tr.gap(fn, "setup_default_segment_groups does not have the expected shape (%s ...)" % shell.strip().split("\n")[0])
        return None


# ------------------------------------------------------------------ finding the methods
def find_in_nml(tree):
    out = {}
    for node in tree.body:
        if isinstance(node, ast.ClassDef) and node.name == "Cell":
            for it in node.body:
                if isinstance(it, ast.FunctionDef) and it.name in TARGETS:
                    out.setdefault(it.name, []).append(it)
    return out


def find_in_helpers(tree):
    out, problems = {}, []
    for node in ast.walk(tree):
        if not (isinstance(node, ast.Call) and isinstance(node.func, ast.Name) and node.func.id == "MethodSpec"):
            continue
        kw = {k.arg: k.value for k in node.keywords}
        src, cn = kw.get("source"), kw.get("class_names")
        if not (isinstance(src, ast.Constant) and isinstance(src.value, str)):
            continue
        classes = []
        if isinstance(cn, ast.Constant) and isinstance(cn.value, str):
            classes = [cn.value]
        elif isinstance(cn, (ast.List, ast.Tuple)):
            classes = [e.value for e in cn.elts if isinstance(e, ast.Constant)]
        if "Cell" not in classes:
            continue
        try:
            sub = ast.parse("class __Spec__:\n" + src.value + "\n    pass\n")
        except SyntaxError as e:
            problems.append("helper_methods.py: MethodSpec for %s does not parse: %s" % (classes, e))
            continue
        for it in sub.body[0].body:
            if isinstance(it, ast.FunctionDef) and it.name in TARGETS:
                out.setdefault(it.name, []).append(it)
    return out, problems


def nlx_table(repo, gaps):
    p = os.path.join(repo, "neuroml", "neuro_lex_ids.py")
    try:
        with open(p, encoding="utf-8") as fh:
            tree = ast.parse(fh.read())
        for node in tree.body:
            if isinstance(node, ast.Assign) and len(node.targets) == 1 and isinstance(node.targets[0], ast.Name) \
                    and node.targets[0].id == "neuro_lex_ids" and isinstance(node.value, ast.Dict):
                out = []
                for k, v in zip(node.value.keys, node.value.values):
                    if not (isinstance(k, ast.Constant) and isinstance(v, ast.Constant) and isinstance(k.value, str) and isinstance(v.value, str)):
                        gaps.append("neuro_lex_ids.py: entry is not a pair of string literals")
                        return []
                    out.append((k.value, v.value))
                return out
    except (OSError, SyntaxError) as e:
        gaps.append("neuro_lex_ids.py: %s" % e)
        return []
    gaps.append("neuro_lex_ids.py: no `neuro_lex_ids = {...}`")
    return []


# locals of today's `add_segment` / `setup_default_segment_groups` in order of first binding (canonical shape); the
# other methods take theirs from their template
REF_LOCALS = {
    "add_segment": ["p", "e", "d", "segid", "sp", "segment", "seg_group", "seg_group_default", "seg_group_all", "segment_name"],
    "setup_default_segment_groups": ["new_groups", "grp", "neuro_lex_id", "notes"],
}


def translate_one(label, table):
    """one file's methods -> dict of results (all plain data, comparable across the two files)"""
    tr = Tr(label)
    res = {}
    fns = {}
    for key in TARGETS:
        nodes = table.get(key, [])
        if len(nodes) != 1:
            tr.gaps.append("%s: %d definitions of Cell.%s (expected 1)" % (label, len(nodes), key))
            continue
        fns[key] = nodes[0]
    for key, fn in fns.items():
        tr.label = "%s: Cell.%s" % (label, key)
        if fn.decorator_list:
            tr.gap(fn, "decorated")
        ps, kw = params(fn, tr)
        res["params:" + key] = (ps, kw)
        # canonical surface shape: equivalent spellings of the same statements, locals named as in today's code
        pnames = [n for n, _ in ps] + ([kw] if kw else [])
        ref = REF_LOCALS.get(key)
        if ref is None and key in REF_TEMPLATES:
            ref = pynorm.locals_in_order(_norm_src(REF_TEMPLATES[key].replace("HOLE", "'x'")), pnames)
        fns[key], note = pynorm.normalise_function(fn, ref)
        if note:
            res.setdefault("notes", []).append("%s: %s" % (key, note))
    if "add_segment" in fns:
        tr.label = "%s: Cell.add_segment" % label
        res["addSegment"] = tr.add_segment(fns["add_segment"])
        res["typeTable"] = tr.type_table if tr.type_table is not None else []
        if tr.type_table is None:
            tr.gaps.append("%s: no seg_type chain found" % tr.label)

    def T(key, f):
        if key in fns:
            tr.label = "%s: Cell.%s" % (label, key)
            return f(fns[key])
        return None
    res["reorderOrder"] = T("reorder_segment_groups", lambda fn: match_with_hole(fn, REORDER_T, "strlist", tr)) or []
    res["optimiseAllOK"] = bool(T("optimise_segment_groups", lambda fn: match_exact(fn, OPTIMISE_ALL_T, tr)))
    res["addGroupOK"] = bool(T("add_segment_group", lambda fn: match_exact(fn, ADD_GROUP_T, tr)))
    res["sectionKey"] = T("add_unbranched_segment_group", lambda fn: match_with_hole(fn, ADD_UNB_GROUP_T, "str", tr)) or ""
    res["setupNmlCellOK"] = bool(T("setup_nml_cell", lambda fn: match_exact(fn, SETUP_NML_CELL_T, tr)))
    res["addMembraneOK"] = bool(T("add_membrane_property", lambda fn: match_exact(fn, ADD_MEMBRANE_T, tr)))
    res["addIntraOK"] = bool(T("add_intracellular_property", lambda fn: match_exact(fn, ADD_INTRA_T, tr)))
    res["addChanOK"] = bool(T("add_channel_density", lambda fn: match_exact(fn, ADD_CD_T, tr)))
    res["addChanVOK"] = bool(T("add_channel_density_v", lambda fn: match_exact(fn, ADD_CD_V_T, tr)))
    res["unbranchedOK"] = bool(T("add_unbranched_segments", lambda fn: match_exact(fn, UNBRANCHED_T, tr)))
    res["defaultTable"] = T("setup_default_segment_groups", lambda fn: setup_default(fn, tr)) or []
    wr = []
    for key, (tmpl, which) in WRAPPER_T.items():
        v = T(key, lambda fn, tmpl=tmpl: match_with_hole(fn, tmpl, "str", tr))
        wr.append((key, which, v or ""))
    res["wrappers"] = wr
    return res, tr.gaps


HEADER = """/-
GENERATED by translators/py2lean_builder.py from neuroml/nml/helper_methods.py, neuroml/nml/nml.py (both files gave
this same text) and neuroml/neuro_lex_ids.py. Regenerated on every `bin/check C15`; do not edit.
-/
import NmlVerif.Model.BuilderIR

namespace NmlVerif.Gen.Builder
open NmlVerif.Builder NmlVerif.Builder.IR

"""
FOOTER = "\nend NmlVerif.Gen.Builder\n"


def render(res, nlx):
    L = []
    stm = res.get("addSegment", ["unsupported"])
    flat = " ".join(stm)
    L.append("/-- `seg_type` chain of `add_segment`: (type, default_groups) in source order -/")
    L.append("def typeTable : List (String × List String) := %s\n" % lean_list(
        res.get("typeTable", []), lambda p: "(%s, %s)" % (lean_str(p[0]), lean_list(p[1]))))
    L.append("/-- the optional statements of the proposed repairs: `seg_id = int(seg_id)` + `if seg_id < 0: raise` -/")
    L.append("def idFixed : Bool := %s" % ("true" if ("castId" in stm and "refuseNegative" in stm) else "false"))
    L.append("/-- … and the refusal of a foreign default-group name -/")
    L.append("def namesFixed : Bool := %s\n" % ("true" if "refuseForeignDefault" in stm else "false"))
    L.append("/-- body of `Cell.add_segment`, one entry per statement, in source order -/")
    L.append("def addSegmentStmts (opt : State → Except Err State) : List Stmt :=\n  [" + ",\n   ".join(stm) + "]\n")
    for key in TARGETS:
        ps, kw = res.get("params:" + key, ([], None))
        L.append("def params_%s : List (String × Option String) := %s" % (key, lean_params(ps)))
        L.append("def kwargs_%s : Option String := %s" % (key, lean_opt_str(kw)))
    L.append("")
    L.append("/-- `reorder_segment_groups`: the names moved to the end, in this order -/")
    L.append("def reorderOrder : List String := %s" % lean_list(res.get("reorderOrder", [])))
    L.append("/-- `setup_default_segment_groups`: the supported names with the key of their NeuroLex id, in chain order -/")
    L.append("def defaultTable : List (String × Option String) := %s" % lean_list(
        res.get("defaultTable", []), lambda p: "(%s, %s)" % (lean_str(p[0]), lean_opt_str(p[1]))))
    L.append("/-- `neuroml/neuro_lex_ids.py` -/")
    L.append("def nlxTable : List (String × String) := %s" % lean_list(nlx, lambda p: "(%s, %s)" % (lean_str(p[0]), lean_str(p[1]))))
    L.append("/-- `add_unbranched_segment_group`: the key of the NeuroLex id it passes to `add_segment_group` -/")
    L.append("def sectionKey : String := %s" % lean_str(res.get("sectionKey", "")))
    L.append("/-- the `set_*` wrappers: (method, which generic adder it calls, the property kind it passes) -/")
    L.append("def wrappers : List (String × String × String) := %s" % lean_list(
        res.get("wrappers", []), lambda p: "(%s, %s, %s)" % (lean_str(p[0]), lean_str(p[1]), lean_str(p[2]))))
    L.append("/-- the methods whose whole body matched its template (the text of each is in the translator) -/")
    for k in ["optimiseAllOK", "addGroupOK", "setupNmlCellOK", "addMembraneOK", "addIntraOK", "addChanOK", "addChanVOK", "unbranchedOK"]:
        L.append("def %s : Bool := %s" % (k, "true" if res.get(k) else "false"))
    return HEADER + "\n".join(L) + "\n" + FOOTER


def translate_repo(repo):
    gaps = []
    with open(os.path.join(repo, "neuroml", "nml", "helper_methods.py"), encoding="utf-8") as fh:
        htree = ast.parse(fh.read())
    with open(os.path.join(repo, "neuroml", "nml", "nml.py"), encoding="utf-8") as fh:
        ntree = ast.parse(fh.read())
    hfun, problems = find_in_helpers(htree)
    gaps += problems
    nfun = find_in_nml(ntree)
    hres, hg = translate_one("helper_methods.py", hfun)
    nres, ng = translate_one("nml.py", nfun)
    gaps += hg + ng
    for k in sorted(set(hres) | set(nres)):
        if hres.get(k) != nres.get(k):
            gaps.append("Cell builder methods: helper_methods.py and nml.py translate differently (%s)" % k)
    nlx = nlx_table(repo, gaps)
    return render(nres, nlx), gaps


def regenerate(repo, out_path):
    text, gaps = translate_repo(repo)
    old = None
    if os.path.exists(out_path):
        with open(out_path, encoding="utf-8") as fh:
            old = fh.read()
    if old != text:
        os.makedirs(os.path.dirname(out_path), exist_ok=True)
        tmp = out_path + ".tmp%d" % os.getpid()
        with open(tmp, "w", encoding="utf-8") as fh:
            fh.write(text)
        os.replace(tmp, out_path)
    return gaps


if __name__ == "__main__":
    repo = sys.argv[1] if len(sys.argv) > 1 else os.environ.get("VERIF_REPO", "/repo")
    here = os.path.dirname(os.path.dirname(os.path.abspath(__file__)))
    out = sys.argv[2] if len(sys.argv) > 2 else os.path.join(here, "lean", "NmlVerif", "Gen", "Builder.lean")
    gs = regenerate(repo, out)
    for g in gs:
        print("GAP:", g)
    print("wrote", out, "gaps:", len(gs))
