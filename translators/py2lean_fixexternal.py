"""py2lean_fixexternal — translate `fix_external_morphs_biophys_in_cell` and `_deepcopy_into` (neuroml/utils.py) into
terms of the imperative vocabulary of `lean/NmlVerif/Model/FixIR.lean` (property C17).

Reads (Python `ast`; nothing is imported or executed) `neuroml/utils.py` of the CURRENT working tree and writes
`lean/NmlVerif/Gen/FixExternal.lean`:

    def deepcopyInto : Stmt                     -- body of `_deepcopy_into`
    def fix (files : Files) : Stmt              -- body of `fix_external_morphs_biophys_in_cell`
    def deepcopyIntoParams / fixParams : List String ; def fixOverwriteDefault : Bool

The translation is compositional, statement by statement and expression by expression:

  statements   x = e | o.f = e | d[k] = v | l.append(v) | logger.<level>(<text with pure {…}>) | if/else |
               for x in <list object or local list> (no else) | try / except KeyError as e (no else/finally) | raise e | return e
  pure expr    local variable | o.f | None | e is None | e is not None | b is False | a and b | x in l | [] | {} |
               id(e) | getattr(e, "f", None) | a + b (two list objects)
  effectful    d[k] | copy.deepcopy(x) | copy.deepcopy(x, memo) |
               loaders.read_neuroml2_file(h, verbose=False, optimized=True) | _deepcopy_into(a, b)

Before that, `normalise` maps equivalent surface shapes to the canonical one (conditional expression = if/else, `if not
c`/else, `is not False`/else, nested ifs without else = `and`, annotated assignment, single-use pure locals inlined,
consistently renamed locals, `not (x is None)`, `list()` / `dict()`, any pure way of building a log message).

Local variables are typed by the table `VARS` (a name that is not in it is refused, as is a use at another type).
Anything else is a GAP: reported, and rendered as `S.unsupported` so that `Props/C17Gen.lean` cannot go through.
"""
import ast
import os
import sys

TARGETS = ["_deepcopy_into", "fix_external_morphs_biophys_in_cell"]

VARS = {
    "nml2_doc": "Val", "overwrite": "Bool", "newdoc": "Val", "all_cells": "List", "referenced_ids": "List", "cell": "Val",
    "ext_morphs": "Dict", "ext_biophys": "Dict", "inc": "Val", "incdoc": "Val", "morph": "Val", "biophys": "Val",
    "e": "Err", "element": "Val", "new_parent": "Val", "memo": "Dict", "old_parent": "Val",
}
PARAMS = {"_deepcopy_into": ["element", "new_parent"], "fix_external_morphs_biophys_in_cell": ["nml2_doc", "overwrite"]}
LOG_LEVELS = ("debug", "info", "warning", "error", "critical")


def q(s):
    return '"' + s.replace("\\", "\\\\").replace('"', '\\"') + '"'



# ---------------------------------------------------------------- normalisation (robustness round)
# Equivalent surface shapes of one statement are mapped to ONE canonical shape - the one today's source has - before
# translating, so that behaviour-preserving rewrites leave Gen/FixExternal.lean byte-identical.  Every rule is
# semantics-preserving for ALL inputs (reason given at the rule); whatever is not recognised is left alone and then
# refused by the translator as before.

# locals in the order today's source binds them (parameters are interface: never renamed)
CANON_LOCALS = {
    "_deepcopy_into": ["memo", "old_parent"],
    "fix_external_morphs_biophys_in_cell": ["newdoc", "all_cells", "referenced_ids", "cell", "ext_morphs", "ext_biophys",
                                            "inc", "incdoc", "morph", "biophys", "e"],
}


def _bound_names(fn):
    """names bound in the function body, in source order of their first binding"""
    out = []

    class V(ast.NodeVisitor):
        def visit_Name(self, n):
            if isinstance(n.ctx, (ast.Store, ast.Del)) and n.id not in out:
                out.append(n.id)

        def visit_ExceptHandler(self, h):
            if h.name and h.name not in out:
                out.append(h.name)
            self.generic_visit(h)

        def visit_FunctionDef(self, n):      # nested scopes are not looked into (and will be refused)
            if n.name not in out:
                out.append(n.name)
        visit_Lambda = visit_ListComp = visit_DictComp = visit_SetComp = visit_GeneratorExp = lambda self, n: None
    v = V()
    for st in fn.body:
        v.visit(st)
    return out


def _loaded_names(fn):
    return {n.id for st in fn.body for n in ast.walk(st) if isinstance(n, ast.Name) and isinstance(n.ctx, ast.Load)}


def _is_pure_shape(e):
    """syntactically free of calls (except id / 3-argument getattr) and subscripts: evaluating it has no side effect on
    generateDS objects and cannot raise for bound names"""
    for n in ast.walk(e):
        if isinstance(n, (ast.Subscript, ast.Await, ast.Yield, ast.YieldFrom, ast.NamedExpr, ast.Lambda,
                          ast.ListComp, ast.DictComp, ast.SetComp, ast.GeneratorExp)):
            return False
        if isinstance(n, ast.Call) and not (isinstance(n.func, ast.Name) and n.func.id in ("id", "getattr")):
            return False
    return True


class _Subst(ast.NodeTransformer):
    def __init__(self, name, expr):
        self.name, self.expr = name, expr

    def visit_Name(self, n):
        if n.id == self.name and isinstance(n.ctx, ast.Load):
            return ast.copy_location(ast.parse(ast.unparse(self.expr), mode="eval").body, n)
        return n


def _inline_single_use(body, fn_all_loads_count, params, notes):
    """`t = <pure expr>` immediately followed by a statement that reads `t` exactly once (and nothing else in the
    function reads or re-binds it): the expression is put where `t` is read.  Sound when the value is computed from the
    same state: the expression is call/subscript free, and in the next statement no call or subscript is evaluated before
    the place of use (an argument is evaluated before the call it belongs to), so state and exception order are unchanged."""
    out = []
    k = 0
    while k < len(body):
        st = body[k]
        # `t = <any expr>` directly followed by `return t` (t read nowhere else)  ==  `return <expr>`: nothing happens between
        if (isinstance(st, ast.Assign) and len(st.targets) == 1 and isinstance(st.targets[0], ast.Name)
                and st.targets[0].id not in VARS and st.targets[0].id not in params and k + 1 < len(body)
                and isinstance(body[k + 1], ast.Return) and isinstance(body[k + 1].value, ast.Name)
                and body[k + 1].value.id == st.targets[0].id and fn_all_loads_count.get(st.targets[0].id, 0) == 1):
            notes.append("`%s = e; return %s` -> `return e`" % (st.targets[0].id, st.targets[0].id))
            out.append(ast.copy_location(ast.Return(value=st.value), st))
            k += 2
            continue
        if (isinstance(st, ast.Assign) and len(st.targets) == 1 and isinstance(st.targets[0], ast.Name)
                and st.targets[0].id not in VARS and st.targets[0].id not in params and k + 1 < len(body)
                and _is_pure_shape(st.value) and fn_all_loads_count.get(st.targets[0].id, 0) == 1):
            t = st.targets[0].id
            nxt = body[k + 1]
            uses = [n for n in ast.walk(nxt) if isinstance(n, ast.Name) and n.id == t and isinstance(n.ctx, ast.Load)]
            header_only = True
            if isinstance(nxt, (ast.For, ast.If, ast.While, ast.Try, ast.With)):
                hdr = nxt.iter if isinstance(nxt, ast.For) else (nxt.test if isinstance(nxt, (ast.If, ast.While)) else None)
                header_only = hdr is not None and len([n for n in ast.walk(hdr) if isinstance(n, ast.Name) and n.id == t]) == 1 \
                    and not isinstance(nxt, ast.While)
            if len(uses) == 1 and header_only:
                u = uses[0]
                scope = nxt.iter if isinstance(nxt, ast.For) else (nxt.test if isinstance(nxt, ast.If) else nxt)
                early = False
                for n in ast.walk(scope):
                    if isinstance(n, (ast.Call, ast.Subscript)) and not (
                            isinstance(n, ast.Call) and isinstance(n.func, ast.Name) and n.func.id in ("id", "getattr")):
                        contains = any(m is u for m in ast.walk(n))
                        before = (n.end_lineno, n.end_col_offset) <= (u.lineno, u.col_offset)
                        if before and not contains:
                            early = True
                if not early:
                    notes.append("inlined single-use local `%s`" % t)
                    out.append(ast.fix_missing_locations(_Subst(t, st.value).visit(nxt)))
                    k += 2
                    continue
        out.append(st)
        k += 1
    return out


class _Shapes(ast.NodeTransformer):
    """statement-level equivalences"""

    def __init__(self, notes):
        self.notes = notes

    def _block(self, stmts):
        res = []
        for st in stmts:
            r = self.visit(st)
            res.extend(r if isinstance(r, list) else [r])
        return res

    def visit_AnnAssign(self, st):
        # `x: T = e` is `x = e` (annotations of locals are not evaluated... they ARE for simple names? no: for a local
        # simple name the annotation is not evaluated at all, PEP 526)
        if st.value is not None and st.simple and isinstance(st.target, ast.Name):
            self.notes.append("annotated assignment")
            return self.visit(ast.copy_location(ast.Assign(targets=[st.target], value=st.value), st))
        return st

    def visit_Assign(self, st):
        # `x = A if c else B`  ==  `if c: x = A` / `else: x = B`: c is evaluated first, then exactly one of A, B, then the
        # target is bound; for `o.f = …` / `d[k] = …` the target expression is evaluated after the value in both forms
        if isinstance(st.value, ast.IfExp) and len(st.targets) == 1:
            self.notes.append("conditional expression -> if/else")
            v = st.value
            mk = lambda val: ast.copy_location(ast.Assign(targets=[st.targets[0]], value=val), st)
            return self.visit(ast.copy_location(ast.If(test=v.test, body=[mk(v.body)], orelse=[mk(v.orelse)]), st))
        return st

    def visit_Return(self, st):
        if isinstance(st.value, ast.IfExp):
            self.notes.append("return of a conditional expression -> if/else")
            v = st.value
            mk = lambda val: ast.copy_location(ast.Return(value=val), st)
            return self.visit(ast.copy_location(ast.If(test=v.test, body=[mk(v.body)], orelse=[mk(v.orelse)]), st))
        return st

    def visit_If(self, st):
        st.body = self._block(st.body)
        st.orelse = self._block(st.orelse)
        # `if not c: X else: Y`  ==  `if c: Y else: X` (the test is evaluated once either way; `not` only negates its truth)
        if isinstance(st.test, ast.UnaryOp) and isinstance(st.test.op, ast.Not) and st.orelse \
                and not (isinstance(st.test.operand, ast.Compare) and len(st.test.operand.ops) == 1
                         and isinstance(st.test.operand.ops[0], (ast.Is, ast.IsNot))
                         and isinstance(st.test.operand.comparators[0], ast.Constant)
                         and st.test.operand.comparators[0].value is None):
            self.notes.append("if not c / else -> branches swapped")
            st.test, st.body, st.orelse = st.test.operand, st.orelse, st.body
        # `x is not False` == `not (x is False)`: with an else branch, swap
        if isinstance(st.test, ast.Compare) and len(st.test.ops) == 1 and isinstance(st.test.ops[0], ast.IsNot) \
                and isinstance(st.test.comparators[0], ast.Constant) and st.test.comparators[0].value is False and st.orelse:
            self.notes.append("`is not False` / else -> branches swapped")
            st.test = ast.copy_location(ast.Compare(left=st.test.left, ops=[ast.Is()], comparators=st.test.comparators), st.test)
            st.body, st.orelse = st.orelse, st.body
        # `if a: if b: X` (no else anywhere, nothing else in the outer body)  ==  `if a and b: X`
        if not st.orelse and len(st.body) == 1 and isinstance(st.body[0], ast.If) and not st.body[0].orelse:
            self.notes.append("nested if without else -> and")
            inner = st.body[0]
            lhs = st.test.values if isinstance(st.test, ast.BoolOp) and isinstance(st.test.op, ast.And) else [st.test]
            rhs = inner.test.values if isinstance(inner.test, ast.BoolOp) and isinstance(inner.test.op, ast.And) else [inner.test]
            st.test = ast.copy_location(ast.BoolOp(op=ast.And(), values=lhs + rhs), st.test)
            st.body = inner.body
        return st

    def visit_For(self, st):
        st.body = self._block(st.body)
        st.orelse = self._block(st.orelse)
        return st

    def visit_Try(self, st):
        st.body = self._block(st.body)
        for h in st.handlers:
            h.body = self._block(h.body)
        st.orelse = self._block(st.orelse)
        st.finalbody = self._block(st.finalbody)
        return st

    def visit_FunctionDef(self, fn):
        fn.body = self._block(fn.body)
        return fn


class _Rename(ast.NodeTransformer):
    def __init__(self, m):
        self.m = m

    def visit_Name(self, n):
        if n.id in self.m:
            n.id = self.m[n.id]
        return n

    def visit_ExceptHandler(self, h):
        if h.name in self.m:
            h.name = self.m[h.name]
        self.generic_visit(h)
        return h


def normalise(fn):
    """returns (normalised copy of the function node, notes, gaps)"""
    fn = ast.parse(ast.unparse(fn)).body[0]            # private copy, positions of the unparsed text
    notes, gaps = [], []
    params = [a.arg for a in fn.args.posonlyargs + fn.args.args]
    # 1. shapes
    fn = ast.fix_missing_locations(_Shapes(notes).visit(fn))
    fn = ast.parse(ast.unparse(fn)).body[0]
    # 2. single-use locals that today's source does not have
    counts = {}
    for st in fn.body:
        for n in ast.walk(st):
            if isinstance(n, ast.Name) and isinstance(n.ctx, ast.Load):
                counts[n.id] = counts.get(n.id, 0) + 1
    stores = {}
    for st in fn.body:
        for n in ast.walk(st):
            if isinstance(n, ast.Name) and isinstance(n.ctx, ast.Store):
                stores[n.id] = stores.get(n.id, 0) + 1
    counts = {k: (v if stores.get(k, 0) == 1 else 99) for k, v in counts.items()}      # bound once only

    def rec(body):
        body = _inline_single_use(body, counts, params, notes)
        for st in body:
            for fld in ("body", "orelse", "finalbody"):
                if isinstance(getattr(st, fld, None), list) and not isinstance(st, ast.FunctionDef):
                    setattr(st, fld, rec(getattr(st, fld)))
            for h in getattr(st, "handlers", []):
                h.body = rec(h.body)
        return body
    fn.body = rec(fn.body)
    fn = ast.parse(ast.unparse(fn)).body[0]
    # 3. alpha renaming: a local that today's source does not have takes the place of a canonical local that this source
    #    does not bind, in order of first binding.  Renaming a local consistently is behaviour-preserving unless the new or
    #    old name is also read as a global/builtin inside the function - then it is refused.
    canon = CANON_LOCALS.get(fn.name, [])
    bound = [b for b in _bound_names(fn) if b not in params]
    unknown = [b for b in bound if b not in canon]
    missing = [c for c in canon if c not in bound]
    if unknown:
        free = _loaded_names(fn) - set(bound) - set(params)
        if len(unknown) == len(missing) and not (set(unknown) & free) and not (set(missing) & free):
            # match by the position in the canonical binding order: the i-th unknown name (by first binding) stands for
            # the i-th missing canonical one only if that keeps the binding order of all locals canonical
            m = dict(zip(unknown, missing))
            renamed = [m.get(b, b) for b in bound]
            if renamed == [c for c in canon if c in renamed]:
                fn = _Rename(m).visit(fn)
                notes.append("renamed locals: %s" % ", ".join("%s->%s" % kv for kv in m.items()))
            else:
                gaps.append("%s: locals %s cannot be matched with %s by binding order" % (fn.name, unknown, missing))
        else:
            gaps.append("%s: unknown local variable(s) %s (canonical ones not bound here: %s)" % (fn.name, unknown, missing))
    return ast.fix_missing_locations(fn), notes, gaps


class Tr:
    def __init__(self, label):
        self.label = label
        self.gaps = []

    def gap(self, node, why):
        self.gaps.append("%s: line %s: %s" % (self.label, getattr(node, "lineno", "?"), why))

    # ------------------------------------------------------------ expressions: (text, type, pure) or None
    def var(self, node):
        if isinstance(node, ast.Name) and node.id in VARS:
            return node.id
        return None

    def pure(self, e, want=None):
        """pure expression of type `want` (None = any); returns (text, type) or None (gap already reported)"""
        r = self._pure(e)
        if r is None:
            return None
        if want is not None and r[1] != want:
            self.gap(e, "expression `%s` has type %s, %s expected" % (ast.unparse(e), r[1], want))
            return None
        return r

    def _pure(self, e):
        if isinstance(e, ast.Name):
            if e.id not in VARS:
                self.gap(e, "unknown name `%s`" % e.id)
                return None
            return "(P.var V.%s)" % e.id, VARS[e.id]
        if isinstance(e, ast.Constant) and e.value is None:
            return "P.none", "Val"
        if isinstance(e, ast.Attribute):
            o = self.pure(e.value, "Val")
            return None if o is None else ("(P.attr %s %s)" % (o[0], q(e.attr)), "Val")
        if isinstance(e, ast.List) and not e.elts:
            return "P.emptyList", "List"
        if isinstance(e, ast.Dict) and not e.keys:
            return "P.emptyDict", "Dict"
        if isinstance(e, ast.Compare) and len(e.ops) == 1:
            op, rhs = e.ops[0], e.comparators[0]
            if isinstance(op, (ast.Is, ast.IsNot)) and isinstance(rhs, ast.Constant) and rhs.value is None:
                l = self.pure(e.left, "Val")
                return None if l is None else ("(P.%s %s)" % ("isNone" if isinstance(op, ast.Is) else "isNotNone", l[0]), "Bool")
            if isinstance(op, ast.Is) and isinstance(rhs, ast.Constant) and rhs.value is False:
                l = self.pure(e.left, "Bool")
                return None if l is None else ("(P.isFalse %s)" % l[0], "Bool")
            if isinstance(op, ast.In):
                l, r = self.pure(e.left, "Val"), self.pure(rhs, "List")
                return None if l is None or r is None else ("(P.inList %s %s)" % (l[0], r[0]), "Bool")
        if isinstance(e, ast.UnaryOp) and isinstance(e.op, ast.Not) and isinstance(e.operand, ast.Compare) \
                and len(e.operand.ops) == 1 and isinstance(e.operand.ops[0], (ast.Is, ast.IsNot)) \
                and isinstance(e.operand.comparators[0], ast.Constant) and e.operand.comparators[0].value is None:
            # `not (x is None)` == `x is not None`, `not (x is not None)` == `x is None` (identity tests give a bool)
            l = self.pure(e.operand.left, "Val")
            return None if l is None else ("(P.%s %s)" % ("isNotNone" if isinstance(e.operand.ops[0], ast.Is) else "isNone", l[0]), "Bool")
        if isinstance(e, ast.Call) and isinstance(e.func, ast.Name) and e.func.id in ("list", "dict") \
                and not e.args and not e.keywords and e.func.id not in VARS:
            # `list()` == `[]`, `dict()` == `{}` (the builtins; a local of that name would have been refused)
            return ("P.emptyList", "List") if e.func.id == "list" else ("P.emptyDict", "Dict")
        if isinstance(e, ast.BinOp) and isinstance(e.op, ast.Add):
            l, r = self.pure(e.left, "Val"), self.pure(e.right, "Val")        # two list OBJECTS: a new Python list
            return None if l is None or r is None else ("(P.concatItems %s %s)" % (l[0], r[0]), "List")
        if isinstance(e, ast.BoolOp) and isinstance(e.op, ast.And):
            parts = [self.pure(v, "Bool") for v in e.values]
            if any(p is None for p in parts):
                return None
            t = parts[-1][0]
            for p in reversed(parts[:-1]):
                t = "(P.and %s %s)" % (p[0], t)
            return t, "Bool"
        if isinstance(e, ast.Call) and isinstance(e.func, ast.Name) and not e.keywords:
            if e.func.id == "id" and len(e.args) == 1:
                a = self.pure(e.args[0], "Val")
                return None if a is None else ("(P.idOf %s)" % a[0], "Val")
            if e.func.id == "getattr" and len(e.args) == 3 and isinstance(e.args[1], ast.Constant) \
                    and isinstance(e.args[1].value, str) and isinstance(e.args[2], ast.Constant) and e.args[2].value is None:
                a = self.pure(e.args[0], "Val")
                return None if a is None else ("(P.attr %s %s)" % (a[0], q(e.args[1].value)), "Val")
        self.gap(e, "expression not in the vocabulary: %s" % ast.unparse(e)[:100])
        return None

    def is_effectful(self, e):
        if isinstance(e, ast.Call) and isinstance(e.func, ast.Name) and e.func.id in ("list", "dict") \
                and not e.args and not e.keywords:
            return False                                   # `list()` / `dict()`: see _pure
        return isinstance(e, (ast.Subscript,)) or (isinstance(e, ast.Call) and not (
            isinstance(e.func, ast.Name) and e.func.id in ("id", "getattr")))

    def eff(self, e):
        """effectful expression of type Val; returns text or None"""
        if isinstance(e, ast.Subscript):
            d, k = self.pure(e.value, "Dict"), self.pure(e.slice, "Val")
            return None if d is None or k is None else "(E.subscript %s %s)" % (d[0], k[0])
        if isinstance(e, ast.Call):
            f = ast.unparse(e.func)
            kw = {k.arg: k.value for k in e.keywords}
            if f == "copy.deepcopy" and not kw and len(e.args) == 1:
                a = self.pure(e.args[0], "Val")
                return None if a is None else "(E.deepcopy1 %s)" % a[0]
            if f == "copy.deepcopy" and not kw and len(e.args) == 2:
                a, m = self.pure(e.args[0], "Val"), self.pure(e.args[1], "Dict")
                return None if a is None or m is None else "(E.deepcopy2 %s %s)" % (a[0], m[0])
            if f == "loaders.read_neuroml2_file" and len(e.args) == 1 and sorted(kw) == ["optimized", "verbose"] \
                    and isinstance(kw["verbose"], ast.Constant) and kw["verbose"].value is False \
                    and isinstance(kw["optimized"], ast.Constant) and kw["optimized"].value is True:
                a = self.pure(e.args[0], "Val")
                return None if a is None else "(E.readFile files %s)" % a[0]
            if f == "_deepcopy_into" and not kw and len(e.args) == 2:
                a0 = e.args[0]
                if self.is_effectful(a0):
                    a = self.eff(a0)
                else:
                    p = self.pure(a0, "Val")
                    a = None if p is None else "(E.pure %s)" % p[0]
                b = self.pure(e.args[1], "Val")
                return None if a is None or b is None else "(E.callDeepcopyInto deepcopyInto %s %s)" % (a, b[0])
        self.gap(e, "expression not in the vocabulary: %s" % ast.unparse(e)[:100])
        return None

    # ------------------------------------------------------------ statements
    def block(self, stmts, ind):
        items = []
        for k, st in enumerate(stmts):
            if k == 0 and isinstance(st, ast.Expr) and isinstance(st.value, ast.Constant) and isinstance(st.value.value, str):
                continue                                   # doc string
            items.append(self.stmt(st, ind + 2))
        pad = " " * ind
        if not items:
            return "S.skip"
        return "S.block [\n" + ",\n".join(" " * (ind + 2) + it for it in items) + "\n" + pad + "]"

    def unsupported(self, st, why):
        self.gap(st, why)
        return "S.unsupported"

    def stmt(self, st, ind):
        if isinstance(st, ast.Assign) and len(st.targets) == 1:
            tg, val = st.targets[0], st.value
            if isinstance(tg, ast.Name):
                if tg.id not in VARS:
                    return self.unsupported(st, "assignment to unknown name `%s`" % tg.id)
                if self.is_effectful(val):
                    if VARS[tg.id] != "Val":
                        return self.unsupported(st, "effectful value assigned to `%s` of type %s" % (tg.id, VARS[tg.id]))
                    v = self.eff(val)
                    return "S.unsupported" if v is None else "S.assignE V.%s %s" % (tg.id, v)
                v = self.pure(val, VARS[tg.id])
                return "S.unsupported" if v is None else "S.assign V.%s %s" % (tg.id, v[0])
            if isinstance(tg, ast.Attribute):
                o = self.pure(tg.value, "Val")
                if o is None:
                    return "S.unsupported"
                if self.is_effectful(val):
                    v = self.eff(val)
                    return "S.unsupported" if v is None else "S.setattrE %s %s %s" % (o[0], q(tg.attr), v)
                v = self.pure(val, "Val")
                return "S.unsupported" if v is None else "S.setattr %s %s %s" % (o[0], q(tg.attr), v[0])
            if isinstance(tg, ast.Subscript) and isinstance(tg.value, ast.Name) and VARS.get(tg.value.id) == "Dict":
                k, v = self.pure(tg.slice, "Val"), self.pure(val, "Val")
                return "S.unsupported" if k is None or v is None else "S.setitem V.%s %s %s" % (tg.value.id, k[0], v[0])
            return self.unsupported(st, "assignment target not in the vocabulary: %s" % ast.unparse(tg))
        if isinstance(st, ast.Expr) and isinstance(st.value, ast.Call) and isinstance(st.value.func, ast.Attribute):
            c = st.value
            if isinstance(c.func.value, ast.Name) and c.func.attr == "append" and VARS.get(c.func.value.id) == "List" \
                    and len(c.args) == 1 and not c.keywords:
                v = self.pure(c.args[0], "Val")
                return "S.unsupported" if v is None else "S.append V.%s %s" % (c.func.value.id, v[0])
            if isinstance(c.func.value, ast.Name) and c.func.value.id == "logger" and c.func.attr in LOG_LEVELS \
                    and len(c.args) >= 1 and not c.keywords:
                # the text of a log message is not behaviour; what matters is that building it is pure: an f-string with
                # pure {...} parts, a constant, `"...%s..." % pure` / `% (pure, ...)`, or lazy `logger.x("...%s", pure, ...)`
                def text_ok(a):
                    if isinstance(a, ast.Constant) and isinstance(a.value, str):
                        return True
                    if isinstance(a, ast.JoinedStr):
                        return all(not isinstance(part, ast.FormattedValue)
                                   or (part.format_spec is None and self._pure(part.value) is not None) for part in a.values)
                    if isinstance(a, ast.BinOp) and isinstance(a.op, ast.Mod) and isinstance(a.left, ast.Constant) \
                            and isinstance(a.left.value, str):
                        args = a.right.elts if isinstance(a.right, ast.Tuple) else [a.right]
                        return all(self._pure(x) is not None for x in args)
                    return False
                if text_ok(c.args[0]) and all(self._pure(x) is not None for x in c.args[1:]):
                    return "S.log"
                return self.unsupported(st, "logger call whose argument is not a text with pure {...} parts")
        if isinstance(st, ast.If):
            c = self.pure(st.test, "Bool")
            if c is None:
                return "S.unsupported"
            return "S.ite %s (%s) (%s)" % (c[0], self.block(st.body, ind), self.block(st.orelse, ind))
        if isinstance(st, ast.For):
            if st.orelse:
                return self.unsupported(st, "for ... else")
            if not (isinstance(st.target, ast.Name) and VARS.get(st.target.id) == "Val"):
                return self.unsupported(st, "for target is not a known object variable")
            it = self._pure(st.iter)
            if it is None:
                return "S.unsupported"
            if it[1] == "List":                                  # a Python list held in a local variable
                return "S.forEach V.%s %s (%s)" % (st.target.id, it[0], self.block(st.body, ind))
            if it[1] != "Val":
                return self.unsupported(st, "for over something that is neither a list object nor a local list")
            return "S.forEach V.%s (P.iter %s) (%s)" % (st.target.id, it[0], self.block(st.body, ind))
        if isinstance(st, ast.Try):
            if st.orelse or st.finalbody or len(st.handlers) != 1:
                return self.unsupported(st, "try with else / finally / several handlers")
            h = st.handlers[0]
            if not (isinstance(h.type, ast.Name) and h.type.id == "KeyError" and h.name is not None and VARS.get(h.name) == "Err"):
                return self.unsupported(st, "handler is not `except KeyError as <exception variable>:`")
            return "S.tryKeyError (%s) V.%s (%s)" % (self.block(st.body, ind), h.name, self.block(h.body, ind))
        if isinstance(st, ast.Raise):
            if st.cause is None and isinstance(st.exc, ast.Name) and VARS.get(st.exc.id) == "Err":
                return "S.raiseVar V.%s" % st.exc.id
            return self.unsupported(st, "raise of something that is not the caught exception")
        if isinstance(st, ast.Return) and st.value is not None:
            if self.is_effectful(st.value):
                v = self.eff(st.value)
                return "S.unsupported" if v is None else "S.retE %s" % v
            v = self.pure(st.value, "Val")
            return "S.unsupported" if v is None else "S.ret %s" % v[0]
        return self.unsupported(st, "statement not in the vocabulary: %s" % ast.unparse(st).split("\n")[0][:100])

    def function(self, fn):
        want = PARAMS[fn.name]
        a = fn.args
        have = [x.arg for x in a.posonlyargs + a.args]
        if have != want or a.vararg or a.kwarg or a.kwonlyargs:
            self.gap(fn, "parameters %s, expected %s" % (have, want))
        if fn.decorator_list:
            self.gap(fn, "decorated")
        defaults = [ast.unparse(d) for d in a.defaults]
        return have, defaults, self.block(fn.body, 2)


HEADER = """/-
GENERATED by translators/py2lean_fixexternal.py from neuroml/utils.py
(`_deepcopy_into`, `fix_external_morphs_biophys_in_cell`). Regenerated on every `bin/check C17`; do not edit.
-/
import NmlVerif.Model.FixIR

namespace NmlVerif.Gen.FixExternal
open NmlVerif.FixIR NmlVerif.PyHeap NmlVerif.FixExternalH

"""
FOOTER = "\nend NmlVerif.Gen.FixExternal\n"


NOTES = []          # what the normaliser did in the last run (reported by the harness in the evidence)


def translate_repo(repo):
    """returns (lean_text, gaps)"""
    gaps = []
    del NOTES[:]
    path = os.path.join(repo, "neuroml", "utils.py")
    with open(path, encoding="utf-8") as fh:
        tree = ast.parse(fh.read())
    found = {}
    for node in tree.body:
        if isinstance(node, ast.FunctionDef) and node.name in TARGETS:
            found.setdefault(node.name, []).append(node)
    chunks = []
    for key, nm, binder in (("_deepcopy_into", "deepcopyInto", ""),
                            ("fix_external_morphs_biophys_in_cell", "fix", " (files : Files)")):
        nodes = found.get(key, [])
        if len(nodes) != 1:
            gaps.append("utils.py: %d definitions of %s (expected 1)" % (len(nodes), key))
            chunks.append("def %sParams : List String := []\n" % nm)
            if nm == "fix":
                chunks.append("def fixOverwriteDefault : Bool := false\n")
            chunks.append("/-- `%s` was not found -/\ndef %s%s : Stmt := S.unsupported\n" % (key, nm, binder))
            continue
        tr = Tr("utils.py: %s" % key)
        node, notes, ngaps = normalise(nodes[0])
        gaps += ["utils.py: " + g for g in ngaps]
        NOTES.extend("%s: %s" % (key, n) for n in notes)
        params, defaults, body = tr.function(node)
        gaps += tr.gaps
        chunks.append("/-- parameters of `%s` -/\ndef %sParams : List String := [%s]\n" % (
            key, nm, ", ".join(q(p) for p in params)))
        if nm == "fix":
            if defaults not in (["True"], ["False"]):
                gaps.append("utils.py: %s: defaults %s, expected [overwrite=True]" % (key, defaults))
            chunks.append("/-- default of `overwrite` -/\ndef fixOverwriteDefault : Bool := %s\n" % (
                "true" if defaults == ["True"] else "false"))
        elif defaults:
            gaps.append("utils.py: %s: unexpected parameter defaults %s" % (key, defaults))
        chunks.append("/-- body of `%s` -/\ndef %s%s : Stmt :=\n  %s\n" % (key, nm, binder, body))
    return HEADER + "\n".join(chunks) + FOOTER, gaps


def regenerate(repo, out_path):
    text, gaps = translate_repo(repo)
    old = None
    if os.path.exists(out_path):
        with open(out_path, encoding="utf-8") as fh:
            old = fh.read()
    if old != text:
        os.makedirs(os.path.dirname(out_path), exist_ok=True)
        tmp = out_path + ".tmp%d" % os.getpid()
        with open(tmp, "w", encoding="utf-8") as fh:
            fh.write(text)
        os.replace(tmp, out_path)
    return gaps


if __name__ == "__main__":
    repo = sys.argv[1] if len(sys.argv) > 1 else os.environ.get("VERIF_REPO", "/repo")
    here = os.path.dirname(os.path.dirname(os.path.abspath(__file__)))
    out = sys.argv[2] if len(sys.argv) > 2 else os.path.join(here, "lean", "NmlVerif", "Gen", "FixExternal.lean")
    gs = regenerate(repo, out)
    for g in gs:
        print("GAP:", g)
    for n_ in NOTES:
        print("NORMALISED:", n_)
    print("wrote", out, "gaps:", len(gs))
