"""py2lean_fixexternal — translate `fix_external_morphs_biophys_in_cell` and `_deepcopy_into` (neuroml/utils.py) into
terms of the imperative vocabulary of `lean/NmlVerif/Model/FixIR.lean` (property C17).

Reads (Python `ast`; nothing is imported or executed) `neuroml/utils.py` of the CURRENT working tree and writes
`lean/NmlVerif/Gen/FixExternal.lean`:

    def deepcopyInto : Stmt                     -- body of `_deepcopy_into`
    def fix (files : Files) : Stmt              -- body of `fix_external_morphs_biophys_in_cell`
    def deepcopyIntoParams / fixParams : List String ; def fixOverwriteDefault : Bool

The translation is compositional, statement by statement and expression by expression:

  statements   x = e | o.f = e | d[k] = v | l.append(v) | logger.<level>(<text with pure {…}>) | if/else |
               for x in <list object or local list> (no else) | try / except KeyError as e (no else/finally) | raise e | return e
  pure expr    local variable | o.f | None | e is None | e is not None | b is False | a and b | x in l | [] | {} |
               id(e) | getattr(e, "f", None) | a + b (two list objects)
  effectful    d[k] | copy.deepcopy(x) | copy.deepcopy(x, memo) |
               loaders.read_neuroml2_file(h, verbose=False, optimized=True) | _deepcopy_into(a, b)

Local variables are typed by the table `VARS` (a name that is not in it is refused, as is a use at another type).
Anything else is a GAP: reported, and rendered as `S.unsupported` so that `Props/C17Gen.lean` cannot go through.
"""
import ast
import os
import sys

TARGETS = ["_deepcopy_into", "fix_external_morphs_biophys_in_cell"]

VARS = {
    "nml2_doc": "Val", "overwrite": "Bool", "newdoc": "Val", "all_cells": "List", "referenced_ids": "List", "cell": "Val",
    "ext_morphs": "Dict", "ext_biophys": "Dict", "inc": "Val", "incdoc": "Val", "morph": "Val", "biophys": "Val",
    "e": "Err", "element": "Val", "new_parent": "Val", "memo": "Dict", "old_parent": "Val",
}
PARAMS = {"_deepcopy_into": ["element", "new_parent"], "fix_external_morphs_biophys_in_cell": ["nml2_doc", "overwrite"]}
LOG_LEVELS = ("debug", "info", "warning", "error", "critical")


def q(s):
    return '"' + s.replace("\\", "\\\\").replace('"', '\\"') + '"'


class Tr:
    def __init__(self, label):
        self.label = label
        self.gaps = []

    def gap(self, node, why):
        self.gaps.append("%s: line %s: %s" % (self.label, getattr(node, "lineno", "?"), why))

    # ------------------------------------------------------------ expressions: (text, type, pure) or None
    def var(self, node):
        if isinstance(node, ast.Name) and node.id in VARS:
            return node.id
        return None

    def pure(self, e, want=None):
        """pure expression of type `want` (None = any); returns (text, type) or None (gap already reported)"""
        r = self._pure(e)
        if r is None:
            return None
        if want is not None and r[1] != want:
            self.gap(e, "expression `%s` has type %s, %s expected" % (ast.unparse(e), r[1], want))
            return None
        return r

    def _pure(self, e):
        if isinstance(e, ast.Name):
            if e.id not in VARS:
                self.gap(e, "unknown name `%s`" % e.id)
                return None
            return "(P.var V.%s)" % e.id, VARS[e.id]
        if isinstance(e, ast.Constant) and e.value is None:
            return "P.none", "Val"
        if isinstance(e, ast.Attribute):
            o = self.pure(e.value, "Val")
            return None if o is None else ("(P.attr %s %s)" % (o[0], q(e.attr)), "Val")
        if isinstance(e, ast.List) and not e.elts:
            return "P.emptyList", "List"
        if isinstance(e, ast.Dict) and not e.keys:
            return "P.emptyDict", "Dict"
        if isinstance(e, ast.Compare) and len(e.ops) == 1:
            op, rhs = e.ops[0], e.comparators[0]
            if isinstance(op, (ast.Is, ast.IsNot)) and isinstance(rhs, ast.Constant) and rhs.value is None:
                l = self.pure(e.left, "Val")
                return None if l is None else ("(P.%s %s)" % ("isNone" if isinstance(op, ast.Is) else "isNotNone", l[0]), "Bool")
            if isinstance(op, ast.Is) and isinstance(rhs, ast.Constant) and rhs.value is False:
                l = self.pure(e.left, "Bool")
                return None if l is None else ("(P.isFalse %s)" % l[0], "Bool")
            if isinstance(op, ast.In):
                l, r = self.pure(e.left, "Val"), self.pure(rhs, "List")
                return None if l is None or r is None else ("(P.inList %s %s)" % (l[0], r[0]), "Bool")
        if isinstance(e, ast.BinOp) and isinstance(e.op, ast.Add):
            l, r = self.pure(e.left, "Val"), self.pure(e.right, "Val")        # two list OBJECTS: a new Python list
            return None if l is None or r is None else ("(P.concatItems %s %s)" % (l[0], r[0]), "List")
        if isinstance(e, ast.BoolOp) and isinstance(e.op, ast.And):
            parts = [self.pure(v, "Bool") for v in e.values]
            if any(p is None for p in parts):
                return None
            t = parts[-1][0]
            for p in reversed(parts[:-1]):
                t = "(P.and %s %s)" % (p[0], t)
            return t, "Bool"
        if isinstance(e, ast.Call) and isinstance(e.func, ast.Name) and not e.keywords:
            if e.func.id == "id" and len(e.args) == 1:
                a = self.pure(e.args[0], "Val")
                return None if a is None else ("(P.idOf %s)" % a[0], "Val")
            if e.func.id == "getattr" and len(e.args) == 3 and isinstance(e.args[1], ast.Constant) \
                    and isinstance(e.args[1].value, str) and isinstance(e.args[2], ast.Constant) and e.args[2].value is None:
                a = self.pure(e.args[0], "Val")
                return None if a is None else ("(P.attr %s %s)" % (a[0], q(e.args[1].value)), "Val")
        self.gap(e, "expression not in the vocabulary: %s" % ast.unparse(e)[:100])
        return None

    def is_effectful(self, e):
        return isinstance(e, (ast.Subscript,)) or (isinstance(e, ast.Call) and not (
            isinstance(e.func, ast.Name) and e.func.id in ("id", "getattr")))

    def eff(self, e):
        """effectful expression of type Val; returns text or None"""
        if isinstance(e, ast.Subscript):
            d, k = self.pure(e.value, "Dict"), self.pure(e.slice, "Val")
            return None if d is None or k is None else "(E.subscript %s %s)" % (d[0], k[0])
        if isinstance(e, ast.Call):
            f = ast.unparse(e.func)
            kw = {k.arg: k.value for k in e.keywords}
            if f == "copy.deepcopy" and not kw and len(e.args) == 1:
                a = self.pure(e.args[0], "Val")
                return None if a is None else "(E.deepcopy1 %s)" % a[0]
            if f == "copy.deepcopy" and not kw and len(e.args) == 2:
                a, m = self.pure(e.args[0], "Val"), self.pure(e.args[1], "Dict")
                return None if a is None or m is None else "(E.deepcopy2 %s %s)" % (a[0], m[0])
            if f == "loaders.read_neuroml2_file" and len(e.args) == 1 and sorted(kw) == ["optimized", "verbose"] \
                    and isinstance(kw["verbose"], ast.Constant) and kw["verbose"].value is False \
                    and isinstance(kw["optimized"], ast.Constant) and kw["optimized"].value is True:
                a = self.pure(e.args[0], "Val")
                return None if a is None else "(E.readFile files %s)" % a[0]
            if f == "_deepcopy_into" and not kw and len(e.args) == 2:
                a0 = e.args[0]
                if self.is_effectful(a0):
                    a = self.eff(a0)
                else:
                    p = self.pure(a0, "Val")
                    a = None if p is None else "(E.pure %s)" % p[0]
                b = self.pure(e.args[1], "Val")
                return None if a is None or b is None else "(E.callDeepcopyInto deepcopyInto %s %s)" % (a, b[0])
        self.gap(e, "expression not in the vocabulary: %s" % ast.unparse(e)[:100])
        return None

    # ------------------------------------------------------------ statements
    def block(self, stmts, ind):
        items = []
        for k, st in enumerate(stmts):
            if k == 0 and isinstance(st, ast.Expr) and isinstance(st.value, ast.Constant) and isinstance(st.value.value, str):
                continue                                   # doc string
            items.append(self.stmt(st, ind + 2))
        pad = " " * ind
        if not items:
            return "S.skip"
        return "S.block [\n" + ",\n".join(" " * (ind + 2) + it for it in items) + "\n" + pad + "]"

    def unsupported(self, st, why):
        self.gap(st, why)
        return "S.unsupported"

    def stmt(self, st, ind):
        if isinstance(st, ast.Assign) and len(st.targets) == 1:
            tg, val = st.targets[0], st.value
            if isinstance(tg, ast.Name):
                if tg.id not in VARS:
                    return self.unsupported(st, "assignment to unknown name `%s`" % tg.id)
                if self.is_effectful(val):
                    if VARS[tg.id] != "Val":
                        return self.unsupported(st, "effectful value assigned to `%s` of type %s" % (tg.id, VARS[tg.id]))
                    v = self.eff(val)
                    return "S.unsupported" if v is None else "S.assignE V.%s %s" % (tg.id, v)
                v = self.pure(val, VARS[tg.id])
                return "S.unsupported" if v is None else "S.assign V.%s %s" % (tg.id, v[0])
            if isinstance(tg, ast.Attribute):
                o = self.pure(tg.value, "Val")
                if o is None:
                    return "S.unsupported"
                if self.is_effectful(val):
                    v = self.eff(val)
                    return "S.unsupported" if v is None else "S.setattrE %s %s %s" % (o[0], q(tg.attr), v)
                v = self.pure(val, "Val")
                return "S.unsupported" if v is None else "S.setattr %s %s %s" % (o[0], q(tg.attr), v[0])
            if isinstance(tg, ast.Subscript) and isinstance(tg.value, ast.Name) and VARS.get(tg.value.id) == "Dict":
                k, v = self.pure(tg.slice, "Val"), self.pure(val, "Val")
                return "S.unsupported" if k is None or v is None else "S.setitem V.%s %s %s" % (tg.value.id, k[0], v[0])
            return self.unsupported(st, "assignment target not in the vocabulary: %s" % ast.unparse(tg))
        if isinstance(st, ast.Expr) and isinstance(st.value, ast.Call) and isinstance(st.value.func, ast.Attribute):
            c = st.value
            if isinstance(c.func.value, ast.Name) and c.func.attr == "append" and VARS.get(c.func.value.id) == "List" \
                    and len(c.args) == 1 and not c.keywords:
                v = self.pure(c.args[0], "Val")
                return "S.unsupported" if v is None else "S.append V.%s %s" % (c.func.value.id, v[0])
            if isinstance(c.func.value, ast.Name) and c.func.value.id == "logger" and c.func.attr in LOG_LEVELS \
                    and len(c.args) == 1 and not c.keywords:
                a = c.args[0]
                ok = isinstance(a, ast.Constant) and isinstance(a.value, str)
                if isinstance(a, ast.JoinedStr):
                    ok = True
                    for part in a.values:
                        if isinstance(part, ast.FormattedValue):
                            if part.format_spec is not None or self._pure(part.value) is None:
                                ok = False
                if ok:
                    return "S.log"
                return self.unsupported(st, "logger call whose argument is not a text with pure {...} parts")
        if isinstance(st, ast.If):
            c = self.pure(st.test, "Bool")
            if c is None:
                return "S.unsupported"
            return "S.ite %s (%s) (%s)" % (c[0], self.block(st.body, ind), self.block(st.orelse, ind))
        if isinstance(st, ast.For):
            if st.orelse:
                return self.unsupported(st, "for ... else")
            if not (isinstance(st.target, ast.Name) and VARS.get(st.target.id) == "Val"):
                return self.unsupported(st, "for target is not a known object variable")
            it = self._pure(st.iter)
            if it is None:
                return "S.unsupported"
            if it[1] == "List":                                  # a Python list held in a local variable
                return "S.forEach V.%s %s (%s)" % (st.target.id, it[0], self.block(st.body, ind))
            if it[1] != "Val":
                return self.unsupported(st, "for over something that is neither a list object nor a local list")
            return "S.forEach V.%s (P.iter %s) (%s)" % (st.target.id, it[0], self.block(st.body, ind))
        if isinstance(st, ast.Try):
            if st.orelse or st.finalbody or len(st.handlers) != 1:
                return self.unsupported(st, "try with else / finally / several handlers")
            h = st.handlers[0]
            if not (isinstance(h.type, ast.Name) and h.type.id == "KeyError" and h.name is not None and VARS.get(h.name) == "Err"):
                return self.unsupported(st, "handler is not `except KeyError as <exception variable>:`")
            return "S.tryKeyError (%s) V.%s (%s)" % (self.block(st.body, ind), h.name, self.block(h.body, ind))
        if isinstance(st, ast.Raise):
            if st.cause is None and isinstance(st.exc, ast.Name) and VARS.get(st.exc.id) == "Err":
                return "S.raiseVar V.%s" % st.exc.id
            return self.unsupported(st, "raise of something that is not the caught exception")
        if isinstance(st, ast.Return) and st.value is not None:
            if self.is_effectful(st.value):
                v = self.eff(st.value)
                return "S.unsupported" if v is None else "S.retE %s" % v
            v = self.pure(st.value, "Val")
            return "S.unsupported" if v is None else "S.ret %s" % v[0]
        return self.unsupported(st, "statement not in the vocabulary: %s" % ast.unparse(st).split("\n")[0][:100])

    def function(self, fn):
        want = PARAMS[fn.name]
        a = fn.args
        have = [x.arg for x in a.posonlyargs + a.args]
        if have != want or a.vararg or a.kwarg or a.kwonlyargs:
            self.gap(fn, "parameters %s, expected %s" % (have, want))
        if fn.decorator_list:
            self.gap(fn, "decorated")
        defaults = [ast.unparse(d) for d in a.defaults]
        return have, defaults, self.block(fn.body, 2)


HEADER = """/-
GENERATED by translators/py2lean_fixexternal.py from neuroml/utils.py
(`_deepcopy_into`, `fix_external_morphs_biophys_in_cell`). Regenerated on every `bin/check C17`; do not edit.
-/
import NmlVerif.Model.FixIR

namespace NmlVerif.Gen.FixExternal
open NmlVerif.FixIR NmlVerif.PyHeap NmlVerif.FixExternalH

"""
FOOTER = "\nend NmlVerif.Gen.FixExternal\n"


def translate_repo(repo):
    """returns (lean_text, gaps)"""
    gaps = []
    path = os.path.join(repo, "neuroml", "utils.py")
    with open(path, encoding="utf-8") as fh:
        tree = ast.parse(fh.read())
    found = {}
    for node in tree.body:
        if isinstance(node, ast.FunctionDef) and node.name in TARGETS:
            found.setdefault(node.name, []).append(node)
    chunks = []
    for key, nm, binder in (("_deepcopy_into", "deepcopyInto", ""),
                            ("fix_external_morphs_biophys_in_cell", "fix", " (files : Files)")):
        nodes = found.get(key, [])
        if len(nodes) != 1:
            gaps.append("utils.py: %d definitions of %s (expected 1)" % (len(nodes), key))
            chunks.append("def %sParams : List String := []\n" % nm)
            if nm == "fix":
                chunks.append("def fixOverwriteDefault : Bool := false\n")
            chunks.append("/-- `%s` was not found -/\ndef %s%s : Stmt := S.unsupported\n" % (key, nm, binder))
            continue
        tr = Tr("utils.py: %s" % key)
        params, defaults, body = tr.function(nodes[0])
        gaps += tr.gaps
        chunks.append("/-- parameters of `%s` -/\ndef %sParams : List String := [%s]\n" % (
            key, nm, ", ".join(q(p) for p in params)))
        if nm == "fix":
            if defaults not in (["True"], ["False"]):
                gaps.append("utils.py: %s: defaults %s, expected [overwrite=True]" % (key, defaults))
            chunks.append("/-- default of `overwrite` -/\ndef fixOverwriteDefault : Bool := %s\n" % (
                "true" if defaults == ["True"] else "false"))
        elif defaults:
            gaps.append("utils.py: %s: unexpected parameter defaults %s" % (key, defaults))
        chunks.append("/-- body of `%s` -/\ndef %s%s : Stmt :=\n  %s\n" % (key, nm, binder, body))
    return HEADER + "\n".join(chunks) + FOOTER, gaps


def regenerate(repo, out_path):
    text, gaps = translate_repo(repo)
    old = None
    if os.path.exists(out_path):
        with open(out_path, encoding="utf-8") as fh:
            old = fh.read()
    if old != text:
        os.makedirs(os.path.dirname(out_path), exist_ok=True)
        tmp = out_path + ".tmp%d" % os.getpid()
        with open(tmp, "w", encoding="utf-8") as fh:
            fh.write(text)
        os.replace(tmp, out_path)
    return gaps


if __name__ == "__main__":
    repo = sys.argv[1] if len(sys.argv) > 1 else os.environ.get("VERIF_REPO", "/repo")
    here = os.path.dirname(os.path.dirname(os.path.abspath(__file__)))
    out = sys.argv[2] if len(sys.argv) > 2 else os.path.join(here, "lean", "NmlVerif", "Gen", "FixExternal.lean")
    gs = regenerate(repo, out)
    for g in gs:
        print("GAP:", g)
    print("wrote", out, "gaps:", len(gs))
