"""py2lean_geom — translate the small pure geometry helpers of libNeuroML into Lean definitions.

Reads (with Python's `ast`, nothing is imported or executed) from the CURRENT working tree of the repository

    neuroml/nml/helper_methods.py   (method sources are string constants inside MethodSpec(source=...))
    neuroml/nml/nml.py              (the generated bindings that ship a copy of every helper)

the bodies of

    Point3DWithDiam.distance_to
    Segment.length / Segment.volume / Segment.surface_area            (properties)
    Cell.get_actual_proximal / get_segment_length / get_segment_surface_area / get_segment_volume

and emits `lean/NmlVerif/Gen/Geom.lean`: one Lean definition per function, polymorphic over a number type `α`
with `[GeomOps α]` (see `lean/NmlVerif/Model/GeomBase.lean`), returning `Except Err _`.

Translation rules (anything else is a *gap*: reported, never skipped):
  * `a + b`, `a - b`, `a * b`, `a / b`        -> `a +. b` ... on α;  int/float literals -> `GeomOps.lit n` (exact dyadic ratio
                                                   for non-integral literals)
  * `e ** 0.5`, `sqrt(e)`, `math.sqrt(e)`      -> `GeomOps.sqrt e`;   `e ** n` (n = 1, 2, 3, ... literal) -> `ipow e n`,
                                                   preceded by `if powOverflows e n then OverflowError` (CPython's pow)
  * `pi`, `math.pi`                            -> `GeomOps.pi`
  * `a == b`, `a != b` on numbers              -> `a =. b`, `!(a =. b)`;   `and`/`or`/`not` -> `&&`/`||`/`!`
  * `float(e)`                                 -> `e`  (SegmentParent.fraction_along is modelled as a number already)
  * `x = e`                                    -> `let x := e`
  * `if <opt> == None: A  [else: B]` / `if <opt>: A [else: B]`  (opt = .proximal / .parent of a segment)
                                               -> `match opt with | none => .. | some v => ..`
  * attribute access through a not-yet-tested optional (`segment.parent.segments`) -> `match` whose `none` branch
                                                   is `AttributeError`
  * `if c: A [elif/else: B]` followed by more statements: A (or B) must end in return/raise on every path
  * `raise K(msg)`                             -> `.error ⟨"K", "<leading constant of msg>"⟩`
  * `return e`                                 -> `.ok e`   (or the call itself when e is a helper call)
  * calls: `self.get_segment(i)`, `self.get_actual_proximal(i)` (parameters of the Lean def: open recursion, the
    knot is tied with fuel in `Model/Geom.lean`), `p.distance_to(q)`, `seg.length/.volume/.surface_area`,
    `Point3DWithDiam(x=, y=, z=[, diameter=])` (+ later `p.diameter = e`), `Segment(distal=, proximal=)`.

The two files must give the same translation for every function, otherwise a gap is reported.
"""
import ast
import os
import re
import sys
import textwrap
from fractions import Fraction

TARGETS = [
    ("Point3DWithDiam", "distance_to"),
    ("Segment", "length"),
    ("Segment", "volume"),
    ("Segment", "surface_area"),
    ("Cell", "get_actual_proximal"),
    ("Cell", "get_segment_length"),
    ("Cell", "get_segment_surface_area"),
    ("Cell", "get_segment_volume"),
]
PROPERTIES = {("Segment", "length"), ("Segment", "volume"), ("Segment", "surface_area")}
SELF_TYPE = {"Point3DWithDiam": "pt", "Segment": "seg", "Cell": "cell"}
PARAM_TYPES = {
    ("Point3DWithDiam", "distance_to"): {"other_3d_point": "pt"},
    ("Cell", "get_actual_proximal"): {"segment_id": "id"},
    ("Cell", "get_segment_length"): {"segment_id": "id"},
    ("Cell", "get_segment_surface_area"): {"segment_id": "id"},
    ("Cell", "get_segment_volume"): {"segment_id": "id"},
}
LEAN_TY = {"num": "α", "pt": "Pt α", "seg": "Seg α", "id": "Nat"}
LEAN_RESERVED = {"at", "from", "end", "fun", "do", "then", "else", "if", "let", "have", "show", "match", "with",
                 "in", "by", "where", "open", "def", "theorem", "structure", "class", "instance", "namespace",
                 "section", "variable", "universe", "import", "for", "return", "mut", "Type", "Prop", "Sort"}
PT_FIELDS = ("x", "y", "z", "diameter")


class Gap(Exception):
    pass


def lname(n):
    return n + "'" if n in LEAN_RESERVED else n


def q(s):
    return '"' + s.replace("\\", "\\\\").replace('"', '\\"') + '"'


def where(node):
    return "line %s" % getattr(node, "lineno", "?")


# ------------------------------------------------------------------ symbolic values
class SymPt:
    """a Point3DWithDiam(...) under construction: fields set so far"""

    def __init__(self, fields):
        self.fields = dict(fields)


# ------------------------------------------------------------------ output tree
class Let:
    def __init__(self, name, expr, body):
        self.name, self.expr, self.body = name, expr, body


class Bind:        # monadic call: match call with | .error e => .error e | .ok v => body
    def __init__(self, var, call, body):
        self.var, self.call, self.body = var, call, body


class MatchOpt:    # match opt with | none => a | some v => b
    def __init__(self, opt, var, none_b, some_b, some_first=False):
        self.opt, self.var, self.none_b, self.some_b, self.some_first = opt, var, none_b, some_b, some_first


class Ite:
    def __init__(self, cond, a, b):
        self.cond, self.a, self.b = cond, a, b


class Ok:
    def __init__(self, expr):
        self.expr = expr


class Fail:
    def __init__(self, kind, msg):
        self.kind, self.msg = kind, msg


class Tail:
    def __init__(self, call):
        self.call = call


def render(t, ind):
    p = "  " * ind
    if isinstance(t, Let):
        return "%slet %s := %s\n%s" % (p, t.name, t.expr, render(t.body, ind))
    if isinstance(t, Bind):
        return "%smatch %s with\n%s| .error e => .error e\n%s| .ok %s =>\n%s" % (p, t.call, p, p, t.var, render(t.body, ind + 1))
    if isinstance(t, MatchOpt):
        n = "%s| none =>\n%s" % (p, render(t.none_b, ind + 1))
        s = "%s| some %s =>\n%s" % (p, t.var, render(t.some_b, ind + 1))
        first, second = (s, n) if t.some_first else (n, s)
        return "%smatch %s with\n%s\n%s" % (p, t.opt, first, second)
    if isinstance(t, Ite):
        return "%sif %s then\n%s\n%selse\n%s" % (p, t.cond, render(t.a, ind + 1), p, render(t.b, ind + 1))
    if isinstance(t, Ok):
        return "%s.ok %s" % (p, t.expr)
    if isinstance(t, Fail):
        return "%s.error ⟨%s, %s⟩" % (p, q(t.kind), q(t.msg))
    if isinstance(t, Tail):
        return "%s%s" % (p, t.call)
    raise AssertionError(t)


# ------------------------------------------------------------------ translation of one function
class Fn:
    def __init__(self, cls, name, node):
        self.cls, self.name, self.node = cls, name, node
        self.ret_type = None
        self.fresh = 0

    def newvar(self, hint):
        self.fresh += 1
        return "%s_%d" % (hint, self.fresh) if self.fresh > 1 or hint == "t" else hint

    # ---- expressions.  returns (lean_string_atomic_or_parenthesised, type); appends hoisted steps to `pre`
    def ex(self, n, env, pre):
        if isinstance(n, ast.Constant):
            v = n.value
            if isinstance(v, bool) or not isinstance(v, (int, float)):
                raise Gap("unsupported constant %r (%s)" % (v, where(n)))
            return self.lit(v, n), "num"
        if isinstance(n, ast.Name):
            if n.id in env["vars"]:
                val, ty = env["vars"][n.id]
                if isinstance(val, SymPt):
                    return self.close_pt(val, n), "pt"
                return val, ty
            if n.id == "pi":
                return "(GeomOps.pi : α)", "num"
            raise Gap("unknown name %r (%s)" % (n.id, where(n)))
        if isinstance(n, ast.Attribute):
            if isinstance(n.value, ast.Name) and n.value.id == "math" and "math" not in env["vars"]:
                if n.attr == "pi":
                    return "(GeomOps.pi : α)", "num"
                raise Gap("unsupported math.%s (%s)" % (n.attr, where(n)))
            if isinstance(n.value, ast.Name) and isinstance(env["vars"].get(n.value.id, (None,))[0], SymPt):
                sp = env["vars"][n.value.id][0]
                if n.attr in sp.fields:
                    return sp.fields[n.attr], "num"
                raise Gap("field %s of constructed point read before it is set (%s)" % (n.attr, where(n)))
            v, ty = self.ex(n.value, env, pre)
            return self.attr(v, ty, n.attr, env, pre, n)
        if isinstance(n, ast.BinOp):
            if isinstance(n.op, ast.Pow):
                b, tb = self.ex(n.left, env, pre)
                self.need(tb, "num", n)
                e = n.right
                if isinstance(e, ast.Constant) and isinstance(e.value, (int, float)) and not isinstance(e.value, bool):
                    if e.value == 0.5:
                        return "(GeomOps.sqrt %s)" % b, "num"
                    if float(e.value).is_integer() and 1 <= e.value <= 16:
                        # CPython: finite base, infinite result -> OverflowError (IEEE would give inf)
                        pre.append(("guard", "(powOverflows %s %d)" % (b, int(e.value)),
                                    ("OverflowError", "(34, 'Numerical result out of range')")))
                        return "(ipow %s %d)" % (b, int(e.value)), "num"
                raise Gap("unsupported exponent in ** (%s)" % where(n))
            ops = {ast.Add: "+.", ast.Sub: "-.", ast.Mult: "*.", ast.Div: "/."}
            if type(n.op) not in ops:
                raise Gap("unsupported operator %s (%s)" % (type(n.op).__name__, where(n)))
            a, ta = self.ex(n.left, env, pre)
            b, tb = self.ex(n.right, env, pre)
            self.need(ta, "num", n)
            self.need(tb, "num", n)
            return "(%s %s %s)" % (a, ops[type(n.op)], b), "num"
        if isinstance(n, ast.UnaryOp) and isinstance(n.op, ast.Not):
            a, ta = self.ex(n.operand, env, pre)
            self.need(ta, "bool", n)
            return "(!%s)" % a, "bool"
        if isinstance(n, ast.BoolOp):
            parts = []
            for v in n.values:
                a, ta = self.ex(v, env, pre)
                self.need(ta, "bool", n)
                parts.append(a)
            return "(" + (" && " if isinstance(n.op, ast.And) else " || ").join(parts) + ")", "bool"
        if isinstance(n, ast.Compare):
            if len(n.ops) != 1:
                raise Gap("chained comparison (%s)" % where(n))
            a, ta = self.ex(n.left, env, pre)
            b, tb = self.ex(n.comparators[0], env, pre)
            op = n.ops[0]
            if ta == "num" and tb == "num" and isinstance(op, (ast.Eq, ast.NotEq)):
                c = "(%s =. %s)" % (a, b)
                return (c if isinstance(op, ast.Eq) else "(!%s)" % c), "bool"
            if ta == "id" and tb == "id" and isinstance(op, (ast.Eq, ast.NotEq)):
                c = "(%s == %s)" % (a, b)
                return (c if isinstance(op, ast.Eq) else "(!%s)" % c), "bool"
            raise Gap("unsupported comparison %s on %s/%s (%s)" % (type(op).__name__, ta, tb, where(n)))
        if isinstance(n, ast.Call):
            return self.call(n, env, pre)
        raise Gap("unsupported expression %s (%s)" % (type(n).__name__, where(n)))

    def need(self, ty, want, n):
        if ty != want:
            raise Gap("expected %s, found %s (%s)" % (want, ty, where(n)))

    def lit(self, v, n):
        f = Fraction(v)
        if f < 0:
            raise Gap("negative literal (%s)" % where(n))
        if f.denominator == 1:
            return "(GeomOps.lit %d)" % f.numerator
        return "((GeomOps.lit %d) /. (GeomOps.lit %d))" % (f.numerator, f.denominator)   # exact: denominator = 2^k

    def close_pt(self, sp, n):
        missing = [f for f in PT_FIELDS if f not in sp.fields]
        if missing:
            raise Gap("constructed Point3DWithDiam used with field(s) %s never set (%s)" % (missing, where(n)))
        return "(⟨%s, %s, %s, %s⟩ : Pt α)" % tuple(sp.fields[f] for f in PT_FIELDS)

    def attr(self, v, ty, a, env, pre, n):
        if ty in ("opt_pt", "opt_par"):           # access through an optional that was not tested: AttributeError on None
            var = self.newvar(re.sub(r"\W+", "_", v).strip("_"))
            pre.append(("unwrap", var, v))
            env["unwrapped"][v] = var
            v, ty = var, ty[4:]
        if ty == "pt" and a in PT_FIELDS:
            return "%s.%s" % (v, a), "num"
        if ty == "seg":
            if a in ("proximal", "parent"):
                key = "%s.%s" % (v, a)
                if key in env["unwrapped"]:
                    return env["unwrapped"][key], ("pt" if a == "proximal" else "par")
                return key, ("opt_pt" if a == "proximal" else "opt_par")
            if a == "distal":
                return "%s.distal" % v, "pt"
            if a in ("length", "volume", "surface_area"):
                var = self.newvar(a)
                pre.append(("bind", var, "Segment.%s %s" % (a, v)))
                return var, "num"
        if ty == "par":
            if a == "segments":
                return "%s.segments" % v, "id"
            if a == "fraction_along":
                return "%s.fraction_along" % v, "num"
        raise Gap("unsupported attribute .%s on %s (%s)" % (a, ty, where(n)))

    def call(self, n, env, pre):
        f = n.func
        if isinstance(f, ast.Name) and f.id not in env["vars"]:
            if f.id == "sqrt" and len(n.args) == 1 and not n.keywords:
                a, ta = self.ex(n.args[0], env, pre)
                self.need(ta, "num", n)
                return "(GeomOps.sqrt %s)" % a, "num"
            if f.id == "float" and len(n.args) == 1 and not n.keywords:
                a, ta = self.ex(n.args[0], env, pre)
                self.need(ta, "num", n)
                return a, "num"
            if f.id == "Point3DWithDiam" and not n.args:
                fields = {}
                for kw in n.keywords:
                    if kw.arg not in PT_FIELDS:
                        raise Gap("Point3DWithDiam(%s=...) (%s)" % (kw.arg, where(n)))
                    a, ta = self.ex(kw.value, env, pre)
                    self.need(ta, "num", n)
                    fields[kw.arg] = a
                return SymPt(fields), "sympt"
            if f.id == "Segment" and not n.args:
                kws = {kw.arg: kw.value for kw in n.keywords}
                if set(kws) - {"distal", "proximal"} or "distal" not in kws:
                    raise Gap("Segment(...) with keywords %s (%s)" % (sorted(kws), where(n)))
                d, td = self.ex(kws["distal"], env, pre)
                self.need(td, "pt", n)
                if "proximal" in kws:
                    p, tp = self.ex(kws["proximal"], env, pre)
                    if tp == "pt":
                        p = "(some %s)" % p
                    elif tp != "opt_pt":
                        raise Gap("Segment(proximal=<%s>) (%s)" % (tp, where(n)))
                else:
                    p = "none"
                return "({ proximal := %s, distal := %s, parent := none } : Seg α)" % (p, d), "seg"
            raise Gap("unsupported call %s(...) (%s)" % (f.id, where(n)))
        if isinstance(f, ast.Attribute):
            if isinstance(f.value, ast.Name) and f.value.id == "math" and "math" not in env["vars"]:
                if f.attr == "sqrt" and len(n.args) == 1 and not n.keywords:
                    a, ta = self.ex(n.args[0], env, pre)
                    self.need(ta, "num", n)
                    return "(GeomOps.sqrt %s)" % a, "num"
                raise Gap("unsupported math.%s(...) (%s)" % (f.attr, where(n)))
            if isinstance(f.value, ast.Name) and env["vars"].get(f.value.id, (None, None))[1] == "cell":
                if f.attr in ("get_segment", "get_actual_proximal") and len(n.args) == 1 and not n.keywords:
                    a, ta = self.ex(n.args[0], env, pre)
                    self.need(ta, "id", n)
                    var = self.newvar("t")
                    pre.append(("bind", var, "%s %s" % (f.attr, a)))
                    return var, ("seg" if f.attr == "get_segment" else "pt")
                raise Gap("unsupported cell method %s (%s)" % (f.attr, where(n)))
            v, ty = self.ex(f.value, env, pre)
            if ty == "pt" and f.attr == "distance_to" and len(n.args) == 1 and not n.keywords:
                a, ta = self.ex(n.args[0], env, pre)
                self.need(ta, "pt", n)
                var = self.newvar("t")
                pre.append(("bind", var, "Point3DWithDiam.distance_to %s %s" % (v, a)))
                return var, "num"
            raise Gap("unsupported method call .%s on %s (%s)" % (f.attr, ty, where(n)))
        raise Gap("unsupported call (%s)" % where(n))

    # ---- statements
    def wrap(self, pre, body, env_names=None):
        """put hoisted steps (in order) in front of `body`"""
        for step in reversed(pre):
            if step[0] == "bind":
                body = Bind(step[1], step[2], body)
            elif step[0] == "guard":
                body = Ite(step[1], Fail(*step[2]), body)
            else:
                body = MatchOpt(step[2], step[1], Fail("AttributeError", "'NoneType' object has no attribute"), body)
        return body

    @staticmethod
    def terminates(stmts):
        if not stmts:
            return False
        s = stmts[-1]
        if isinstance(s, (ast.Return, ast.Raise)):
            return True
        if isinstance(s, ast.If):
            return Fn.terminates(s.body) and Fn.terminates(s.orelse)
        return False

    def none_test(self, test, env):
        """(opt_lean, opt_type, body_is_none_branch) when `test` is a None-test of a segment's optional member"""
        node, is_none = None, None
        if isinstance(test, ast.Compare) and len(test.ops) == 1 and isinstance(test.comparators[0], ast.Constant) \
                and test.comparators[0].value is None:
            if isinstance(test.ops[0], (ast.Eq, ast.Is)):
                node, is_none = test.left, True
            elif isinstance(test.ops[0], (ast.NotEq, ast.IsNot)):
                node, is_none = test.left, False
        elif isinstance(test, ast.Attribute):
            node, is_none = test, False           # truthiness of an object without __bool__/__len__: `is not None`
        elif isinstance(test, ast.UnaryOp) and isinstance(test.op, ast.Not) and isinstance(test.operand, ast.Attribute):
            node, is_none = test.operand, True
        if node is None:
            return None
        pre = []
        try:
            v, ty = self.ex(node, env, pre)
        except Gap:
            return None
        if pre or ty not in ("opt_pt", "opt_par"):
            if ty in ("pt", "par") and not pre:
                raise Gap("None-test of a member already known to be present (%s)" % where(test))
            return None
        return v, ty, is_none

    def block(self, stmts, env):
        if not stmts:
            raise Gap("%s.%s: control reaches the end of the function without return (returns None)" % (self.cls, self.name))
        s, rest = stmts[0], stmts[1:]
        if isinstance(s, ast.Expr) and isinstance(s.value, ast.Constant) and isinstance(s.value.value, str):
            return self.block(rest, env)          # docstring / bare string
        if isinstance(s, ast.Return):
            if rest:
                raise Gap("statements after return (%s)" % where(s))
            if s.value is None:
                raise Gap("bare return (%s)" % where(s))
            pre = []
            v, ty = self.ex(s.value, env, pre)
            if isinstance(v, SymPt):
                raise Gap("returning a point under construction directly (%s)" % where(s))
            if ty not in ("num", "pt"):
                raise Gap("return of %s (%s)" % (ty, where(s)))
            if self.ret_type not in (None, ty):
                raise Gap("return types differ: %s / %s (%s)" % (self.ret_type, ty, where(s)))
            self.ret_type = ty
            if pre and pre[-1][0] == "bind" and pre[-1][1] == v:     # `return helper(...)`: tail call
                return self.wrap(pre[:-1], Tail(pre[-1][2]))
            return self.wrap(pre, Ok(v))
        if isinstance(s, ast.Raise):
            if rest:
                raise Gap("statements after raise (%s)" % where(s))
            return self.raise_(s)
        if isinstance(s, ast.Assign):
            if len(s.targets) != 1:
                raise Gap("multiple assignment targets (%s)" % where(s))
            t = s.targets[0]
            pre = []
            if isinstance(t, ast.Name):
                v, ty = self.ex(s.value, env, pre)
                env2 = self.fork(env)
                if isinstance(v, SymPt):
                    env2["vars"][t.id] = (v, "sympt")
                    return self.wrap(pre, self.block(rest, env2))
                if ty not in ("num", "pt", "seg", "id"):
                    raise Gap("assignment of %s to %s (%s)" % (ty, t.id, where(s)))
                nm = lname(t.id)
                if pre and pre[-1][0] == "bind" and pre[-1][1] == v:   # x = helper(...): bind straight to x
                    pre[-1] = ("bind", nm, pre[-1][2])
                    env2["vars"][t.id] = (nm, ty)
                    return self.wrap(pre, self.block(rest, env2))
                env2["vars"][t.id] = (nm, ty)
                return self.wrap(pre, Let(nm, v, self.block(rest, env2)))
            if isinstance(t, ast.Attribute) and isinstance(t.value, ast.Name) \
                    and isinstance(env["vars"].get(t.value.id, (None,))[0], SymPt) and t.attr in PT_FIELDS:
                v, ty = self.ex(s.value, env, pre)
                self.need(ty, "num", s)
                env2 = self.fork(env)
                sp = SymPt(env["vars"][t.value.id][0].fields)
                sp.fields[t.attr] = v
                env2["vars"][t.value.id] = (sp, "sympt")
                return self.wrap(pre, self.block(rest, env2))
            raise Gap("unsupported assignment target (%s)" % where(s))
        if isinstance(s, ast.If):
            a_term, b_term = self.terminates(s.body), self.terminates(s.orelse)
            if a_term:
                A, B = s.body, list(s.orelse) + list(rest)
            elif b_term:
                A, B = list(s.body) + list(rest), s.orelse
            elif not rest:
                A, B = s.body, s.orelse
            else:
                raise Gap("if-statement whose branches fall through to later statements (%s)" % where(s))
            nt = self.none_test(s.test, env)
            if nt is not None:
                v, ty, body_is_none = nt
                var = self.newvar(re.sub(r"\W+", "_", v).strip("_"))
                env_some = self.fork(env)
                env_some["unwrapped"][v] = var
                if body_is_none:
                    return MatchOpt(v, var, self.block(A, self.fork(env)), self.block(B, env_some))
                return MatchOpt(v, var, self.block(B, self.fork(env)), self.block(A, env_some), some_first=True)
            pre = []
            c, tc = self.ex(s.test, env, pre)
            self.need(tc, "bool", s)
            return self.wrap(pre, Ite(c, self.block(A, self.fork(env)), self.block(B, self.fork(env))))
        raise Gap("unsupported statement %s (%s)" % (type(s).__name__, where(s)))

    @staticmethod
    def fork(env):
        return {"vars": dict(env["vars"]), "unwrapped": dict(env["unwrapped"])}

    def raise_(self, s):
        e = s.exc
        if not (isinstance(e, ast.Call) and isinstance(e.func, ast.Name) and len(e.args) == 1 and not e.keywords):
            raise Gap("unsupported raise (%s)" % where(s))
        m = e.args[0]
        while isinstance(m, ast.BinOp) and isinstance(m.op, ast.Add):
            m = m.left
        if isinstance(m, ast.JoinedStr) and m.values and isinstance(m.values[0], ast.Constant):
            m = m.values[0]
        if not (isinstance(m, ast.Constant) and isinstance(m.value, str)):
            raise Gap("raise message does not start with a string constant (%s)" % where(s))
        return Fail(e.func.id, m.value)

    def translate(self):
        fn = self.node
        key = (self.cls, self.name)
        decos = [ast.dump(d) for d in fn.decorator_list]
        is_prop = decos == [ast.dump(ast.Name(id="property", ctx=ast.Load()))]
        if key in PROPERTIES and not is_prop:
            raise Gap("%s.%s is expected to be a @property" % key)
        if key not in PROPERTIES and decos:
            raise Gap("%s.%s has unexpected decorators" % key)
        a = fn.args
        if a.vararg or a.kwarg or a.kwonlyargs or a.posonlyargs or a.defaults or a.kw_defaults:
            raise Gap("%s.%s: unsupported parameter list" % key)
        names = [x.arg for x in a.args]
        if not names or names[0] != "self":
            raise Gap("%s.%s: first parameter is not self" % key)
        env = {"vars": {"self": ("self", SELF_TYPE[self.cls])}, "unwrapped": {}}
        params = []
        if self.cls == "Cell":
            params.append("(get_segment : Nat → Except Err (Seg α))")
            params.append("(get_actual_proximal : Nat → Except Err (Pt α))")
        else:
            params.append("(self : %s)" % LEAN_TY[SELF_TYPE[self.cls]])
        for nm in names[1:]:
            ty = PARAM_TYPES.get(key, {}).get(nm)
            if ty is None:
                raise Gap("%s.%s: unknown parameter %s" % (self.cls, self.name, nm))
            env["vars"][nm] = (lname(nm), ty)
            params.append("(%s : %s)" % (lname(nm), LEAN_TY[ty]))
        body = self.block(list(fn.body), env)
        head = "def %s.%s {α : Type} [GeomOps α] %s :\n    Except Err (%s) :=\n" % (
            self.cls, self.name, " ".join(params), LEAN_TY[self.ret_type])
        return head + render(body, 1) + "\n"


# ------------------------------------------------------------------ source extraction
def find_in_nml(tree):
    out = {}
    for node in tree.body:
        if isinstance(node, ast.ClassDef) and node.name in SELF_TYPE:
            for it in node.body:
                if isinstance(it, ast.FunctionDef) and (node.name, it.name) in TARGETS:
                    out.setdefault((node.name, it.name), []).append(it)
    return out


def find_in_helpers(tree):
    """MethodSpec(name=, source='''...''', class_names=...) calls; the source is class-body text"""
    out = {}
    problems = []
    for node in ast.walk(tree):
        if not (isinstance(node, ast.Call) and isinstance(node.func, ast.Name) and node.func.id == "MethodSpec"):
            continue
        kw = {k.arg: k.value for k in node.keywords}
        src, cn = kw.get("source"), kw.get("class_names")
        if not (isinstance(src, ast.Constant) and isinstance(src.value, str)):
            continue
        classes = []
        if isinstance(cn, ast.Constant) and isinstance(cn.value, str):
            classes = [cn.value]
        elif isinstance(cn, (ast.List, ast.Tuple)):
            classes = [e.value for e in cn.elts if isinstance(e, ast.Constant)]
        classes = [c for c in classes if c in SELF_TYPE]
        if not classes:
            continue
        try:
            sub = ast.parse("class __Spec__:\n" + src.value + "\n    pass\n")
        except SyntaxError as e:
            problems.append("helper_methods.py: MethodSpec for %s does not parse: %s" % (classes, e))
            continue
        for it in sub.body[0].body:
            if isinstance(it, ast.FunctionDef):
                for c in classes:
                    if (c, it.name) in TARGETS:
                        out.setdefault((c, it.name), []).append(it)
    return out, problems


def env_checks(nml_tree):
    """facts the translation rules rely on"""
    gaps = []
    has_pi = has_sqrt = False
    rebound = set()
    for node in nml_tree.body:
        if isinstance(node, ast.ImportFrom) and node.module == "math":
            for al in node.names:
                if al.name == "pi" and al.asname in (None, "pi"):
                    has_pi = True
                if al.name == "sqrt" and al.asname in (None, "sqrt"):
                    has_sqrt = True
        elif isinstance(node, (ast.FunctionDef, ast.ClassDef)) and node.name in ("pi", "sqrt", "float"):
            rebound.add(node.name)
        elif isinstance(node, ast.Assign):
            for t in node.targets:
                if isinstance(t, ast.Name) and t.id in ("pi", "sqrt", "float", "math"):
                    rebound.add(t.id)
    if not has_pi:
        gaps.append("nml.py: `from math import pi` not found at module level")
    if not has_sqrt:
        gaps.append("nml.py: `from math import sqrt` not found at module level")
    for r in sorted(rebound):
        gaps.append("nml.py: module-level name %s is rebound" % r)
    for node in nml_tree.body:
        if isinstance(node, ast.ClassDef) and node.name in ("Point3DWithDiam", "SegmentParent", "BaseWithoutId"):
            for it in node.body:
                if isinstance(it, ast.FunctionDef) and it.name in ("__bool__", "__len__", "__eq__", "__ne__"):
                    gaps.append("nml.py: class %s defines %s (truthiness / ==None rules no longer apply)" % (node.name, it.name))
    return gaps


HEADER = """\
/-
GENERATED by translators/py2lean_geom.py from neuroml/nml/helper_methods.py and neuroml/nml/nml.py
(both files gave this same text). Regenerated on every `bin/check C12`; do not edit.
-/
import NmlVerif.Model.GeomBase
set_option linter.unusedVariables false

namespace NmlVerif.Gen.Geom
open NmlVerif.Geom

"""
FOOTER = "end NmlVerif.Gen.Geom\n"


RET_TYPE = {("Cell", "get_actual_proximal"): "pt"}


def stub(key):
    cls, name = key
    if cls == "Cell":
        params = "(get_segment : Nat → Except Err (Seg α)) (get_actual_proximal : Nat → Except Err (Pt α)) (segment_id : Nat)"
    elif cls == "Point3DWithDiam":
        params = "(self : Pt α) (other_3d_point : Pt α)"
    else:
        params = "(self : Seg α)"
    return ("/-- `%s.%s` — NOT TRANSLATED (see the translator gap reported for this run); stub so that the rest compiles -/\n"
            "def %s.%s {α : Type} [GeomOps α] %s :\n    Except Err (%s) :=\n  .error ⟨\"Untranslated\", \"%s.%s\"⟩\n"
            % (cls, name, cls, name, params, LEAN_TY[RET_TYPE.get(key, "num")], cls, name))


def translate_repo(repo):
    """returns (lean_text, gaps)"""
    gaps = []
    hp = os.path.join(repo, "neuroml", "nml", "helper_methods.py")
    np_ = os.path.join(repo, "neuroml", "nml", "nml.py")
    with open(hp, encoding="utf-8") as fh:
        htree = ast.parse(fh.read())
    with open(np_, encoding="utf-8") as fh:
        ntree = ast.parse(fh.read())
    gaps += env_checks(ntree)
    hfun, problems = find_in_helpers(htree)
    gaps += problems
    nfun = find_in_nml(ntree)
    chunks = []
    for key in TARGETS:
        texts = {}
        for label, table in (("helper_methods.py", hfun), ("nml.py", nfun)):
            nodes = table.get(key, [])
            if len(nodes) != 1:
                gaps.append("%s: %d definitions of %s.%s (expected 1)" % (label, len(nodes), key[0], key[1]))
                continue
            try:
                texts[label] = Fn(key[0], key[1], nodes[0]).translate()
            except Gap as g:
                gaps.append("%s: %s.%s: %s" % (label, key[0], key[1], g))
            except RecursionError:
                gaps.append("%s: %s.%s: expression too deep" % (label, key[0], key[1]))
        if len(texts) == 2:
            if texts["helper_methods.py"] != texts["nml.py"]:
                gaps.append("%s.%s: helper_methods.py and nml.py translate differently" % key)
            chunks.append("/-- `%s.%s` -/\n%s" % (key[0], key[1], texts["nml.py"]))
        elif len(texts) == 1:
            chunks.append("/-- `%s.%s` (only one source translated) -/\n%s" % (key[0], key[1], list(texts.values())[0]))
        else:
            # neither source could be translated (the gap is reported above): emit a stub with the right signature so that
            # the OTHER functions still compile, the driver still runs and only the obligations about this function break
            chunks.append(stub(key))
    return HEADER + "\n".join(chunks) + "\n" + FOOTER, gaps


def regenerate(repo, out_path):
    text, gaps = translate_repo(repo)
    old = None
    if os.path.exists(out_path):
        with open(out_path, encoding="utf-8") as fh:
            old = fh.read()
    if old != text:
        os.makedirs(os.path.dirname(out_path), exist_ok=True)
        tmp = out_path + ".tmp%d" % os.getpid()
        with open(tmp, "w", encoding="utf-8") as fh:
            fh.write(text)
        os.replace(tmp, out_path)
    return gaps


if __name__ == "__main__":
    repo = sys.argv[1] if len(sys.argv) > 1 else os.environ.get("VERIF_REPO", "/repo")
    here = os.path.dirname(os.path.dirname(os.path.abspath(__file__)))
    out = sys.argv[2] if len(sys.argv) > 2 else os.path.join(here, "lean", "NmlVerif", "Gen", "Geom.lean")
    gs = regenerate(repo, out)
    for g in gs:
        print("GAP:", g)
    print("wrote", out, "gaps:", len(gs))
